# NOT part of the verification machinery.  Supporting material for DESIGN.md section 4:
# a stand-alone reproduction of the findings F1..F32 on the real code.
#   cd /repo && /venv/bin/python /verif/notes/native_probes.py
# prints  F<n>=DEFECT  where the pinned tree shows the behaviour described in DESIGN.md, F<n>=ok otherwise.
# (On the pinned tree all 21 print DEFECT; on a scratch copy with notes/candidate_fixes.patch applied all print ok.)
# Note: the probes virtualise both conn.clock and connection.time.time (FragmentReceiver.expired reads time.time).
import os, struct, time, base64, threading, sys
from mpgameserver.connection import *
from mpgameserver import *
from mpgameserver.http_server import Router, Route, WebSocketFrame, WebSocketOpCode, path_join_safe, WebSocketTemporaryHandler, WebSocketTemporaryRingBuffer
from mpgameserver.dispatch import *
import mpgameserver.connection as cm, mpgameserver.context as ctxm
R={}
def rec(k,bad): R[k]='DEFECT' if bad else 'ok'
key=b"k"*16
# F1
srv=ConnectionBase(True,None); srv.session_key_bytes=key; srv.status=ConnectionStatus.CONNECTED
hdr=PacketHeader.create(False,0,PacketType.CLIENT_HELLO,SeqNum(7),SeqNum(0),0)
dg=Packet.create(hdr,[PendingMessage(SeqNum(1),PacketType.APP,b"forged",None,0),PendingMessage(SeqNum(2),PacketType.DISCONNECT,b"",None,0)]).to_bytes(None)
srv._recv_datagram(PacketHeader.from_bytes(True,dg),dg); rec('F1',bool(srv.incoming_messages) or srv.status!=ConnectionStatus.CONNECTED)
# F2
cli=ClientServerConnection(('127.0.0.1',1)); cli._sendClientHello()
hdr=PacketHeader.create(True,0,PacketType.APP,SeqNum(7),SeqNum(0),0)
dg=Packet.create(hdr,[PendingMessage(SeqNum(1),PacketType.APP,b"forged",None,0)]).to_bytes(None)
cli._recv_datagram(PacketHeader.from_bytes(False,dg),dg); rec('F2',bool(cli.incoming_messages))
# F31
from mpgameserver.server import UdpServerThread
log=[]
class Hh(EventHandler):
    def connect(self, client): log.append(("connect",client.session_key_bytes))
    def handle_message(self, client, seqnum, msg): log.append(("msg",msg))
ctxt=ServerContext(Hh())
class Sock:
    def sendto(self,d,a): pass
th=UdpServerThread(Sock(),ctxt); addr=("6.6.6.6",666)
class FK:
    def getBytes(self): return EllipticCurvePrivateKey.new().getPublicKey().getBytes()
m=HandshakeClientHelloMessage(); m.client_pubkey=FK(); m.client_version=2
d1=Packet.create(PacketHeader.create(False,0,PacketType.CLIENT_HELLO,SeqNum(1),SeqNum(0),0),[PendingMessage(SeqNum(1),PacketType.CLIENT_HELLO,m.dumpb(),None,0)]).to_bytes(None)
r=HandshakeClientChallengeResponseMessage(); r.token=0
d2=Packet.create(PacketHeader.create(False,0,PacketType.CHALLENGE_RESP,SeqNum(2),SeqNum(0),0),[PendingMessage(SeqNum(2),PacketType.CHALLENGE_RESP,r.dumpb(),None,0)]).to_bytes(None)
d3=Packet.create(PacketHeader.create(False,0,PacketType.APP,SeqNum(3),SeqNum(0),0),[PendingMessage(SeqNum(3),PacketType.APP,b"clear",None,0)]).to_bytes(None)
for d in (d1,d2,d3): th.append(addr,PacketHeader.from_bytes(True,d),d)
import logging; logging.disable(logging.CRITICAL)
th.start(); time.sleep(0.3); ctxt._active=False; th._wake(); th.join(2); rec('F31',bool(log))
# F3
a=ConnectionBase(False,None); b=ConnectionBase(True,None)
for c in (a,b): c.session_key_bytes=key; c.status=ConnectionStatus.CONNECTED
T=[1000.0]; a.clock=b.clock=lambda:T[0]; cm.time.time=lambda:T[0]
first=None; acc=0
for i in range(45):
    T[0]+=0.02; a.send(b"m%d"%i); d=a._encode_packet(a._build_packet())
    if first is None: first=d
    b._recv_datagram(PacketHeader.from_bytes(True,d),d)
rec('F3', b._recv_datagram(PacketHeader.from_bytes(True,first),first))
# F5 / F6
def stuck(L,mtu=1500):
    Packet.setMTU(mtu); c=ConnectionBase(False,None); c.status=ConnectionStatus.CONNECTED; c.session_key_bytes=key; t=[10.0]; c.clock=lambda:t[0]
    c.send(b"x"*L); big=0
    for i in range(20):
        t[0]+=0.02; p=c._build_packet()
        if p and p.hdr.pkt_type!=PacketType.KEEP_ALIVE: big=max(big,len(c._encode_packet(p)))
    r=len(c.outgoing_messages)>0 or big>mtu-28; Packet.setMTU(1500); return r
rec('F5', any(stuck(L) for L in (1433,1434,2451)) or any(stuck(L,512) for L in (445,446,900)))
c=ConnectionBase(False,None); c.status=ConnectionStatus.CONNECTED; c.session_key_bytes=key
for i in range(600): c.send(b"")
try:
    t=[50.0]; c.clock=lambda:t[0]; n=0
    for i in range(5):
        t[0]+=0.02; p=c._build_packet()
        if p is None: continue
        n+=p.hdr.count; c._encode_packet(p)
    rec('F6', n!=600)
except Exception as e: rec('F6',True)
# F7 / F12
cl=UdpClient(); cl.setKeepAliveInterval(0.5)
class S0:
    def close(self): pass
cl._make_socket=lambda a:S0(); cl.connect(("127.0.0.1",9))
bad=cl.conn.send_keep_alive_interval!=0.5
for fn in (cl.setConnectionTimeout,cl.setMessageTimeout):
    try: fn(3.0)
    except Exception: bad=True
bad = bad or cl.conn.temp_connection_timeout!=3.0 or cl.conn.outgoing_timeout!=3.0
rec('F12',bad)
cl.conn.status=ConnectionStatus.CONNECTED
try: cl.send_guaranteed(b"x"); rec('F7',False)
except NameError: rec('F7',True)
# F8/F9/F32 : lossy link simulation
def link(payload, retry, drop_ab=lambda i:False, steps=400, delay=0.0):
    a=ConnectionBase(False,None); b=ConnectionBase(True,None)
    for c in (a,b): c.session_key_bytes=key; c.status=ConnectionStatus.CONNECTED
    T=[2000.0]; a.clock=b.clock=lambda:T[0]; cm.time.time=lambda:T[0]
    fired=[]; got=[]; a.send(payload,retry=retry,callback=lambda ok:fired.append(ok))
    qab=[];qba=[];i=0;err=None
    for s in range(steps):
        T[0]+=1/60+1e-6
        p=a._build_packet()
        if p:
            d=a._encode_packet(p); i+=1
            if not drop_ab(i): qab.append((T[0]+delay,d))
        a._check_timeout(T[0])
        p=b._build_packet()
        if p: qba.append((T[0]+delay,b._encode_packet(p)))
        b._check_timeout(T[0])
        try:
            while qab and qab[0][0]<=T[0]: d=qab.pop(0)[1]; b._recv_datagram(PacketHeader.from_bytes(True,d),d)
            while qba and qba[0][0]<=T[0]: d=qba.pop(0)[1]; a._recv_datagram(PacketHeader.from_bytes(False,d),d)
        except Exception as e: err=e
        got+=[m for _,m in b.incoming_messages]; b.incoming_messages=[]
    return fired,got,err
p=os.urandom(5000)
fired,got,err=link(p,RetryMode.RETRY_ON_TIMEOUT,drop_ab=lambda i:i==2)
rec('F8', got!=[p] or err is not None)
fired,got,err=link(p,RetryMode.NONE)
rec('F9', fired!=[True])
fired,got,err=link(b"guaranteed",RetryMode.RETRY_ON_TIMEOUT,delay=0.15,steps=200)
rec('F32', fired!=[True] or got!=[b"guaranteed"])
# F21
a=ConnectionBase(False,None); a.session_key_bytes=key; a.status=ConnectionStatus.CONNECTED; a.seq_sending=SeqNum(65534); fired=[]
T=[10.0]; a.clock=lambda:T[0]; a.send(b"x",callback=fired.append); pk=a._build_packet()
h=PacketHeader.create(True,0,PacketType.KEEP_ALIVE,SeqNum(1),SeqNum(0),0); a.last_recv_time=T[0]; a._handle_ack_bits(h); rec('F21', fired==[True])
# F11
ctx=ServerContext(EventHandler()); orig=os.urandom
ctxm.os.urandom=lambda n,st=[0]: (st.__setitem__(0,st[0]+1) or (b"\x00\x00\x00\x01" if st[0]<=2 else orig(n)))
c1=ServerClientConnection(ctx,("1.1.1.1",1)); c1.token=ctx.get_token(); ctx.connections[c1.addr]=c1
t2=ctx.get_token(); ctxm.os.urandom=orig; rec('F11', t2==c1.token)
# F13
c=ClientServerConnection(("1.1.1.1",1)); T2=[50.0]; c.clock=lambda:T2[0]; c._sendClientHello(); T2[0]+=10; c.update(); rec('F13', c.status!=ConnectionStatus.DISCONNECTED)
# F14 F15
r=Router(); r.registerRoutes([Route("a","GET","/static/:path+",lambda q:None)])
rec('F14', r.getRoute("GET","/staticfoo") is not None or r.getRoute("GET","/static/") is not None or r.getRoute("GET","/static/a/b") is None)
try: rec('F15', not path_join_safe("/srv/www","/etc/passwd").startswith("/srv/www"))
except ValueError: rec('F15',False)
# F16 F17 F18
class Buf:
    def __init__(s): s.out=b""
    def sendall(s,d): s.out+=d
def rt(frame):
    o=Buf(); frame.writeHeader(o); frame.writeDataHeader(o); frame.writeData(o)
    rb=WebSocketTemporaryRingBuffer(None); rb._push(o.out); f=WebSocketFrame(); f.readHeader(rb); f.readDataHeader(rb); f.readData(rb)
    return bytes(f.payload)==bytes(frame.payload) and rb.buf==b""
try: rec('F16', not all(rt(WebSocketFrame.Binary(b"x"*L)) for L in (0,125,126,65534,65535,65536)))
except Exception: rec('F16',True)
f=WebSocketFrame.Binary(b"hello"); f.flags.mask=1; f.masking_key=b"\x01\x02\x03\x04"
try: rec('F17', not rt(f))
except Exception: rec('F17',True)
def mk(msg):
    f=WebSocketFrame.Text(msg); f.flags.mask=1; f.masking_key=b"\x09\x08\x07\x06"
    pl=bytes(b^f.masking_key[i%4] for i,b in enumerate(f.payload))
    return f.serializeHeader()+f.serializeDataHeader()+pl
class Ep:
    def __init__(s): s.got=[]
    def callback(s,h,op,pl): s.got.append(pl)
ep=Ep(); h=WebSocketTemporaryHandler(("h",1),{},{},WebSocketTemporaryRingBuffer(None),ep)
stream=mk("one")+mk("two")+mk("three"*50)
try:
    for chunk in (stream[:3],stream[3:20],stream[20:]): h(chunk)
    rec('F18', ep.got!=["one","two","three"*50])
except Exception as e: rec('F18',True)
# F19
hp=Auth.hash_password(b"pw"); bad=False
for s in ("scrypt","scrypt:1",""):
    try: Auth.verify_password(b"pw",s); 
    except (ValueError,TypeError): pass
    except Exception: bad=True
crafted="scrypt:1:"+base64.b64encode(struct.pack(">HBBBB",16384,16,1,40,0)).decode()+":"+hp.split(":")[3]
try: bad = bad or Auth.verify_password(b"anything",crafted)
except (ValueError,TypeError): pass
rec('F19', bad or not Auth.verify_password(b"pw",hp) or Auth.verify_password(b"pw2",hp))
# F20
class Mx(Serializable):
    v:int=0
class Rs:
    def __init__(s): s.n=0
    @server_event
    def h(self, client, seqnum, msg: Mx): self.n+=1
d=ServerMessageDispatcher(); res=Rs(); d.register(res)
try:
    d.unregister(res)
    try: d.dispatch(None,1,Mx()); still=True
    except DispatchError: still=False
    d.register(res); rec('F20', still)
except Exception: rec('F20',True)
print(' '.join('%s=%s'%(k,v) for k,v in R.items()))
os._exit(0)
