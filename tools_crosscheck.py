#!/usr/bin/env python3
"""Differential self-test of the engine's CONCRETE semantics against CPython: small expressions over ints, bytes, str, tuples,
lists, dicts and sets (indexing, slicing with steps, arithmetic, comparisons, methods, builtins) are evaluated by the pyvc
interpreter on concrete values and by CPython's eval; any difference in value, or a Python exception where CPython returns a
value (or the other way round), is an engine defect.  `Unsupported` (= UNDECIDED) is always acceptable.
usage: python3-vt tools_crosscheck.py [n_random]      exit 0 = no difference"""
import ast, itertools, random, sys, os
sys.path.insert(0, os.path.dirname(os.path.abspath(__file__)))
from fractions import Fraction
from pyvc.ctx import Ctx, PyExc
from pyvc.interp import Interp, Frame
from pyvc.values import PyList, PyDict, PySet, Unsupported, Sym

ENV = {'t': ('a', 'b', 'c', 'd', 'e'), 'l': [5, 3, 8, 1], 'b': b'\x00\x01abc\xff', 's': 'a/b/../c', 'n': 7, 'm': -3, 'z': 0,
       'd': {1: 'x', 2: 'y'}, 'e': (), 'u': 'héllo', 'k': 65535, 'q': {3, 1, 2}, 'bb': True, 'no': None}


def to_engine(v):
    if isinstance(v, list):
        return PyList([to_engine(x) for x in v])
    if isinstance(v, dict):
        d = PyDict()
        for k, x in v.items():
            d.keys.append(to_engine(k)); d.vals.append(to_engine(x))
        return d
    if isinstance(v, set):
        return PySet([to_engine(x) for x in sorted(v)])
    if isinstance(v, tuple):
        return tuple(to_engine(x) for x in v)
    return v


def from_engine(v):
    if isinstance(v, PyList):
        return [from_engine(x) for x in v.items]
    if isinstance(v, PyDict):
        return {from_engine(k): from_engine(x) for k, x in zip(v.keys, v.vals)}
    if isinstance(v, PySet):
        return set(from_engine(x) for x in v.items)
    if isinstance(v, tuple):
        return tuple(from_engine(x) for x in v)
    if isinstance(v, Fraction):
        return float(v) if v.denominator != 1 else (float(v.numerator))
    if isinstance(v, Sym):
        raise Unsupported('symbolic result')
    if v is not None and not isinstance(v, (bool, int, float, str, bytes)):
        raise Unsupported('a value with an engine-internal representation (opaque string, type object, ...): not compared')
    return v


FIXED = '''t[::-1] t[::2] t[1:4:2] t[-1] t[1:] t[:-1] t[5:] l[::-1] l[1::2] b[::-1] b[::2] b[1:3] s[::-1] s[2:5] u[1:3]
len(t) len(b) len(s) len(d) len(q) len(e) min(l) max(l) sum(l) sorted(l) list(t) tuple(l) abs(m) abs(n) int(n) int("12") int(3.7) int(-3.7)
n//2 m//2 n%3 m%3 n**2 n>>1 n<<2 n&5 n|8 n^2 ~n -n k&0xff (k>>8)&0xff n/2 divmod(n,3) divmod(m,3)
n<m n<=7 n==7 n!=7 t==t l==[5,3,8,1] b==b"x" "a"~in~t "z"~in~t 3~in~l 1~in~d "x"~in~d 9~in~q 1~in~q
s.split("/") s.startswith("a") s.endswith("c") s.replace("/","-") s.upper() "7".isdigit() "x7".isdigit() s.encode("utf-8") u.encode("utf-8")
b.decode("latin-1") b"ab".decode("utf-8") b"".join([b"a",b"b"]) ",".join(["a","b"]) b+b"z" s+"z" t+("z",) l+[0] t*2 b*2 "ab"*3
d[1] d.get(3) d.get(3,"q") list(d) list(d.keys()) list(d.values()) list(d.items()) dict(d) bool(e) bool(t) bool(z) bool(n) bool("") not~n
n~if~n>3~else~m [x*2~for~x~in~l] [x~for~x~in~l~if~x>2] {x:x*x~for~x~in~l} any(x>7~for~x~in~l) all(x>0~for~x~in~l) isinstance(n,int) isinstance(bb,int)
isinstance(s,str) isinstance(b,bytes) isinstance(no,int) type(n)==int type(s)~is~str str(n) str(m) repr(n) bytes(3) bytes([1,2]) bytearray(b"ab") int.from_bytes(b"\\x01\\x02","big")
(n).to_bytes(2,"big") range(3)[1] list(range(1,7,2)) list(range(5,0,-2)) 3~in~range(1,5) 5~in~range(1,5) 4~in~range(0,10,3) list(enumerate(t))[1] list(zip(t,l))[0]
min(n,m) max(n,m,z) round(2.5) round(3.5) float(n) n==7.0 hash(n)==hash(7) t.index("c") t.count("a") l.index(8) s.find("/") s.find("q") s.count("/") b.find(b"a") b[0] b[-1] s[0] s[-1]
l[-1] l[0:0] t[10:] s.strip("ac") "~x~".strip() s.lstrip("a") s.rstrip("c") b.lstrip(b"\\x00") s.partition("/") s.rsplit("/",1) s.rsplit("/") s.split("/",1) s.lower() s.title() "%d-%s"~%~(n,s) "%5.2f"~%~2.5 "%r"~%~(s,)
"{}:{}".format(n,s) f"{n}:{s}" chr(97) ord("a") hex(255) bin(5) oct(8) pow(2,10) pow(2,10,7) n.bit_length() (255).bit_length() bool(no) no~is~None n~is~not~None'''.split()
FIXED = [x.replace('~', ' ').strip() for x in FIXED]


def gen_random(rng):
    seqs = ['t', 'l', 'b', 's', 'u']
    ints = ['n', 'm', 'z', '1', '2', '-1', '-2', '3', '5', 'None']
    v = rng.choice(seqs)
    form = rng.randrange(6)
    if form == 0:
        return '%s[%s:%s:%s]' % (v, rng.choice(ints), rng.choice(ints), rng.choice(['None', '1', '2', '-1', '-2', 'z']))
    if form == 1:
        return '%s[%s:%s]' % (v, rng.choice(ints), rng.choice(ints))
    if form == 2:
        return '%s[%s]' % (v, rng.choice(ints[:-1]))
    if form == 3:
        return '(%s %s %s)' % (rng.choice(ints[:-1]), rng.choice(['+', '-', '*', '//', '%', '&', '|', '^', '<<', '>>', '<', '<=', '==', '!=']), rng.choice(ints[:-1]))
    if form == 4:
        return 'len(%s[%s:%s])' % (v, rng.choice(ints), rng.choice(ints))
    return '%s in %s' % (rng.choice(['"a"', '"b"', '5', 'b"a"', '"/"', '97']), v)


def run(expr):
    try:
        want = ('val', eval(expr, {}, dict(ENV)))
    except Exception as e:
        want = ('exc', type(e).__name__)
    ctx = Ctx([], new_path=True)
    ip = Interp(ctx)
    fr = Frame(None, ip.repo.module('serializable'), None, name='<crosscheck>')
    for k, v in ENV.items():
        fr.locals[k] = to_engine(v)
    try:
        got = ('val', from_engine(ip.eval(ast.parse(expr, mode='eval').body, fr)))
    except PyExc as e:
        got = ('exc', e.name)
    except Unsupported:
        return None
    except Exception as e:
        return None if 'Unsupported' in type(e).__name__ else ('crash', expr, repr(e)[:120], want)
    if ctx.forks:
        return None
    if want[0] == 'val' and got[0] == 'val':
        w, g = want[1], got[1]
        if isinstance(w, (bytearray,)):
            w = bytes(w)
        if isinstance(w, range):
            return None
        if isinstance(w, float) and isinstance(g, (int, float)) and abs(w - g) < 1e-9:
            return None
        if type(w) in (dict_keys, dict_values, dict_items) if False else False:
            return None
        if w == g and (type(w) is type(g) or isinstance(w, float) or isinstance(g, float) or (isinstance(w, bool) == isinstance(g, bool))):
            return None
        return ('value', expr, g, w)
    if want[0] == 'exc' and got[0] == 'exc':
        anc = [c.__name__ for c in getattr(__builtins__, want[1], Exception).__mro__] if hasattr(__builtins__, want[1]) else [want[1]]
        return None if (got[1] == want[1] or got[1] in anc or want[1] in ('OverflowError',)) else ('exception', expr, got[1], want[1])
    return ('outcome', expr, got, want)


def main():
    n = int(sys.argv[1]) if len(sys.argv) > 1 else 3000
    rng = random.Random(1)
    exprs = list(FIXED) + [gen_random(rng) for _ in range(n)]
    bad, undec = [], 0
    seen = set()
    for e in exprs:
        if e in seen:
            continue
        seen.add(e)
        r = run(e)
        if r is None:
            continue
        bad.append(r)
    for b in bad[:40]:
        print('DIFF', b)
    print('%d expressions, %d differences' % (len(seen), len(bad)))
    return 1 if bad else 0




# ------------------------------------------------------------------------------------------ whole functions, concretely
def crosscheck_serializer(n=300):
    """the REAL serialize_value / deserialize_value of /repo run concretely inside the engine (its struct / BytesIO / codec models)
    against the same functions run natively by CPython: bytes written, value read back, position, exceptions"""
    import io, importlib.util
    from pyvc import libspec, loader
    repo = os.environ.get('PYVC_REPO', '/repo')
    try:
        import types, importlib
        pkg = types.ModuleType('mpg_native')
        pkg.__path__ = [os.path.join(repo, 'mpgameserver')]     # (a bare package: the real __init__ imports the crypto library)
        sys.modules['mpg_native'] = pkg
        nat = importlib.import_module('mpg_native.serializable')
    except Exception as e:
        print('serializer cross-check skipped: native import failed: %r' % (e,))
        return 0
    rng = random.Random(7)
    ints = [0, 1, -1, 127, 128, -127, -128, -129, 32767, 32768, -32768, -32769, 2 ** 31 - 1, 2 ** 31, -2 ** 31, -2 ** 31 - 1,
            2 ** 63 - 1, -2 ** 63, 2 ** 63, -2 ** 63 - 1, 255, 256, 65535, 65536]
    strs = ['', 'a', 'héllo', '﻿x', '世界', 'x' * 300, '\x00']
    byts = [b'', b'\x00', b'abc', bytes(range(256))]

    def leaf():
        k = rng.randrange(6)
        if k == 0:
            return rng.choice(ints)
        if k == 1:
            return rng.choice(strs)
        if k == 2:
            return rng.choice(byts)
        if k == 3:
            return rng.choice([True, False])
        if k == 4:
            return None
        return rng.randrange(-10 ** 12, 10 ** 12)

    def value(depth=0):
        k = rng.randrange(8 if depth < 2 else 4)
        if k < 4:
            return leaf()
        if k == 4:
            return [value(depth + 1) for _ in range(rng.randrange(4))]
        if k == 5:
            return tuple(value(depth + 1) for _ in range(rng.randrange(4)))
        if k == 6:
            return {rng.choice(ints[:8] + strs[:3]): value(depth + 1) for _ in range(rng.randrange(3))}
        return set(rng.sample(ints, rng.randrange(4)))

    bad = []
    vals = list(ints) + list(strs) + list(byts) + [True, False, None, [], (), {}, set()] + [value() for _ in range(n)]
    for v in vals:
        s = io.BytesIO()
        try:
            nat.serialize_value(s, v)
            want = ('val', s.getvalue())
        except Exception as e:
            want = ('exc', type(e).__name__)
        ctx = Ctx([], new_path=True)
        ip = Interp(ctx)
        try:
            es = libspec.BytesIOVal(ip, None)
            ip.call_function(ip.repo.func('serializable.serialize_value'), [es, to_engine(v)], {})
            got = ('val', es.buf if isinstance(es.buf, bytes) else None)
            if got[1] is None:
                continue
        except PyExc as e:
            got = ('exc', e.name)
        except Unsupported:
            continue
        if ctx.forks:
            continue
        if want[0] != got[0] or (want[0] == 'val' and want[1] != got[1]):
            if want[0] == 'val' and got[0] == 'val' and len(want[1]) == len(got[1]):
                # (sets are written in iteration order, which is not specified: accept bytes that natively decode to the same value)
                try:
                    if nat.deserialize_value(io.BytesIO(got[1])) == nat.deserialize_value(io.BytesIO(want[1])):
                        continue
                except Exception:
                    pass
            if not (want[0] == 'exc' and got[0] == 'exc'):
                bad.append(('serialize_value', repr(v)[:80], got, want))
            continue
        if want[0] != 'val':
            continue
        data = want[1] + b'tail'
        r = io.BytesIO(data)
        w = nat.deserialize_value(r)
        ctx = Ctx([], new_path=True)
        ip = Interp(ctx)
        try:
            es = libspec.BytesIOVal(ip, data)
            g = from_engine(ip.call_function(ip.repo.func('serializable.deserialize_value'), [es], {}))
            pos = es.pos if isinstance(es.pos, int) else None
        except (PyExc, Unsupported):
            continue
        if ctx.forks:
            continue
        if g != w or (pos is not None and pos != r.tell()):
            bad.append(('deserialize_value', repr(v)[:80], (g, pos), (w, r.tell())))
    for b in bad[:20]:
        print('DIFF', b)
    print('serializer: %d values, %d differences' % (len(vals), len(bad)))
    return len(bad)


_main = main


def main():
    rc = _main()
    return 1 if (crosscheck_serializer() or rc) else 0


if __name__ == '__main__':
    sys.exit(main())
