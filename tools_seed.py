#!/usr/bin/env python3
"""Validate a candidate breaking change produced by a sub-agent and (if valid) keep it under /verif/seeded/<id>/.
usage: tools_seed.py <dir with patch.diff demo.py meta.json> <id> [--props C08,C04] [--no-tests]
Steps (all in a scratch worktree of /repo under /var/tmp, removed afterwards):
  1. patch applies to /repo HEAD     2. pytest suite passes with the change
  3. demo passes without / fails with   4. our checks for the property are run against the changed tree (reported)"""
import json, os, shutil, subprocess, sys, tempfile
HERE = os.path.dirname(os.path.abspath(__file__))


def sh(cmd, cwd=None, env=None, timeout=1800):
    r = subprocess.run(cmd, shell=True, cwd=cwd, env=env, capture_output=True, text=True, timeout=timeout)
    return r.returncode, r.stdout + r.stderr


def main():
    src, sid = sys.argv[1], sys.argv[2]
    props = None
    run_tests = '--no-tests' not in sys.argv
    for i, a in enumerate(sys.argv):
        if a == '--props':
            props = sys.argv[i + 1].split(',')
    meta = json.load(open(os.path.join(src, 'meta.json')))
    props = props or [meta['property']]
    wt = tempfile.mkdtemp(prefix='seedwt_', dir='/var/tmp')
    os.rmdir(wt)
    rc, out = sh('git -C /repo worktree add -q --detach %s HEAD' % wt)
    assert rc == 0, out
    res = {'id': sid}
    try:
        env = dict(os.environ, PYTHONPATH=wt)
        rc, out = sh('/venv/bin/python %s' % os.path.join(os.path.abspath(src), 'demo.py'), cwd=wt, env=env)
        res['demo_without'] = rc
        rc, out = sh('git apply --whitespace=nowarn %s' % os.path.join(os.path.abspath(src), 'patch.diff'), cwd=wt)
        res['applies'] = (rc == 0)
        if rc != 0:
            print(out)
            print(json.dumps(res)); return 1
        rc, out = sh('/venv/bin/python %s' % os.path.join(os.path.abspath(src), 'demo.py'), cwd=wt, env=env)
        res['demo_with'] = rc
        res['demo_with_tail'] = out[-300:]
        if run_tests:
            rc, out = sh('/venv/bin/python -m pytest -q -p no:cacheprovider --timeout=900 -x', cwd=wt, env=env)
            res['tests_rc'] = rc
            res['tests_tail'] = out.strip().split('\n')[-1]
        checks = {}
        for p in props:
            e2 = dict(os.environ, PYVC_REPO=wt)
            rc, out = sh('%s %s --only .' % (os.path.join(HERE, 'check'), p), env=e2)
            checks[p] = {'exit': rc, 'obligations': [l.split('obligation=')[1].split(' ')[0] + (' (reproduced)' if 'reproduced-on-real-code' in l else '')
                                                     for l in out.split('\n') if l.startswith('VIOLATION')][:8],
                         'other': [l[:200] for l in out.split('\n') if l.startswith(('UNDECIDED', 'CHECKER', 'VACUOUS'))][:4]}
        res['checks'] = checks
        valid = res['demo_without'] == 0 and res['demo_with'] != 0 and (not run_tests or res.get('tests_rc') == 0)
        res['valid'] = valid
        print(json.dumps(res, indent=1))
        if valid:
            dst = os.path.join(HERE, 'seeded', sid)
            os.makedirs(dst, exist_ok=True)
            if os.path.abspath(src) != os.path.abspath(dst): shutil.copy(os.path.join(src, "patch.diff"), dst)
            if os.path.abspath(src) != os.path.abspath(dst): shutil.copy(os.path.join(src, "demo.py"), dst)
            prev = {}
            try:
                prev = json.load(open(os.path.join(dst, 'meta.json'))).get('validated', {})
            except Exception:
                pass
            meta['properties'] = props
            meta['validated'] = {'repo_head': sh('git -C /repo rev-parse --short HEAD')[1].strip(),
                                 'tests': res.get('tests_tail') or prev.get('tests', 'not run'), 'demo_without_exit': res['demo_without'],
                                 'demo_with_exit': res['demo_with'],
                                 'ran': 'scratch worktree of /repo HEAD; git apply patch.diff; PYTHONPATH=<wt> /venv/bin/python -m pytest -q (serial); '
                                        'PYTHONPATH=<wt> /venv/bin/python demo.py with and without the patch; ./check <prop> with PYVC_REPO=<wt>'}
            meta['detected_by'] = {p: c['obligations'] for p, c in checks.items()}
            json.dump(meta, open(os.path.join(dst, 'meta.json'), 'w'), indent=1)
        return 0
    finally:
        sh('git -C /repo worktree remove --force %s' % wt)
        shutil.rmtree(wt, ignore_errors=True)


sys.exit(main())
