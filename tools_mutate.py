#!/usr/bin/env python3
"""apply a seed mutant (mutants/seed_mutants.json) or a patch to a scratch copy of /repo (under /var/tmp) and run checks there.
usage: tools_mutate.py <mutant-id|patch.diff> <Cxx> [more props]"""
import json, os, shutil, subprocess, sys, tempfile
HERE = os.path.dirname(os.path.abspath(__file__))
def main():
    mid = sys.argv[1]; props = [a for a in sys.argv[2:] if not a.startswith('--only=')]
    only = ([a[7:] for a in sys.argv[2:] if a.startswith('--only=')] or ['.'])[0]
    scratch = tempfile.mkdtemp(prefix='pyvc_mut_', dir='/var/tmp')
    try:
        dst = os.path.join(scratch, 'repo')
        shutil.copytree('/repo/mpgameserver', os.path.join(dst, 'mpgameserver'))
        if os.path.exists(mid):
            subprocess.run(['git', 'init', '-q'], cwd=dst, check=True)
            r = subprocess.run(['git', 'apply', '--whitespace=nowarn', os.path.abspath(mid)], cwd=dst)
            if r.returncode != 0:
                print('patch failed'); return 3
        else:
            ms = json.load(open(os.path.join(HERE, 'mutants', 'seed_mutants.json')))['mutants']
            m = [x for x in ms if x['id'] == mid][0]
            p = os.path.join(dst, m['file'])
            raw = open(p, 'rb').read().decode('utf-8')
            crlf = '\r\n' in raw
            txt = raw.replace('\r\n', '\n')
            assert txt.count(m['old']) == 1, 'old text occurs %d times' % txt.count(m['old'])
            txt = txt.replace(m['old'], m['new'])
            if crlf: txt = txt.replace('\n', '\r\n')
            open(p, 'wb').write(txt.encode('utf-8'))
        env = dict(os.environ, PYVC_REPO=dst, PYVC_NO_EVIDENCE='1')
        rc = 0
        for prop in props:
            r = subprocess.run([os.path.join(HERE, 'check'), prop, '--only', only], env=env)
            rc = max(rc, r.returncode)
        return rc
    finally:
        shutil.rmtree(scratch, ignore_errors=True)
sys.exit(main())
