"""Path context: decisions, path condition, obligations, fresh symbols."""
import os
import time
import z3
from .values import *
from . import ops

RLIMIT = 40_000_000        # resource limit per query (deterministic, load independent)
TIMEOUT_MS = 30_000        # wall-clock safety net only
FEAS_RLIMIT = 3_000_000
FEAS_TIMEOUT_MS = 2_500


class PathEnd(Exception):
    """the current path stops here (after a loop-body cut, an infeasible assumption, ...)"""


class PyExc(Exception):
    """an exception of the interpreted program"""
    def __init__(self, name, clsinfo=None, args=(), msg=''):
        Exception.__init__(self, name)
        self.name = name          # 'ValueError', 'struct.error', or the repo class name
        self.clsinfo = clsinfo    # ClassInfo for repo-defined exception classes
        self.args_v = args
        self.msg = msg
        self.origin = None        # where it was raised (for reports)

    def ancestors(self):
        return exc_ancestors(self.name, self.clsinfo)


EXC_PARENT = {
    'BaseException': None, 'Exception': 'BaseException', 'ValueError': 'Exception', 'TypeError': 'Exception',
    'LookupError': 'Exception', 'KeyError': 'LookupError', 'IndexError': 'LookupError',
    'AttributeError': 'Exception', 'NameError': 'Exception', 'UnboundLocalError': 'NameError',
    'ArithmeticError': 'Exception', 'ZeroDivisionError': 'ArithmeticError', 'OverflowError': 'ArithmeticError',
    'RuntimeError': 'Exception', 'NotImplementedError': 'RuntimeError', 'RecursionError': 'RuntimeError',
    'StopIteration': 'Exception', 'OSError': 'Exception', 'ConnectionError': 'OSError',
    'ConnectionResetError': 'ConnectionError', 'AssertionError': 'Exception', 'UnicodeError': 'ValueError',
    'UnicodeDecodeError': 'UnicodeError', 'UnicodeEncodeError': 'UnicodeError', 'struct.error': 'Exception',
    'InvalidSignature': 'Exception', 'InvalidTag': 'Exception', 'InvalidKey': 'Exception',
    'NonTermination': 'BaseException',     # engine verdict: the program provably never leaves a loop on this input
    'binascii.Error': 'ValueError', 'MemoryError': 'Exception', 'ImportError': 'Exception',
    're.error': 'Exception', 'json.JSONDecodeError': 'ValueError', 'UnsupportedAlgorithm': 'Exception',
}


def exc_ancestors(name, clsinfo=None):
    out = []
    if clsinfo is not None:
        for c in clsinfo.mro():
            out.append(c.name)
        for b in clsinfo.builtin_base_names():
            n = b
            while n is not None and n not in out:
                out.append(n)
                n = EXC_PARENT.get(n)
        return out
    n = name
    while n is not None:
        out.append(n)
        n = EXC_PARENT.get(n, 'Exception' if n not in ('Exception', 'BaseException') else EXC_PARENT.get(n))
        if n in out:
            break
    return out


def len_weaken(g, pos=True):
    """g with every POSITIVE byte-string equality a = b replaced by len(a) = len(b) (a consequence of g), or None if
    g has no such equality"""
    changed = [False]

    def walk(t, pos):
        if z3.is_and(t) or z3.is_or(t):
            ch = [walk(c, pos) for c in t.children()]
            return z3.And(ch) if z3.is_and(t) else z3.Or(ch)
        if z3.is_not(t):
            return z3.Not(walk(t.children()[0], not pos))
        if z3.is_implies(t):
            a, b = t.children()
            return z3.Implies(walk(a, not pos), walk(b, pos))
        if z3.is_app(t) and t.decl().kind() == z3.Z3_OP_ITE and t.sort() == BoolSort:
            c, a, b = t.children()
            return z3.If(c, walk(a, pos), walk(b, pos))
        if pos and z3.is_eq(t) and t.children()[0].sort() == BytesSort:
            a, b = t.children()
            changed[0] = True
            return ops.blen(a) == ops.blen(b)
        return t
    r = walk(g, pos)
    return r if changed[0] else None


_SYMS_CACHE = {}


def term_symbols(t):
    """names of the uninterpreted constants and functions occurring in t (cached per ast id)"""
    key = t.get_id()
    r = _SYMS_CACHE.get(key)
    if r is not None:
        return r[1]
    out = set()
    seen = set()
    stack = [t]
    while stack:
        x = stack.pop()
        i = x.get_id()
        if i in seen:
            continue
        seen.add(i)
        if z3.is_quantifier(x):
            stack.append(x.body())
            continue
        if z3.is_app(x):
            d = x.decl()
            if d.kind() == z3.Z3_OP_UNINTERPRETED:
                out.add(d.name())
            stack.extend(x.children())
    _SYMS_CACHE[key] = (t, frozenset(out))
    return _SYMS_CACHE[key][1]


_STRUCT_CACHE = {}


def structural_symbols(t):
    """uninterpreted symbols of t, not looking inside byte-string arguments of length-agnostic uninterpreted functions"""
    key = t.get_id()
    r = _STRUCT_CACHE.get(key)
    if r is not None:
        return r[1]
    out = set()
    seen = set()
    stack = [t]
    while stack:
        x = stack.pop()
        i = x.get_id()
        if i in seen:
            continue
        seen.add(i)
        if z3.is_quantifier(x):
            stack.append(x.body())
            continue
        if z3.is_app(x):
            d = x.decl()
            if d.kind() == z3.Z3_OP_UNINTERPRETED:
                out.add(d.name())
                if d.name() in ops.LENGTH_AGNOSTIC:
                    for ch in x.children():
                        if ch.sort().kind() != z3.Z3_SEQ_SORT:
                            stack.append(ch)
                    continue
            stack.extend(x.children())
    _STRUCT_CACHE[key] = (t, frozenset(out))
    return _STRUCT_CACHE[key][1]


def content_symbols(t):
    """the uninterpreted symbols of t that carry byte-string CONTENT (range sort Seq, or an array of Seq)"""
    out = set()
    seen = set()
    stack = [t]
    while stack:
        x = stack.pop()
        i = x.get_id()
        if i in seen:
            continue
        seen.add(i)
        if z3.is_quantifier(x):
            stack.append(x.body())
            continue
        if z3.is_app(x):
            d = x.decl()
            if d.kind() == z3.Z3_OP_UNINTERPRETED:
                rs = d.range()
                if rs.kind() == z3.Z3_SEQ_SORT or (rs.kind() == z3.Z3_ARRAY_SORT and rs.range().kind() == z3.Z3_SEQ_SORT):
                    out.add(d.name())
            stack.extend(x.children())
    return frozenset(out)


class ObligationResult:
    __slots__ = ('label', 'status', 'model', 'time', 'backend', 'path', 'detail', 'size')

    def __init__(self, label, status, model=None, t=0.0, backend='z3', path=None, detail='', size=0):
        self.label = label
        self.status = status      # 'unsat' (discharged) | 'sat' (refuted) | 'unknown'
        self.model = model
        self.time = t
        self.backend = backend
        self.path = path
        self.detail = detail
        self.size = size


class Ctx:
    cross_done = 0          # cross-solver re-checks done in this worker process (thorough tier budget: PYVC_CROSS)

    def __init__(self, decisions=(), inputs=None, new_path=False):
        if new_path:
            ops.reset_path_state()
        self.decisions = list(decisions)
        self.pos = 0
        self.trace = []                 # decisions actually taken on this run
        self.pc = []
        self.last_solver = None
        self.last_complete = True
        self.forks = []                 # new decision prefixes to explore
        self.results = []               # ObligationResult
        self.counter = 0
        self.inputs = inputs if inputs is not None else {}    # name -> value, for model read-back
        self.pure = 0
        self.solver_time = 0.0
        self.queries = 0
        self.notes = []
        self.skolems = {}
        self.links = []                 # companion-length links (bytes term, Int length, symbols of the bytes term)
        self.instances = {}             # skolem name -> extra instantiation terms for callee postconditions
        self.assumptions_used = set()
        self.lib_used = set()
        self.axioms = []                # background facts instantiated so far (also in pc)

    # ---- symbols
    def fresh(self, name, sort):
        self.counter += 1
        return z3.Const('%s!%d' % (name, self.counter), sort)

    def fresh_int(self, name, cls=None, lo=None, hi=None):
        t = self.fresh(name, IntSort)
        if lo is not None:
            self.assume(t >= lo)
        if hi is not None:
            self.assume(t <= hi)
        if lo is not None and hi is not None:
            ops.declare_bounds(t, lo, hi)
        return Sym(t, 'int', cls)

    def fresh_kind(self, name, kind):
        t = self.fresh(name, kind.sort())
        return t

    # ---- path condition
    def assume(self, t):
        if isinstance(t, bool):
            if not t:
                raise PathEnd()
            return
        if isinstance(t, Sym):
            t = t.t
        if self.pure:
            raise NeedFork()
        t = z3.simplify(t)
        if z3.is_true(t):
            return
        if z3.is_false(t):
            raise PathEnd()
        self.pc.append(t)
        self._learn_bounds(t)

    def _learn_bounds(self, t):
        """x <= c, x >= c, not(x <= c), ... with x an Int constant symbol: refine the interval used by the bit encodings"""
        neg = False
        if z3.is_not(t):
            neg = True
            t = t.children()[0]
        if z3.is_and(t) and not neg:
            for c in t.children():
                self._learn_bounds(c)
            return
        if not z3.is_app(t) or len(t.children()) != 2:
            return
        k = t.decl().kind()
        a, b = t.children()
        if z3.is_int_value(a) and not z3.is_int_value(b):
            a, b = b, a
            k = {z3.Z3_OP_LE: z3.Z3_OP_GE, z3.Z3_OP_GE: z3.Z3_OP_LE, z3.Z3_OP_LT: z3.Z3_OP_GT, z3.Z3_OP_GT: z3.Z3_OP_LT}.get(k, k)
        if not (z3.is_int_value(b) and z3.is_const(a) and a.sort() == IntSort and a.decl().kind() == z3.Z3_OP_UNINTERPRETED):
            return
        c = b.as_long()
        if neg:
            k = {z3.Z3_OP_LE: z3.Z3_OP_GT, z3.Z3_OP_GE: z3.Z3_OP_LT, z3.Z3_OP_LT: z3.Z3_OP_GE, z3.Z3_OP_GT: z3.Z3_OP_LE}.get(k)
        if k == z3.Z3_OP_LE:
            ops.refine_bounds(a, hi=c)
        elif k == z3.Z3_OP_LT:
            ops.refine_bounds(a, hi=c - 1)
        elif k == z3.Z3_OP_GE:
            ops.refine_bounds(a, lo=c)
        elif k == z3.Z3_OP_GT:
            ops.refine_bounds(a, lo=c + 1)
        elif k == z3.Z3_OP_EQ and not neg:
            ops.refine_bounds(a, lo=c, hi=c)

    def drain_facts(self):
        """instantiated axioms produced inside ops (no ctx there) join the path condition"""
        while ops.XOR8_FACTS:
            t, f = ops.XOR8_FACTS.pop()
            self.pc.append(f)
        while ops.LINKS:
            t, n = ops.LINKS.pop()
            self.links.append((t, n, content_symbols(t)))
            self.pc.append(n >= 0)

    def active_links(self, extra):
        """Length(t) = n for every companion-length term t whose CONTENT is constrained somewhere in the path
        condition or the query; the others are dropped (their content is arbitrary: only the length matters).
        Occurrences as a direct argument of a length-agnostic uninterpreted function (ops.LENGTH_AGNOSTIC) do not count."""
        allsyms = set()
        for c in self.pc:
            allsyms |= structural_symbols(c)
        for e in extra:
            allsyms |= structural_symbols(e)
        out = []
        for t, n, sy in self.links:
            if sy & allsyms:
                out.append(z3.Length(t) == n)
        return out

    def _relevant(self, extra):
        """cone of influence: the conjuncts of the path condition that share (transitively) an uninterpreted
        symbol with the query.  Dropping the others is sound for validity; a `sat` answer is re-confirmed
        against the full path condition by the caller."""
        want = set()
        for e in extra:
            want |= term_symbols(e)
        links = self.active_links(extra)
        if not want:
            return list(self.pc) + links, True
        items = [(c, term_symbols(c)) for c in self.pc + links]
        chosen = [False] * len(items)
        changed = True
        while changed:
            changed = False
            for i, (c, sy) in enumerate(items):
                if not chosen[i] and (sy & want):
                    chosen[i] = True
                    want |= sy
                    changed = True
                elif not chosen[i] and not sy:
                    chosen[i] = True       # closed formulas (e.g. literal false) always stay
        sel = [c for (c, _), ch in zip(items, chosen) if ch]
        return sel, len(sel) == len(items)

    def _check(self, extra, rlimit, full=False, timeout_ms=None):
        self.drain_facts()
        self.queries += 1
        t0 = time.time()
        if full:
            sel, complete = list(self.pc) + self.active_links(extra), True
        else:
            sel, complete = self._relevant(extra)
        s = z3.Solver()
        tmo = timeout_ms or TIMEOUT_MS
        s.set('timeout', tmo)
        s.set('rlimit', rlimit)
        for c in sel:
            s.add(c)
        # hard wall-clock stop: some theory loops ignore the soft timeout
        import threading
        wd = threading.Timer(tmo / 1000.0 + 5, lambda: s.ctx.interrupt())
        wd.daemon = True
        wd.start()
        try:
            r = s.check(extra)
        except z3.Z3Exception:
            r = z3.unknown
        finally:
            wd.cancel()
        self.last_solver = s
        self.last_complete = complete
        dt = time.time() - t0
        self.solver_time += dt
        if dt > 2.0 and os.environ.get('PYVC_SLOW'):
            print('SLOW %.1fs %s nconj=%d extra=%s' % (dt, r, len(sel), str(extra)[:300]), flush=True)
        return r

    def feasible(self, t):
        # a feasibility answer of `unknown` is as good as `sat` here (the path is explored): keep these cheap, since a
        # `sat` answer may require the solver to build very long byte strings
        r = self._check([t], FEAS_RLIMIT, timeout_ms=FEAS_TIMEOUT_MS)
        return r != z3.unsat

    def branch(self, cond):
        """fork on a boolean value; returns the python bool taken on this path"""
        if isinstance(cond, bool):
            return cond
        c = ops.concretize(cond) if isinstance(cond, Sym) else cond
        if isinstance(c, bool):
            return c
        t = c.t
        if self.pure:
            raise NeedFork()
        if self.pos < len(self.decisions):
            d = self.decisions[self.pos]
            self.pos += 1
            self.trace.append(d)
            self.assume(t if d else z3.Not(t))
            return bool(d)
        ft = self.feasible(t)
        ff = self.feasible(z3.Not(t))
        if ft and ff:
            self.forks.append(self.trace + [0])
            d = 1
        elif ft:
            d = 1
        elif ff:
            d = 0
        else:
            raise PathEnd()       # the path condition itself is unsatisfiable
        self.pos += 1
        self.trace.append(d)
        self.decisions.append(d)
        self.assume(t if d else z3.Not(t))
        return bool(d)

    def choose(self, n):
        """non-deterministic choice among n alternatives (all explored)"""
        self.n_nondet = getattr(self, 'n_nondet', 0) + 1
        if self.pure:
            raise NeedFork()
        if self.pos < len(self.decisions):
            d = self.decisions[self.pos]
            self.pos += 1
            self.trace.append(d)
            return d
        for k in range(1, n):
            self.forks.append(self.trace + [k])
        self.pos += 1
        self.trace.append(0)
        self.decisions.append(0)
        return 0

    # ---- exceptions of the interpreted program
    def raise_exc(self, name, msg='', clsinfo=None):
        if self.pure:
            raise NeedFork()
        if name == 'Unsupported':
            raise Unsupported(msg)
        raise PyExc(name, clsinfo, (), msg)

    def raise_if(self, cond, name, msg=''):
        if cond is False:
            return
        if self.pure:
            if cond is True:
                raise NeedFork()
            raise NeedFork()
        if self.branch(cond):
            self.raise_exc(name, msg)

    # ---- obligations
    def oblige(self, label, goal, detail=''):
        """prove goal under the path condition; record the verdict; then assume it"""
        if self.pure:
            raise NeedFork()
        if isinstance(goal, Sym):
            goal = goal.t
        if isinstance(goal, bool):
            goal = z3.BoolVal(goal)
        g = z3.simplify(goal)
        goal_raw = goal
        t0 = time.time()
        if z3.is_true(g):
            self.results.append(ObligationResult(label, 'unsat', None, 0.0, 'simplify', list(self.trace), detail, 1))
            return
        # length pre-check: a positive equality between byte strings implies equal lengths, so a model of
        # pc /\ not(g with those equalities replaced by length equalities) refutes g - without building long sequences
        r = None
        neg = z3.Not(g)
        if getattr(self, 'cvc5_first', None):
            import re as _re
            if any(_re.search(rx, label) for rx in self.cvc5_first):
                # clauses known to be hard for z3's sequence solver and quick for cvc5 (declared by the contract): ask cvc5 first
                if self._cvc5_fallback(g) == 'unsat':
                    self.results.append(ObligationResult(label, 'unsat', None, time.time() - t0, 'cvc5', list(self.trace), detail, len(g.sexpr())))
                    self.assume(g)
                    return
        glen = len_weaken(goal_raw)
        if glen is not None:
            r0 = self._check([z3.Not(glen)], RLIMIT)
            if r0 == z3.sat:
                r = z3.sat
                neg = z3.Not(glen)
                detail = (detail + ' [refuted through lengths]').strip()
        if r is None:
            r = self._check([neg], RLIMIT)
        if r == z3.sat and not self.last_complete:
            # confirm the refutation against the whole path condition
            r2 = self._check([neg], RLIMIT, full=True)
            if r2 == z3.unsat:
                r = z3.unsat
            elif r2 == z3.sat:
                r = z3.sat
            else:
                self._check([neg], RLIMIT)      # keep the sliced model
                detail = (detail + ' [counter-model of the relevant part of the path condition]').strip()
        dt = time.time() - t0
        size = len(g.sexpr())
        if dt > 5.0 and os.environ.get('PYVC_SLOW'):
            print('SLOW-OBLIGATION %.1fs %s %s path=%s' % (dt, r, label, self.trace), flush=True)
        if r == z3.unsat:
            backend = 'z3'
            budget = int(os.environ.get('PYVC_CROSS', '0') or 0)
            if budget and Ctx.cross_done < budget:
                # thorough tier: the same query (sliced path condition + negated goal) is handed to cvc5 as an independent check
                Ctx.cross_done += 1
                from . import solve
                sel, _c = self._relevant([neg])
                res = solve.cvc5_check(sel, neg, timeout_s=15)
                if res == 'unsat':
                    backend = 'z3+cvc5-agree'
                elif res == 'sat':
                    self.results.append(ObligationResult(label, 'unknown', None, time.time() - t0, 'z3-vs-cvc5', list(self.trace),
                                                         detail + ' reason=cvc5 answers sat where z3 answers unsat (cross-solver disagreement)', size))
                    self.assume(g)
                    return
                else:
                    backend = 'z3 (cvc5: no answer)'
            self.results.append(ObligationResult(label, 'unsat', None, dt, backend, list(self.trace), detail, size))
            self.assume(g)
        elif r == z3.sat:
            try:
                m = self.last_solver.model()
            except z3.Z3Exception:
                # the confirming re-run timed out after a `sat` answer: no counter-model to show -> undecided, never a violation
                self.results.append(ObligationResult(label, 'unknown', None, time.time() - t0, 'z3', list(self.trace),
                                                     detail + ' reason=sat answer could not be re-confirmed (no model)', size))
                self.assume(g)
                return
            dbg = os.environ.get('PYVC_GOAL')
            if dbg:
                import re as _re
                if _re.search(dbg, label):
                    print('GOAL %s\n%s\nPC:' % (label, g), flush=True)
                    for c in self._relevant([neg])[0]:
                        print('   ', str(c)[:600])
            self.results.append(ObligationResult(label, 'sat', self.read_model(m), dt, 'z3', list(self.trace), detail, size))
            # keep going on this path under the assumption, so that one defect yields one report per clause
            try:
                self.assume(g)
            except PathEnd:
                raise
        else:
            res = self._cvc5_fallback(g)
            if res == 'unsat':
                self.results.append(ObligationResult(label, 'unsat', None, time.time() - t0, 'cvc5', list(self.trace), detail, size))
                self.assume(g)
            else:
                self.results.append(ObligationResult(label, 'unknown', None, time.time() - t0, 'z3+cvc5', list(self.trace),
                                                     detail + ' reason=' + str(self.last_solver.reason_unknown()), size))
                self.assume(g)

    def _cvc5_fallback(self, g):
        from . import solve
        sel, _ = self._relevant([z3.Not(g)])
        return solve.cvc5_check(sel, z3.Not(g))

    def read_model(self, m):
        out = {}
        for name, v in self.inputs.items():
            try:
                out[name] = model_value(m, v)
            except Exception as e:     # model read-back is best effort
                out[name] = '<%s>' % e
        return out


def model_value(m, v, depth=0):
    if depth > 6:
        return '...'
    if isinstance(v, Sym):
        r = m.eval(v.t, model_completion=True)
        if v.ty == 'int' and z3.is_int_value(r):
            return r.as_long()
        if v.ty == 'bool':
            return z3.is_true(r)
        if v.ty == 'real' and z3.is_rational_value(r):
            return '%d/%d' % (r.numerator_as_long(), r.denominator_as_long()) if r.denominator_as_long() != 1 else r.numerator_as_long()
        if v.ty == 'bytes':
            lt = ops.LEN_TERM.get(v.t.get_id())
            if lt is not None:
                n = m.eval(lt, model_completion=True)
                got = seq_model_bytes(m, r)
                if z3.is_int_value(n) and isinstance(got, dict) and 'bytes' in got and len(got['bytes']) // 2 != n.as_long():
                    # content unconstrained on this path: any content of that length will do
                    nn = n.as_long()
                    return {'bytes': '00' * nn} if nn <= 200000 else {'bytes_len': nn}
                return got
            return seq_model_bytes(m, r)
        if v.ty == 'str' and z3.is_string_value(r):
            return r.as_string()
        return str(r)
    if isinstance(v, BitSet):
        bits = 0
        for j in range(0, 300):
            if z3.is_true(m.eval(v.fn(z3.IntVal(j)), model_completion=True)):
                bits |= (1 << j)
        return {'bitset': bits}
    if isinstance(v, Obj):
        return {'class': v.cls.name if v.cls else '?', 'attrs': {k: model_value(m, x, depth + 1) for k, x in v.attrs.items()
                                                                  if not isinstance(x, (FuncVal, Bound, Closure, Builtin))}}
    if isinstance(v, PyList):
        return [model_value(m, x, depth + 1) for x in v.items]
    if isinstance(v, tuple):
        return [model_value(m, x, depth + 1) for x in v]
    if isinstance(v, PyDict):
        return {'dict': [[model_value(m, k, depth + 1), model_value(m, x, depth + 1)] for k, x in zip(v.keys, v.vals)]}
    if isinstance(v, SymSeq):
        n = m.eval(v.n, model_completion=True)
        nn = n.as_long() if z3.is_int_value(n) else 0
        items = [model_value(m, Sym(z3.Select(v.arr, z3.IntVal(i)), v.elem.ty if v.elem.ty in ('int', 'bool', 'real', 'bytes', 'str') else 'int'), depth + 1)
                 for i in range(min(nn, 24))]
        return {'list_len': nn, 'items': items}
    if isinstance(v, SymMap):
        return {'symmap': str(m.eval(v.dom, model_completion=True))[:400], 'val': str(m.eval(v.val, model_completion=True))[:400]}
    if isinstance(v, (int, bool, str, type(None))):
        return v
    if isinstance(v, bytes):
        return {'bytes': v.hex()}
    return repr(v)


def seq_model_bytes(m, r):
    try:
        n = m.eval(z3.Length(r), model_completion=True).as_long()
        if n > 4096:
            return {'bytes_len': n}
        out = bytearray()
        for i in range(n):
            b = m.eval(r[i], model_completion=True)
            out.append(b.as_long() if z3.is_bv_value(b) else 0)
        return {'bytes': bytes(out).hex()}
    except Exception:
        return str(r)[:200]
