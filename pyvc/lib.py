"""Builtins, containers and assumed library contracts (struct, os, time, io, ...).
Everything in this file that is not plain Python semantics is an *assumed contract on a dependency*;
each use is recorded in ctx.lib_used and printed in the evidence."""
import ast
import struct as _struct
import z3
from fractions import Fraction
from .values import *
from . import ops
from .ctx import PyExc, PathEnd

EXC_NAMES = ['Exception', 'BaseException', 'ValueError', 'TypeError', 'KeyError', 'IndexError', 'LookupError',
             'AttributeError', 'NameError', 'UnboundLocalError', 'ZeroDivisionError', 'ArithmeticError',
             'OverflowError', 'RuntimeError', 'NotImplementedError', 'StopIteration', 'OSError',
             'ConnectionResetError', 'ConnectionError', 'AssertionError', 'UnicodeDecodeError', 'UnicodeError',
             'ImportError', 'ModuleNotFoundError', 'RecursionError', 'MemoryError', 'RunTimeError_']

TYPE_NAMES = ['int', 'bool', 'float', 'str', 'bytes', 'bytearray', 'list', 'dict', 'set', 'tuple', 'object', 'type',
              'frozenset']


def used(ip, what):
    ip.ctx.lib_used.add(what)


# ------------------------------------------------------------------------------------------ builtins

def builtin(name):
    if name in EXC_NAMES or name in TYPE_NAMES:
        return BuiltinType.get(name)
    if name in _BUILTINS:
        return _BUILTINS[name]
    return None


def b_len(ip, v):
    return length(ip, v)


def length(ip, v):
    if isinstance(v, (bytes, str, tuple)):
        return len(v)
    if isinstance(v, Sym) and v.ty in ('bytes', 'str'):
        if v.ty == 'bytes':
            return ops.bytes_len(v)
        if not z3.is_seq(v.t):
            hk = ip.hooks.get('str.len')
            if hk is None:
                raise Unsupported('len() of an opaque string')
            return hk(ip, v)
        return ops.mk(z3.Length(v.t), 'int')
    if isinstance(v, PyList):
        return len(v.items)
    if isinstance(v, PyDict):
        return len(v.keys)
    if isinstance(v, PySet):
        return len(v.items)
    if isinstance(v, SymSeq):
        return ops.concretize(ops.mk(v.n, 'int'))
    if isinstance(v, SymMap):
        if v.size is None:
            raise Unsupported('len() of a symbolic dict without a size ghost')
        return ops.mk(v.size, 'int')
    if isinstance(v, (Obj, SymObj)) and v.cls is not None:
        m = v.cls.find_method('__len__')
        if m is not None:
            return ip.call(Bound(v, FuncVal(m)), [], {})
    if v is None or isinstance(v, (int, Fraction)) or (isinstance(v, Sym) and v.ty in ('int', 'bool', 'real')):
        ip.ctx.raise_exc('TypeError', 'object has no len()')
    raise Unsupported('len of %r' % (v,))


def type_name_of(ip, v):
    """python type name for builtin values, ClassInfo for repo instances"""
    if isinstance(v, (Obj, SymObj)):
        return v.cls
    if isinstance(v, Sym) and v.cls is not None:
        return v.cls
    t = ops.pytype(v)
    return {'int': 'int', 'bool': 'bool', 'real': 'float', 'bytes': 'bytes', 'str': 'str', 'none': 'NoneType',
            'tuple': 'tuple', 'list': 'list', 'dict': 'dict', 'set': 'set', 'bitset': 'int'}.get(t, t)


def isinstance_(ip, v, t):
    if hasattr(v, 'pv_isinstance'):
        r = v.pv_isinstance(ip, t)
        if r is not NotImplemented:
            return r
    if isinstance(t, tuple):
        r = False
        for x in t:
            r = ops.or_(r, isinstance_(ip, v, x))
        return r
    tn = type_name_of(ip, v)
    if isinstance(t, ClassVal):
        from .loader import ClassInfo
        if isinstance(tn, ClassInfo):
            return tn.is_subclass_of(t.info)
        if isinstance(v, ClassVal):
            # isinstance(cls, MetaClass)
            return metaclass_of(v.info) == t.info.name
        return False
    if isinstance(t, BuiltinType):
        from .loader import ClassInfo
        if isinstance(v, ClassVal):
            return t.name in ('type', 'object')
        if isinstance(v, BuiltinType):
            return t.name in ('type', 'object')
        if t.name == 'object':
            return True
        if isinstance(tn, ClassInfo):
            return tn.is_subclass_of(t.name)
        if t.name == 'int':
            return tn in ('int', 'bool')
        if t.name == 'bytes':
            return tn == 'bytes' and not isinstance(v, bytearray)
        if t.name == 'type':
            return False
        return tn == t.name
    if isinstance(t, Opaque):
        return abc_isinstance(ip, v, t)
    raise Unsupported('isinstance against %r' % (t,))


def abc_isinstance(ip, v, t):
    n = t.name.split('.')[-1]
    ty = ops.pytype(v)
    if n in ('Iterable',):
        return ty in ('list', 'tuple', 'set', 'dict', 'str', 'bytes')
    if n in ('Sequence',):
        return ty in ('list', 'tuple', 'str', 'bytes')
    if n in ('Mapping',):
        return ty == 'dict'
    raise Unsupported('isinstance against external %s' % t.name)


def metaclass_of(info):
    for c in info.mro():
        for kw in c.node.keywords:
            if kw.arg == 'metaclass':
                return ast.unparse(kw.value)
    return 'type'


def b_isinstance(ip, v, t):
    return isinstance_(ip, v, t)


def b_int(ip, v=0, base=None):
    if base is not None:
        raise Unsupported('int(x, base)')
    return to_int(ip, v)


def to_int(ip, v):
    if isinstance(v, bool):
        return int(v)
    if isinstance(v, int):
        return v
    if isinstance(v, Fraction):
        return int(v)
    if isinstance(v, Sym):
        if v.ty == 'int':
            return ops.concretize(Sym(v.t, 'int'))
        if v.ty == 'bool':
            return Sym(ops.term(v, 'int'), 'int')
        if v.ty == 'real':
            # truncation toward zero
            used(ip, 'int(float): floats are reals, int() truncates toward zero')
            t = v.t
            return Sym(z3.If(t >= 0, z3.ToInt(t), -z3.ToInt(-t)), 'int')
        if v.ty == 'str':
            t = z3.simplify(v.t) if z3.is_seq(v.t) else v.t
            if z3.is_app(t) and t.decl().name() == 'py_str_of_int':
                used(ip, 'int(str(k)) = k for python ints (decimal text of an int parses back to it)')
                return ops.concretize(Sym(t.children()[0], 'int'))
            if not z3.is_seq(v.t):
                raise Unsupported('int(str) of an opaque string')
            used(ip, 'int(s) of an arbitrary string: ValueError or some int (uninterpreted)')
            if ip.ctx.choose(2) == 1:
                ip.ctx.raise_exc('ValueError', 'invalid literal for int()')
            return Sym(PY_INT_OF_STR(v.t), 'int')
    if isinstance(v, str):
        try:
            return int(v)
        except ValueError:
            ip.ctx.raise_exc('ValueError', 'invalid literal for int()')
    if isinstance(v, BitSet):
        return v
    if v is None or isinstance(v, (PyList, PyDict, tuple)):
        ip.ctx.raise_exc('TypeError', 'int() argument')
    if isinstance(v, (Obj, SymObj)) and v.cls is not None:
        m = v.cls.find_method('__int__')
        if m is not None:
            return ip.call(Bound(v, FuncVal(m)), [], {})
        ip.ctx.raise_exc('TypeError', 'int() argument must be a number')
    raise Unsupported('int(%r)' % (v,))


def b_abs(ip, v):
    if isinstance(v, (int, Fraction)):
        return abs(v)
    if isinstance(v, Sym) and v.ty in ('int', 'real'):
        return Sym(z3.If(v.t >= 0, v.t, -v.t), v.ty)
    if v is None or ops.pytype(v) in ('str', 'bytes', 'list', 'dict', 'tuple', 'set', 'obj'):
        ip.ctx.raise_exc('TypeError', 'bad operand type for abs()')
    raise Unsupported('abs')


def _minmax(ip, is_min, args):
    if len(args) == 1:
        args = ip.iter_concrete(args[0])
    if not args:
        ip.ctx.raise_exc('ValueError', 'empty sequence')
    cur = args[0]
    for x in args[1:]:
        c = ops.compare('Lt', x, cur, ip.ctx) if is_min else ops.compare('Gt', x, cur, ip.ctx)
        if isinstance(c, bool):
            cur = x if c else cur
        else:
            cur = ops.ite(c, x, cur)
    return cur


def b_min(ip, *args):
    return _minmax(ip, True, list(args))


def b_max(ip, *args):
    return _minmax(ip, False, list(args))


def b_bool(ip, v=False):
    return ip.truth(v)


def b_print(ip, *a, **k):
    return None


def b_range(ip, *args):
    for a in args:
        if ops.pytype(a) not in ('int', 'bool'):
            if a is None or ops.pytype(a) in ('bytes', 'str', 'real', 'list', 'dict', 'set', 'tuple', 'none'):
                ip.ctx.raise_exc('TypeError', "'%s' object cannot be interpreted as an integer" % ops.pytype(a))
            raise Unsupported('range() of %r' % (a,))
    cs = [ops.const_int(a) for a in args]
    if all(c is not None for c in cs):
        r = RangeList(list(range(*cs)))
        r.rng = range(*cs)
        return r
    if len(args) == 1:
        return SymRange(0, args[0])
    if len(args) == 2:
        return SymRange(args[0], args[1])
    raise Unsupported('symbolic range with step')


class RangeList(PyList):
    """the list of a concrete range(): membership of a symbolic int is decided arithmetically, not by enumeration"""
    rng = None


class SymRange:
    def __init__(self, lo, hi):
        self.lo = lo
        self.hi = hi


class Enumerate:
    def __init__(self, inner, start=0):
        self.inner = inner
        self.start = start


def b_enumerate(ip, it, start=0):
    items = iter_concrete(ip, it)
    if items is not None:
        return PyList([(start + i, x) for i, x in enumerate(items)])
    return Enumerate(it, start)


def b_zip(ip, *its):
    lists = [ip.iter_concrete(i) for i in its]
    return PyList([tuple(t) for t in zip(*lists)])


def b_list(ip, it=None):
    if it is None:
        return PyList()
    if hasattr(it, 'pv_list'):
        return it.pv_list(ip)
    if isinstance(it, SymMap):
        return symmap_keys(ip, it)
    if isinstance(it, SymSeq):
        return it.copy()
    if isinstance(it, DictView):
        return dictview_list(ip, it)
    return PyList(ip.iter_concrete(it))


def b_tuple(ip, it=None):
    if it is None:
        return ()
    return tuple(ip.iter_concrete(it))


def b_sorted(ip, it, key=None, reverse=False):
    if key is not None:
        raise Unsupported('sorted(key=)')
    if isinstance(it, DictView) and isinstance(it.d, SymMap):
        used(ip, 'sorted(): returns some permutation (the order is not used by any contract)')
        return dictview_list(ip, it)
    if isinstance(it, SymSeq):
        used(ip, 'sorted(): returns some permutation (the order is not used by any contract)')
        return sorted_symseq(ip, it)
    items = ip.iter_concrete(it)
    if all(ops.is_concrete(x) and not isinstance(x, (Obj, PyList)) for x in items):
        try:
            return PyList(sorted(items, reverse=bool(reverse)))
        except TypeError:
            ip.ctx.raise_exc('TypeError', 'unorderable')
    if len(items) <= 1:
        return PyList(items)
    raise Unsupported('sorted over symbolic items')


TRI = None


def tri_kind():
    """elements None / False / True as -1 / 0 / 1"""
    global TRI
    if TRI is None:
        def wrap(ip, t):
            t = z3.simplify(t)
            if ip.ctx.branch(ops.sbool(t == -1)):
                return None
            return ops.sbool(t == 1)

        def unwrap(ip, v):
            if v is None:
                return z3.IntVal(-1)
            tr = ip.truth(v)
            if isinstance(tr, bool):
                return z3.IntVal(1 if tr else 0)
            return z3.If(tr.t, z3.IntVal(1), z3.IntVal(0))
        TRI = Kind('custom', None, (IntSort, wrap, unwrap))
    return TRI


def repeat_list(ip, item, n):
    """[x] * n for a symbolic n"""
    nt = ops.term(n, 'int')
    ip.state.events.append(('alloc', (ops.concretize(Sym(z3.If(nt > 0, nt, z3.IntVal(0)), 'int')),), {}))     # ghost: size of the allocation
    if item is None:
        s = SymSeq(z3.K(IntSort, z3.IntVal(-1)), z3.If(nt > 0, nt, z3.IntVal(0)), tri_kind())
        if 'nonecount' in MEASURES:
            s.meas['nonecount'] = s.n
        return s
    raise Unsupported('[x] * symbolic for x = %r' % (item,))


def b_all(ip, it):
    if isinstance(it, SymSeq):
        j = z3.Int('j!all')
        if it.elem.ty == 'custom' and it.elem is tri_kind():
            return ops.sbool(z3.ForAll([j], z3.Implies(z3.And(j >= 0, j < it.n), z3.Select(it.arr, j) == 1)))
        if it.elem.ty == 'custom' and getattr(it.elem, 'truthy', None) is not None:
            return ops.sbool(z3.ForAll([j], z3.Implies(z3.And(j >= 0, j < it.n), it.elem.truthy(z3.Select(it.arr, j)))))
        raise Unsupported('all() over a symbolic list of %r' % (it.elem,))
    r = True
    for x in ip.iter_concrete(it):
        r = ops.and_(r, ip.truth(x))
    return r


def b_any(ip, it):
    if isinstance(it, SymSeq):
        j = z3.Int('j!any')
        if it.elem.ty == 'custom' and it.elem is tri_kind():
            return ops.sbool(z3.Exists([j], z3.And(j >= 0, j < it.n, z3.Select(it.arr, j) == 1)))
        if it.elem.ty == 'custom' and getattr(it.elem, 'truthy', None) is not None:
            return ops.sbool(z3.Exists([j], z3.And(j >= 0, j < it.n, it.elem.truthy(z3.Select(it.arr, j)))))
        raise Unsupported('any() over a symbolic list of %r' % (it.elem,))
    r = False
    for x in ip.iter_concrete(it):
        r = ops.or_(r, ip.truth(x))
    return r


def b_set(ip, it=None):
    if it is None:
        return PySet()
    if hasattr(it, 'pv_set'):
        return it.pv_set(ip)
    return make_set(ip, ip.iter_concrete(it))


def make_set(ip, items):
    s = PySet()
    for x in items:
        set_add(ip, s, x)
    return s


def set_add(ip, s, x):
    for y in s.items:
        if ip.ctx.branch(ip.truth(ip.compare('Eq', y, x))):
            return
    s.items.append(x)


def b_dict(ip, it=None, **kw):
    d = PyDict()
    if it is not None:
        if isinstance(it, PyDict):
            d.keys = list(it.keys)
            d.vals = list(it.vals)
        else:
            for kv in ip.iter_concrete(it):
                k, v = ip.iter_concrete(kv)
                setitem(ip, d, k, v)
    for k, v in kw.items():
        setitem(ip, d, k, v)
    return d


def b_type(ip, v):
    if hasattr(v, 'pv_type'):
        return v.pv_type(ip)
    tn = type_name_of(ip, v)
    from .loader import ClassInfo
    if isinstance(tn, ClassInfo):
        return ClassVal(tn)
    if isinstance(v, ClassVal):
        return BuiltinType.get(metaclass_of(v.info))
    if isinstance(v, BuiltinType):
        return BuiltinType.get('type')
    return BuiltinType.get(tn)


def b_hasattr(ip, v, name):
    try:
        ip.getattr(v, name)
        return True
    except PyExc as e:
        if 'AttributeError' in e.ancestors():
            return False
        raise


def b_getattr(ip, v, name, *default):
    if not isinstance(name, str):
        if hasattr(v, 'pv_getattr_sym'):
            return v.pv_getattr_sym(ip, name, default)
        raise Unsupported('getattr with a symbolic name')
    try:
        return ip.getattr(v, name)
    except PyExc as e:
        if default and 'AttributeError' in e.ancestors():
            return default[0]
        raise


def b_setattr(ip, v, name, value):
    if not isinstance(name, str):
        raise Unsupported('setattr with a symbolic name')
    ip.setattr(v, name, value)


def b_callable(ip, v):
    if isinstance(v, (FuncVal, Bound, Closure, Builtin, Opaque, ClassVal, BuiltinType)):
        return True
    if isinstance(v, (Obj, SymObj)) and v.cls is not None:
        return v.cls.find_method('__call__') is not None
    return False


PY_STR_OF_INT = z3.Function('py_str_of_int', IntSort, StrSort)
PY_INT_OF_STR = z3.Function('py_int_of_str', StrSort, IntSort)


def b_str(ip, v=''):
    if isinstance(v, Sym) and v.ty == 'int' and v.cls is None:
        return Sym(PY_STR_OF_INT(v.t), 'str')          # the decimal text of the int (uninterpreted; int() inverts it)
    if isinstance(v, str):
        return v
    if isinstance(v, Sym) and v.ty == 'str':
        return v            # str(s) of a string is the string itself
    if isinstance(v, int) and not isinstance(v, bool):
        return str(v)
    return OPAQUE_STR


def b_repr(ip, v):
    return OPAQUE_STR


BA2BYTES = {}


def ba2bytes_fn(arr_sort):
    k = str(arr_sort)
    if k not in BA2BYTES:
        BA2BYTES[k] = z3.Function('ba2bytes', arr_sort, IntSort, BytesSort)
    return BA2BYTES[k]


def b_bytes(ip, v=b'', *a):
    if isinstance(v, (bytes, bytearray)):
        return bytes(v)
    if isinstance(v, SymSeq) and v.tag == 'bytearray':
        # bytes(bytearray): a bytes value of the same length whose j-th byte is the j-th element
        # (the element-wise link is applied by S.byte_at / getitem on the result: see ops.ba_source)
        t = ba2bytes_fn(v.arr.sort())(v.arr, v.n)
        ops.set_len_term(t, v.n)
        return Sym(t, 'bytes')
    if isinstance(v, Sym) and v.ty == 'bytes':
        return Sym(v.t, 'bytes')
    if isinstance(v, PyList):
        cs = [ops.const_int(x) for x in v.items]
        if all(c is not None for c in cs):
            return bytes(cs)
        ts = [z3.Unit(z3.Int2BV(ops.term(x, 'int'), 8)) for x in v.items]
        return Sym(ops.mk_concat(ts), 'bytes')
    c = ops.const_int(v)
    if c is not None and not a:
        if c < 0:
            ip.ctx.raise_exc('ValueError', 'negative count')
        ip.state.events.append(('alloc', (c,), {}))
        return bytes(c)
    if isinstance(v, Sym) and v.ty == 'int' and not a:
        # bytes(n): n zero bytes - an allocation of n bytes (ghost event, see C14), ValueError for a negative n
        if ip.ctx.branch(ops.sbool(v.t < 0)):
            ip.ctx.raise_exc('ValueError', 'negative count')
        ip.state.events.append(('alloc', (Sym(v.t, 'int'),), {}))
        t = ip.ctx.fresh('zero_bytes', BytesSort)
        ops.set_len_term(t, v.t)
        return Sym(t, 'bytes')
    if v is None and not a:
        ip.ctx.raise_exc('TypeError', "cannot convert 'NoneType' object to bytes")
    raise Unsupported('bytes(%r)' % (v,))


def b_bytearray(ip, v=b''):
    """bytearray: a symbolic list of ints 0..255 (array + length), tagged"""
    b = b_bytes(ip, v)
    t = ops.term(b)
    j = z3.Int('j!ba')
    n = ops.bytes_len(b) if not isinstance(b, bytes) else len(b)
    arr = z3.Lambda([j], z3.BV2Int(t[j]))
    return SymSeq(arr, ops.term(n, 'int'), Kind('int'), None, 'bytearray')


class ByteArray:
    def __init__(self, val):
        self.val = val


def _float_of_int_term(ip, t):
    """float(k) for a python int k: exact up to 2**53 in magnitude, beyond that the nearest double (relative error <= 2**-53)"""
    used(ip, 'float(int): exact for |k| <= 2**53, otherwise some real within relative error 2**-53 (binary64 rounding)')
    r = ip.ctx.fresh('float_of_int', z3.RealSort())
    tr = z3.ToReal(t)
    big = 2 ** 53
    a = z3.If(tr >= 0, tr, -tr)
    ip.ctx.assume(z3.If(a <= big, r == tr, z3.And(r - tr <= a / big, tr - r <= a / big)))
    return Sym(r, 'real')


def b_float(ip, v=0):
    if isinstance(v, bool):
        return Fraction(int(v))
    if isinstance(v, int):
        return Fraction(v) if abs(v) <= 2 ** 53 else Fraction(float(v))
    if isinstance(v, Fraction):
        return v
    if isinstance(v, Sym) and v.ty in ('real', 'bool'):
        return Sym(ops.term(v, 'real'), 'real')
    if isinstance(v, Sym) and v.ty == 'int':
        return _float_of_int_term(ip, v.t)
    if isinstance(v, str):
        try:
            return Fraction(float(v))
        except (ValueError, OverflowError):
            ip.ctx.raise_exc('ValueError', 'could not convert string to float')
    if isinstance(v, Sym) and v.ty == 'str':
        t = z3.simplify(v.t) if z3.is_seq(v.t) else v.t
        if z3.is_app(t) and t.decl().name() == 'py_str_of_int':
            used(ip, 'float(str(k)) = float(k) for python ints (decimal text of an int parses to the nearest double)')
            return _float_of_int_term(ip, t.children()[0])
        used(ip, 'float(s) of an arbitrary string: ValueError or some real (unconstrained)')
        if ip.ctx.choose(2) == 1:
            ip.ctx.raise_exc('ValueError', 'could not convert string to float')
        return Sym(ip.ctx.fresh('float_of_str', z3.RealSort()), 'real')
    if v is None or isinstance(v, (PyList, PyDict, PySet, tuple, bytes)):
        ip.ctx.raise_exc('TypeError', 'float() argument must be a string or a real number')
    raise Unsupported('float()')


def b_hex(ip, v):
    return OPAQUE_STR


def b_id(ip, v):
    raise Unsupported('id()')


def b_hash(ip, v):
    raise Unsupported('hash()')


def b_dir(ip, v):
    if hasattr(v, 'pv_dir'):
        return v.pv_dir(ip)
    hk = ip.hooks.get('dir')
    if hk is not None:
        return hk(ip, v)
    raise Unsupported('dir() needs a reflection model')


def b_issubclass(ip, a, b):
    if isinstance(a, ClassVal) and isinstance(b, ClassVal):
        return a.info.is_subclass_of(b.info)
    raise Unsupported('issubclass')


def b_iter(ip, v):
    raise Unsupported('iter()')


def b_sum(ip, it, start=0):
    r = start
    for x in ip.iter_concrete(it):
        r = ip.binop('Add', r, x)
    return r


def b_round(ip, v, n=None):
    raise Unsupported('round()')


def b_divmod(ip, a, b):
    return (ip.binop('FloorDiv', a, b), ip.binop('Mod', a, b))


_BUILTINS = {}
for _n, _f in list(globals().items()):
    if _n.startswith('b_'):
        _BUILTINS[_n[2:]] = Builtin(_n[2:], _f)


# ------------------------------------------------------------------------------------------ iteration

def iter_concrete(ip, v):
    if isinstance(v, PyList):
        return list(v.items)
    if isinstance(v, tuple):
        return list(v)
    if isinstance(v, PyDict):
        return list(v.keys)
    if isinstance(v, PySet):
        return list(v.items)
    if isinstance(v, (bytes, str)):
        return list(v)
    if isinstance(v, DictView) and isinstance(v.d, PyDict):
        if v.kind == 'keys':
            return list(v.d.keys)
        if v.kind == 'values':
            return list(v.d.vals)
        return [(k, x) for k, x in zip(v.d.keys, v.d.vals)]
    if isinstance(v, ByteArray) and isinstance(v.val, bytes):
        return list(v.val)
    return None


# ------------------------------------------------------------------------------------------ containers

class Measure:
    def __init__(self, name, sort, weight, nonneg=True, prefix=None):
        self.name = name
        self.sort = sort
        self.weight = weight        # fn(ip, element value) -> z3 term
        self.nonneg = nonneg
        self.prefix = prefix        # optional z3 function F(arr, i): the measure of the first i elements (spec function);
                                    # the ghost measure of a list equals F(arr, n); unfolded at every append

    def link(self, ctx, seq):
        """representation invariant of a freshly introduced symbolic list: meas = F(arr, n), F(arr, 0) = zero"""
        if self.prefix is not None and self.name in seq.meas:
            ctx.assume(seq.meas[self.name] == self.prefix(seq.arr, seq.n))
            ctx.assume(self.prefix(seq.arr, z3.IntVal(0)) == self.zero())

    def zero(self):
        return z3.IntVal(0) if self.sort == IntSort else z3.Empty(BytesSort)

    def combine(self, a, b):
        return a + b if self.sort == IntSort else ops.mk_concat([a, b])


MEASURES = {}


def define_measure(name, sort, weight, nonneg=True, prefix=None):
    MEASURES[name] = Measure(name, sort, weight, nonneg, prefix)


def meas_append(ip, lst, x, new_arr=None):
    for name in list(lst.meas):
        m = MEASURES[name]
        w = m.weight(ip, x)
        lst.meas[name] = z3.simplify(m.combine(lst.meas[name], w))
        if m.prefix is not None and new_arr is not None:
            # frame and unfolding of the prefix function at the appended position (instantiated, no quantifier)
            n = lst.n
            ip.ctx.assume(m.prefix(new_arr, n) == m.prefix(lst.arr, n))
            ip.ctx.assume(m.prefix(new_arr, n + 1) == m.combine(m.prefix(new_arr, n), w))
            ip.ctx.assume(m.prefix(new_arr, z3.IntVal(0)) == m.zero())


def meas_remove(ip, lst, el):
    for name in list(lst.meas):
        m = MEASURES[name]
        if m.sort == IntSort:
            lst.meas[name] = z3.simplify(lst.meas[name] - m.weight(ip, el))
        else:
            del lst.meas[name]


class DictView:
    def __init__(self, d, kind):
        self.d = d
        self.kind = kind


def find_key(ip, d, k):
    """index of key k in a PyDict (forking on symbolic equalities) or -1"""
    for i, ki in enumerate(d.keys):
        e = ip.compare('Eq', ki, k) if not (ops.is_concrete(ki) and ops.is_concrete(k) and not isinstance(ki, Obj) and not isinstance(k, Obj)) else ops.equal(ki, k)
        if ip.ctx.branch(ip.truth(e)):
            return i
    return -1


def contains(ip, container, item):
    if hasattr(container, 'pv_contains'):
        return container.pv_contains(ip, item)
    if isinstance(container, RangeList) and container.rng is not None and len(container.items) == len(container.rng) \
            and isinstance(item, Sym) and item.ty == 'int':
        r = container.rng
        if len(r) == 0:
            return False
        t = item.t
        lo, hi = (r.start, r.stop) if r.step > 0 else (r.stop + 1, r.start + 1)
        g = z3.And(t >= lo, t < hi)
        if abs(r.step) != 1:
            g = z3.And(g, (t - r.start) % abs(r.step) == 0)
        return ops.sbool(g)
    if isinstance(container, SymRange) and ops.pytype(item) in ('int', 'bool'):
        t = ops.term(item, 'int')
        return ops.sbool(z3.And(t >= ops.term(container.lo, 'int'), t < ops.term(container.hi, 'int')))
    if isinstance(container, (PyList, tuple, PySet)):
        items = container.items if not isinstance(container, tuple) else container
        r = False
        for x in items:
            r = ops.or_(r, True if x is item else ip.truth(ip.compare('Eq', x, item)))
        return r
    if isinstance(container, PyDict):
        r = False
        for k in container.keys:
            r = ops.or_(r, ip.truth(ip.compare('Eq', k, item)))
        return r
    if isinstance(container, DictView) and container.kind == 'keys':
        return contains(ip, container.d, item)
    if isinstance(container, SymMap):
        kk = container.kkind
        if hasattr(item, 'pv_key'):
            g = item.pv_key(kk)
            if g is None:
                return False
            guard, kt = g
            return ops.and_(ops.sbool(guard) if not isinstance(guard, bool) else guard, ops.sbool(z3.Select(container.dom, kt)))
        if not key_compatible(item, kk):
            return False
        return ops.sbool(z3.Select(container.dom, ip.unwrap(item, kk)))
    if isinstance(container, SymSeq):
        if not key_compatible(item, container.elem):
            return False
        j = z3.Int('j!in')
        x = ip.unwrap(item, container.elem)
        return ops.sbool(z3.Exists([j], z3.And(j >= 0, j < container.n, z3.Select(container.arr, j) == x)))
    if isinstance(container, (str, bytes)) and isinstance(item, (str, bytes)) and type(container) == type(item):
        return item in container
    if isinstance(container, str) and isinstance(item, Sym) and item.ty == 'str':
        return ops.sbool(z3.Contains(z3.StringVal(container), item.t))
    if isinstance(container, Sym) and container.ty == 'str':
        return ops.sbool(z3.Contains(container.t, ops.term(item)))
    if isinstance(container, (Obj, SymObj)) and container.cls is not None:
        m = container.cls.find_method('__contains__')
        if m is not None:
            return ip.truth(ip.call(Bound(container, FuncVal(m)), [item], {}))
    hk = ip.hooks.get('contains')
    if hk is not None:
        r = hk(ip, container, item)
        if r is not NotImplemented:
            return r
    raise Unsupported('membership test in %r' % (container,))


def key_compatible(item, kind):
    if hasattr(item, 'pv_key'):
        return item.pv_key(kind) is not None
    t = ops.pytype(item)
    if kind.ty == 'int':
        return t in ('int', 'bool')
    if kind.ty == 'obj':
        return isinstance(item, SymObj)
    if kind.ty in ('bytes', 'str', 'real', 'bool'):
        return t == kind.ty
    if kind.ty == 'pair':
        return isinstance(item, tuple) and len(item) == len(kind.inner) and all(key_compatible(x, k) for x, k in zip(item, kind.inner))
    return False


def getitem(ip, v, k):
    ctx = ip.ctx
    if hasattr(v, 'pv_getitem'):
        return v.pv_getitem(ip, k)
    if isinstance(v, PyList):
        if isinstance(k, slice):
            a = ops.const_int(k.start) if k.start is not None else None
            b = ops.const_int(k.stop) if k.stop is not None else None
            st = ops.const_int(k.step) if k.step is not None else None
            if (k.start is not None and a is None) or (k.stop is not None and b is None) or (k.step is not None and st is None):
                raise Unsupported('symbolic slice of a concrete list')
            if st == 0:
                ctx.raise_exc('ValueError', 'slice step cannot be zero')
            return PyList(v.items[a:b:st])
        c = ops.const_int(k)
        if c is None:
            if ops.pytype(k) not in ('int', 'bool'):
                ctx.raise_exc('TypeError', 'list indices must be integers')
            # symbolic index into a concrete list: fork over positions
            n = len(v.items)
            kt = ops.term(k, 'int')
            for i in range(n):
                if ctx.branch(ops.sbool(z3.Or(kt == i, kt == i - n))):
                    return v.items[i]
            ctx.raise_exc('IndexError', 'list index out of range')
        try:
            return v.items[c]
        except IndexError:
            ctx.raise_exc('IndexError', 'list index out of range')
    if isinstance(v, PyDict):
        i = find_key(ip, v, k)
        if i < 0:
            ctx.raise_exc('KeyError', 'key')
        return v.vals[i]
    if isinstance(v, SymMap):
        if not key_compatible(k, v.kkind):
            ctx.raise_exc('KeyError', 'key')
        kt = ip.unwrap(k, v.kkind)
        ctx.raise_if(ops.sbool(z3.Not(z3.Select(v.dom, kt))), 'KeyError')
        return symmap_value(ip, v, kt)
    if isinstance(v, SymSeq):
        if isinstance(k, slice):
            return symseq_slice(ip, v, k)
        n = v.n
        if ops.pytype(k) not in ('int', 'bool'):
            ctx.raise_exc('TypeError', 'list indices must be integers')
        i = ops.norm_index(ops.term(k, 'int'), n, ctx)
        ctx.raise_if(ops.sbool(z3.Or(i < 0, i >= n)), 'IndexError')
        el = ip.wrap(z3.Select(v.arr, i), v.elem)
        if v.tag == 'bytearray' and isinstance(el, Sym):
            el = Sym(z3.simplify(el.t), 'int')
            if ops._bv_arg(el.t) is None:
                ip.ctx.assume(z3.And(el.t >= 0, el.t <= 255))
                ops.declare_bounds(el.t, 0, 255)
        if v.facts is not None:
            v.facts.on_read(ip, v, i, el)
        return el
    if isinstance(v, ByteArray):
        r = ops.getitem(v.val, k, ctx)
        return r
    if isinstance(v, (Obj, SymObj)) and v.cls is not None:
        m = v.cls.find_method('__getitem__')
        if m is not None:
            return ip.call(Bound(v, FuncVal(m)), [k], {})
    if v is None:
        ctx.raise_exc('TypeError', "'NoneType' object is not subscriptable")
    if isinstance(v, TypingGeneric):
        args = k if isinstance(k, tuple) else (k,)
        return GenericAlias(BuiltinType.get(v.origin), tuple(args))
    if isinstance(v, BuiltinType) or isinstance(v, Opaque):
        return v      # other generics in annotations
    if isinstance(v, (int, Fraction)) or (isinstance(v, Sym) and v.ty in ('int', 'bool', 'real')):
        ctx.raise_exc('TypeError', 'object is not subscriptable')
    return ops.getitem(v, k, ctx)


def symmap_value(ip, m, kt):
    val = ip.wrap(z3.Select(m.val, kt), m.vkind)
    return val


def setitem(ip, v, k, val):
    ctx = ip.ctx
    if hasattr(v, 'pv_setitem'):
        return v.pv_setitem(ip, k, val)
    if isinstance(v, PyList):
        c = ops.const_int(k)
        if c is None:
            n = len(v.items)
            kt = ops.term(k, 'int')
            for i in range(n):
                if ctx.branch(ops.sbool(z3.Or(kt == i, kt == i - n))):
                    v.items[i] = val
                    return
            ctx.raise_exc('IndexError', 'list assignment index out of range')
        try:
            v.items[c] = val
        except IndexError:
            ctx.raise_exc('IndexError', 'list assignment index out of range')
        return
    if isinstance(v, PyDict):
        i = find_key(ip, v, k)
        if i < 0:
            v.keys.append(k)
            v.vals.append(val)
        else:
            v.vals[i] = val
        return
    if isinstance(v, SymMap):
        if not key_compatible(k, v.kkind):
            raise Unsupported('key of another type stored into a symbolic dict')
        kt = ip.unwrap(k, v.kkind)
        if v.size is not None:
            v.size = z3.If(z3.Select(v.dom, kt), v.size, v.size + 1)
        v.dom = z3.Store(v.dom, kt, z3.BoolVal(True))
        v.val = z3.Store(v.val, kt, ip.unwrap(val, v.vkind))
        return
    if isinstance(v, SymSeq):
        n = v.n
        i = ops.norm_index(ops.term(k, 'int'), n, ctx)
        ctx.raise_if(ops.sbool(z3.Or(i < 0, i >= n)), 'IndexError')
        if v.tag == 'bytearray':
            xt = ops.term(val, 'int')
            ctx.raise_if(ops.sbool(z3.Or(xt < 0, xt > 255)), 'ValueError', 'byte must be in range(0, 256)')
        if v.meas:
            meas_remove(ip, v, ip.wrap(z3.Select(v.arr, i), v.elem))
            meas_append(ip, v, val)
        v.arr = z3.Store(v.arr, i, ip.unwrap(val, v.elem))
        return
    if isinstance(v, ByteArray):
        cur = v.val
        t = ops.term(cur)
        n = z3.Length(t)
        i = ops.norm_index(ops.term(k, 'int'), n, ctx)
        ctx.raise_if(ops.sbool(z3.Or(i < 0, i >= n)), 'IndexError')
        xt = ops.term(val, 'int')
        ctx.raise_if(ops.sbool(z3.Or(xt < 0, xt > 255)), 'ValueError')
        bv = ops._bv_arg(xt)
        unit = z3.Unit(bv if bv is not None and bv.size() == 8 else z3.Int2BV(xt, 8))
        v.val = Sym(z3.Concat(z3.SubSeq(t, z3.IntVal(0), i), unit, z3.SubSeq(t, i + 1, n - i - 1)), 'bytes')
        return
    if isinstance(v, (Obj, SymObj)) and v.cls is not None:
        m = v.cls.find_method('__setitem__')
        if m is not None:
            ip.call(Bound(v, FuncVal(m)), [k, val], {})
            return
    if v is None:
        ctx.raise_exc('TypeError', "'NoneType' object does not support item assignment")
    raise Unsupported('setitem on %r' % (v,))


def delitem(ip, v, k):
    ctx = ip.ctx
    if isinstance(v, PyDict):
        i = find_key(ip, v, k)
        if i < 0:
            ctx.raise_exc('KeyError', 'key')
        del v.keys[i]
        del v.vals[i]
        return
    if isinstance(v, SymMap):
        if not key_compatible(k, v.kkind):
            ctx.raise_exc('KeyError', 'key')
        kt = ip.unwrap(k, v.kkind)
        ctx.raise_if(ops.sbool(z3.Not(z3.Select(v.dom, kt))), 'KeyError')
        if v.size is not None:
            v.size = v.size - 1
        v.dom = z3.Store(v.dom, kt, z3.BoolVal(False))
        return
    if isinstance(v, PyList):
        c = ops.const_int(k)
        if c is None:
            raise Unsupported('del list[symbolic]')
        try:
            del v.items[c]
        except IndexError:
            ctx.raise_exc('IndexError', 'list index out of range')
        return
    raise Unsupported('delitem on %r' % (v,))


def list_extend(ip, lst, other):
    if isinstance(lst, PyList):
        lst.items.extend(ip.iter_concrete(other))
        return
    if isinstance(lst, SymSeq):
        if isinstance(other, SymSeq):
            j = z3.Int('j!ext')
            a1, n1, a2 = lst.arr, lst.n, other.arr
            lst.arr = z3.Lambda([j], z3.If(j < n1, z3.Select(a1, j), z3.Select(a2, j - n1)))
            lst.n = n1 + other.n
            return
        items = ip.iter_concrete(other)
        for x in items:
            m_list_append(ip, lst, x)
        return
    raise Unsupported('extend')


def symseq_slice(ip, v, k):
    if k.step is not None:
        raise Unsupported('slice step')
    n = v.n
    lo, hi = ops.slice_bounds(k.start, k.stop, n)
    lo_t = z3.IntVal(0) if lo is None else (z3.IntVal(lo) if isinstance(lo, int) else lo)
    hi_t = n if hi is None else (z3.IntVal(hi) if isinstance(hi, int) else hi)
    lo_c = z3.If(lo_t > n, n, lo_t)
    hi_c = z3.If(hi_t > n, n, hi_t)
    m = z3.If(hi_c > lo_c, hi_c - lo_c, z3.IntVal(0))
    j = z3.Int('j!sl')
    a0 = v.arr
    return SymSeq(z3.Lambda([j], z3.Select(a0, j + lo_c)), z3.simplify(m), v.elem)


# enumeration facts for list(dict): instantiated pointwise, no quantifier reaches the solver
class EnumFacts:
    """K = list(d): K enumerates dom(d) without repetition.
    witness(s) gives the index j_s with  s in dom <=> 0<=j_s<len(K) and K[j_s]=s ;
    every read K[i] instantiates  dom(K[i])  and  K[i]=s => i=j_s  for the witnesses asked so far."""
    def __init__(self, dom, kkind, arr, n, key_inv=None):
        self.dom = dom
        self.kkind = kkind
        self.arr = arr
        self.n = n
        self.witnesses = []      # (key term, index term)
        self.reads = []
        self.indices = []        # Skolem positions registered by add_index
        self.key_inv = key_inv

    def add_index(self, ip, j):
        """instantiate the enumeration contract at an arbitrary position j: K[j] is a key (for 0<=j<n), distinct positions
        hold distinct keys (instantiated against every later read)"""
        n = self.n
        inr = z3.And(j >= 0, j < n)
        kj = z3.Select(self.arr, j)
        ip.ctx.assume(z3.Implies(inr, z3.Select(self.dom, kj)))
        if self.key_inv is not None:
            ip.ctx.assume(z3.Implies(inr, self.key_inv(kj)))
        for i in self.reads:
            ip.ctx.assume(z3.Implies(z3.And(inr, z3.Select(self.arr, i) == kj), i == j))
        for k, jw in self.witnesses:
            ip.ctx.assume(z3.Implies(z3.And(inr, kj == k), j == jw))
        self.indices.append(j)

    def witness(self, ip, key_t):
        for k, j in self.witnesses:
            if k.eq(key_t):
                return j
        if self.key_inv is not None:
            ip.ctx.assume(z3.Implies(z3.Select(self.dom, key_t), self.key_inv(key_t)))
        j = ip.ctx.fresh('j_wit', IntSort)
        n = self.n
        ip.ctx.assume(z3.Select(self.dom, key_t) == z3.And(j >= 0, j < n, z3.Select(self.arr, j) == key_t))
        self.witnesses.append((key_t, j))
        for i in self.reads:
            ip.ctx.assume(z3.Implies(z3.Select(self.arr, i) == key_t, i == j))
        return j

    def on_read(self, ip, seq, i, el):
        self.reads.append(i)
        ki = z3.Select(self.arr, i)
        ip.ctx.assume(z3.Select(self.dom, ki))
        if self.key_inv is not None:
            ip.ctx.assume(self.key_inv(ki))
        for k, j in self.witnesses:
            ip.ctx.assume(z3.Implies(ki == k, i == j))
        for j in self.indices:
            ip.ctx.assume(z3.Implies(z3.And(j >= 0, j < self.n, ki == z3.Select(self.arr, j)), i == j))


def symmap_keys(ip, m):
    used(ip, 'list(dict)/dict iteration: enumerates exactly the keys, each once (pointwise-instantiated contract)')
    arr = ip.ctx.fresh('keys', z3.ArraySort(IntSort, m.kkind.sort()))
    n = ip.ctx.fresh('nkeys', IntSort)
    if m.size is not None:
        ip.ctx.assume(n == m.size)
    ip.ctx.assume(n >= 0)
    return SymSeq(arr, n, m.kkind, EnumFacts(m.dom, m.kkind, arr, n, m.key_inv))


class ItemFacts:
    """K = list(d.items()): pairs (k, d[k]) for exactly the keys, each once (pointwise-instantiated contract)"""
    def __init__(self, m_dom, m_val, kfacts, arr, pk):
        self.dom, self.val, self.kfacts, self.arr, self.pk = m_dom, m_val, kfacts, arr, pk

    def on_read(self, ip, seq, i, el):
        ts, mk_, (a0, a1) = self.pk
        p = z3.Select(self.arr, i)
        ip.ctx.assume(a0(p) == z3.Select(self.kfacts.arr, i))
        self.kfacts.on_read(ip, None, i, None)
        ip.ctx.assume(a1(p) == z3.Select(self.val, a0(p)))

    def witness(self, ip, key_t):
        return self.kfacts.witness(ip, key_t)


def symmap_items(ip, m):
    keys = symmap_keys(ip, m)
    pk = pair_sort(m.kkind.sort(), m.vkind.sort())
    arr = ip.ctx.fresh('items', z3.ArraySort(IntSort, pk[0]))
    kind = Kind('pair', None, (m.kkind, m.vkind))
    return SymSeq(arr, keys.n, kind, ItemFacts(m.dom, m.val, keys.facts, arr, pk))


class ValueFacts:
    """V = list(d.values()): V[i] = d[K[i]] for an enumeration K of exactly the keys, each once (pointwise-instantiated contract)"""
    def __init__(self, m_val, kfacts, arr):
        self.val, self.kfacts, self.arr = m_val, kfacts, arr

    def on_read(self, ip, seq, i, el):
        self.kfacts.on_read(ip, None, i, None)
        ip.ctx.assume(z3.Select(self.arr, i) == z3.Select(self.val, z3.Select(self.kfacts.arr, i)))

    def witness(self, ip, key_t):
        j = self.kfacts.witness(ip, key_t)
        ip.ctx.assume(z3.Implies(z3.And(j >= 0, j < self.kfacts.n), z3.Select(self.arr, j) == z3.Select(self.val, key_t)))
        return j

    def key_at(self, i):
        return z3.Select(self.kfacts.arr, i)


def symmap_values(ip, m):
    keys = symmap_keys(ip, m)
    arr = ip.ctx.fresh('values', z3.ArraySort(IntSort, m.vkind.sort()))
    return SymSeq(arr, keys.n, m.vkind, ValueFacts(m.val, keys.facts, arr))


def dictview_list(ip, view):
    d = view.d
    if isinstance(d, PyDict):
        return PyList(iter_concrete(ip, view))
    if view.kind == 'keys':
        return symmap_keys(ip, d)
    if view.kind == 'items':
        return symmap_items(ip, d)
    if view.kind == 'values' and isinstance(d, SymMap):
        return symmap_values(ip, d)
    hk = ip.hooks.get('dictview_list')
    if hk is not None:
        return hk(ip, view)
    raise Unsupported('list(symbolic dict .%s())' % view.kind)


def sorted_symseq(ip, s):
    if s.facts is not None:
        return s.copy()          # an enumeration in some order stays an enumeration in some order
    arr = ip.ctx.fresh('sorted', s.arr.sort())
    return SymSeq(arr, s.n, s.elem, None)


# ------------------------------------------------------------------------------------------ methods of builtin values

def value_attr(ip, v, name):
    t = ops.pytype(v)
    table = {'list': LIST_METHODS, 'dict': DICT_METHODS, 'bytes': BYTES_METHODS, 'str': STR_METHODS,
             'set': SET_METHODS, 'int': INT_METHODS, 'bool': INT_METHODS, 'real': FLOAT_METHODS, 'tuple': TUPLE_METHODS}.get(t)
    if isinstance(v, SymSeq) and v.tag == 'bytearray':
        table = BYTEARRAY_METHODS
    if isinstance(v, (Closure, FuncVal)):
        attrs = v.attrs if isinstance(v, Closure) else getattr(v.info, 'fn_attrs', {})
        if name in attrs:
            return attrs[name]
        if name == '__name__':
            return v.name if isinstance(v, Closure) else v.info.name
        return None
    if isinstance(v, Bound):
        return value_attr(ip, v.func, name)
    if isinstance(v, BuiltinType):
        if name == '__name__':
            return v.name
        if v.name == 'dict' and name == 'fromkeys':
            return None
        return None
    if table is None:
        return None
    f = table.get(name)
    if f is None:
        return None
    return Bound(v, Builtin(t + '.' + name, f))


def m_list_append(ip, lst, x):
    if isinstance(lst, PyList):
        lst.items.append(x)
    else:
        xt = ip.unwrap(x, lst.elem)
        new_arr = z3.Store(lst.arr, lst.n, xt)
        if lst.meas:
            meas_append(ip, lst, ip.wrap(xt, lst.elem) if lst.elem.ty == 'obj' else x, new_arr)
        lst.arr = new_arr
        lst.n = lst.n + 1
    return None


def m_list_pop(ip, lst, idx=-1):
    ctx = ip.ctx
    if isinstance(lst, PyList):
        c = ops.const_int(idx)
        if c is None:
            raise Unsupported('pop(symbolic) on a concrete list')
        try:
            return lst.items.pop(c)
        except IndexError:
            ctx.raise_exc('IndexError', 'pop from empty list / index out of range')
    n = lst.n
    i = ops.norm_index(ops.term(idx, 'int'), n, ctx)
    ctx.raise_if(ops.sbool(z3.Or(i < 0, i >= n)), 'IndexError')
    el = ip.wrap(z3.Select(lst.arr, i), lst.elem)
    old = lst.copy()
    if lst.meas:
        meas_remove(ip, lst, el)
    j = z3.Int('j!pop')
    a0 = lst.arr
    ci = i.as_long() if z3.is_int_value(z3.simplify(i)) else None
    if ci == 0:
        lst.arr = z3.Lambda([j], z3.Select(a0, j + 1))
    else:
        lst.arr = z3.Lambda([j], z3.If(j < i, z3.Select(a0, j), z3.Select(a0, j + 1)))
    lst.n = n - 1
    hk = ip.hooks.get('list.pop')
    if hk is not None:
        hk(ip, lst, old, i, el)
    return el


def m_list_extend(ip, lst, other):
    list_extend(ip, lst, other)


def m_list_insert(ip, lst, i, x):
    if isinstance(lst, PyList):
        c = ops.const_int(i)
        if c is None:
            raise Unsupported('insert(symbolic)')
        lst.items.insert(c, x)
        return None
    # python clamps the position into [0, n] (negative positions count from the end)
    n = lst.n
    it = ops.term(i, 'int')
    pos = z3.If(it < 0, z3.If(n + it < 0, z3.IntVal(0), n + it), z3.If(it > n, n, it))
    xt = ip.unwrap(x, lst.elem)
    j = z3.Int('j!ins')
    a0 = lst.arr
    lst.arr = z3.Lambda([j], z3.If(j < pos, z3.Select(a0, j), z3.If(j == pos, xt, z3.Select(a0, j - 1))))
    lst.n = n + 1
    lst.meas = {}
    return None


def m_list_index(ip, lst, x):
    if isinstance(lst, PyList):
        for i, y in enumerate(lst.items):
            if ip.ctx.branch(ip.truth(ip.compare('Eq', y, x))):
                return i
        ip.ctx.raise_exc('ValueError', 'not in list')
    raise Unsupported('index on symbolic list')


def m_list_copy(ip, lst):
    if isinstance(lst, PyList):
        return PyList(lst.items)
    return lst.copy()


def m_list_clear(ip, lst):
    if isinstance(lst, PyList):
        lst.items = []
    else:
        lst.n = z3.IntVal(0)
        for name in list(lst.meas):
            lst.meas[name] = MEASURES[name].zero()


def m_list_remove(ip, lst, x):
    if isinstance(lst, PyList):
        for i, y in enumerate(lst.items):
            if ip.ctx.branch(ip.truth(ip.compare('Eq', y, x))):
                del lst.items[i]
                return None
        ip.ctx.raise_exc('ValueError', 'not in list')
    raise Unsupported('remove on symbolic list')


LIST_METHODS = {'append': m_list_append, 'pop': m_list_pop, 'extend': m_list_extend, 'insert': m_list_insert,
                'index': m_list_index, 'copy': m_list_copy, 'clear': m_list_clear, 'remove': m_list_remove}
TUPLE_METHODS = {'index': m_list_index}


def m_dict_get(ip, d, k, default=None):
    if isinstance(d, PyDict):
        i = find_key(ip, d, k)
        return d.vals[i] if i >= 0 else default
    if not key_compatible(k, d.kkind):
        return default
    kt = ip.unwrap(k, d.kkind)
    if ip.ctx.branch(ops.sbool(z3.Select(d.dom, kt))):
        return symmap_value(ip, d, kt)
    return default


def m_dict_items(ip, d):
    return DictView(d, 'items')


def m_dict_keys(ip, d):
    return DictView(d, 'keys')


def m_dict_values(ip, d):
    return DictView(d, 'values')


def m_dict_pop(ip, d, k, *default):
    if isinstance(d, PyDict):
        i = find_key(ip, d, k)
        if i < 0:
            if default:
                return default[0]
            ip.ctx.raise_exc('KeyError', 'key')
        v = d.vals[i]
        del d.keys[i]
        del d.vals[i]
        return v
    if not key_compatible(k, d.kkind):
        if default:
            return default[0]
        ip.ctx.raise_exc('KeyError', 'key')
    kt = ip.unwrap(k, d.kkind)
    if ip.ctx.branch(ops.sbool(z3.Select(d.dom, kt))):
        v = symmap_value(ip, d, kt)
        if d.size is not None:
            d.size = d.size - 1
        d.dom = z3.Store(d.dom, kt, z3.BoolVal(False))
        return v
    if default:
        return default[0]
    ip.ctx.raise_exc('KeyError', 'key')


def m_dict_setdefault(ip, d, k, default=None):
    if ip.ctx.branch(ip.truth(contains(ip, d, k))):
        return getitem(ip, d, k)
    setitem(ip, d, k, default)
    return default


def m_dict_update(ip, d, other=None, **kw):
    if other is not None:
        if isinstance(other, PyDict):
            for k, v in zip(list(other.keys), list(other.vals)):
                setitem(ip, d, k, v)
        else:
            for kv in ip.iter_concrete(other):
                k, v = ip.iter_concrete(kv)
                setitem(ip, d, k, v)
    for k, v in kw.items():
        setitem(ip, d, k, v)


def m_dict_clear(ip, d):
    if isinstance(d, PyDict):
        d.keys = []
        d.vals = []
    else:
        d.dom = z3.K(d.kkind.sort(), z3.BoolVal(False))
        if d.size is not None:
            d.size = z3.IntVal(0)


def m_dict_copy(ip, d):
    if isinstance(d, PyDict):
        n = PyDict()
        n.keys = list(d.keys)
        n.vals = list(d.vals)
        return n
    return SymMap(d.dom, d.val, d.kkind, d.vkind, d.size, d.key_inv)


DICT_METHODS = {'get': m_dict_get, 'items': m_dict_items, 'keys': m_dict_keys, 'values': m_dict_values,
                'pop': m_dict_pop, 'setdefault': m_dict_setdefault, 'update': m_dict_update, 'clear': m_dict_clear,
                'copy': m_dict_copy}


def m_set_add(ip, s, x):
    set_add(ip, s, x)


def m_set_update(ip, s, it):
    for x in ip.iter_concrete(it):
        set_add(ip, s, x)


def m_set_discard(ip, s, x):
    for i, y in enumerate(s.items):
        if ip.ctx.branch(ip.truth(ip.compare('Eq', y, x))):
            del s.items[i]
            return


SET_METHODS = {'add': m_set_add, 'update': m_set_update, 'discard': m_set_discard}


def codec_tag(enc, errors='strict'):
    """canonical name of a codec + error mode ('utf-8' / 'strict' give ''): encode and decode are an inverse pair only under
    the SAME tag (utf-8 written, utf-8-sig read is not a round trip)"""
    import codecs
    if not isinstance(enc, str) or not isinstance(errors, str):
        raise Unsupported('codec name that is not a constant string')
    try:
        name = codecs.lookup(enc).name
    except LookupError:
        raise Unsupported('unknown codec %r' % (enc,))
    tag = '' if name == 'utf-8' else '_' + name.replace('-', '_')
    if errors != 'strict':
        tag += '_' + errors
    return tag


def m_bytes_decode(ip, b, enc='utf-8', errors='strict'):
    hk = ip.hooks.get('bytes.decode')
    if hk is not None:
        return hk(ip, b, enc, errors)
    if isinstance(b, bytes):
        try:
            return b.decode(enc)
        except UnicodeDecodeError:
            ip.ctx.raise_exc('UnicodeDecodeError')
    used(ip, 'bytes.decode: uninterpreted injective function utf8dec (may raise UnicodeDecodeError)')
    tag = codec_tag(enc, errors)
    if ip.ctx.choose(2) == 1:
        ip.ctx.raise_exc('UnicodeDecodeError')
    f = z3.Function('utf8dec' + tag, BytesSort, StrSort)
    g = z3.Function('utf8enc' + tag, StrSort, BytesSort)
    r = f(b.t)
    if tag == '':
        ip.ctx.assume(g(r) == b.t)
    return Sym(r, 'str')


def m_str_encode(ip, s, enc='utf-8', errors='strict'):
    hk = ip.hooks.get('str.encode')
    if hk is not None:
        return hk(ip, s, enc, errors)
    if isinstance(s, str):
        return s.encode(enc)
    if isinstance(s, OpaqueStr):
        raise Unsupported('encode of an opaque string')
    used(ip, 'str.encode: uninterpreted injective function utf8enc, utf8dec(utf8enc(s)) = s')
    tag = codec_tag(enc, errors)
    f = z3.Function('utf8dec' + tag, BytesSort, StrSort)
    g = z3.Function('utf8enc' + tag, StrSort, BytesSort)
    r = g(s.t)
    if errors == 'strict':
        ip.ctx.assume(f(r) == s.t)
    return Sym(r, 'bytes')


def m_bytes_join(ip, sep, it):
    if isinstance(it, SymSeq):
        if isinstance(sep, bytes) and sep == b'' and 'concat' in it.meas:
            used(ip, "b''.join(list): the concatenation measure of the list (maintained at every append)")
            if 'bytelen' in it.meas:
                ip.ctx.assume(ops.blen(it.meas['concat']) == it.meas['bytelen'])
            return Sym(it.meas['concat'], 'bytes')
        jk = getattr(it.elem, 'join', None)
        if isinstance(sep, bytes) and sep == b'' and jk is not None:
            # a list whose element kind brings its own join specification (e.g. slots holding None or bytes):
            # TypeError when an element is not bytes, else the concatenation in list order (prefix function, unfolded at the end)
            used(ip, "b''.join(list): TypeError for a non-bytes element, else the concatenation in list order (prefix function unfolded at the last element)")
            fn, is_bytes, as_bytes = jk
            j = z3.Int('j!join')
            if not ip.ctx.branch(ops.sbool(z3.ForAll([j], z3.Implies(z3.And(j >= 0, j < it.n), is_bytes(z3.Select(it.arr, j)))))):
                ip.ctx.raise_exc('TypeError', 'sequence item: expected a bytes-like object')
            t = fn(it.arr, it.n)
            ip.ctx.assume(fn(it.arr, z3.IntVal(0)) == z3.Empty(BytesSort))
            ip.ctx.assume(z3.Implies(it.n >= 1, t == z3.Concat(fn(it.arr, it.n - 1), as_bytes(z3.Select(it.arr, it.n - 1)))))
            ip.ctx.assume(z3.Implies(it.n >= 2, fn(it.arr, it.n - 1) == z3.Concat(fn(it.arr, it.n - 2), as_bytes(z3.Select(it.arr, it.n - 2)))))
            n = ip.ctx.fresh('join_len', IntSort)
            ip.ctx.assume(n >= 0)
            ops.set_len_term(t, n)
            return Sym(t, 'bytes')
        raise Unsupported("join over a symbolic list needs the 'concat' measure")
    items = ip.iter_concrete(it)
    if isinstance(sep, bytes) and len(sep) == 0:
        for x in items:
            if x is None or ops.pytype(x) != 'bytes':
                ip.ctx.raise_exc('TypeError', 'sequence item: expected a bytes-like object')
        if all(isinstance(x, bytes) for x in items):
            return b''.join(items)
        return ops.bytes_concat(items)
    raise Unsupported('join with a separator')


def m_bytes_split(ip, b, sep=None, maxsplit=-1):
    hk = ip.hooks.get('str.split' if ops.pytype(b) == 'str' else 'bytes.split')
    if hk is not None:
        return hk(ip, b, sep, maxsplit)
    if isinstance(b, (bytes, str)) and isinstance(sep, (bytes, str, type(None))):
        return PyList(b.split(sep, maxsplit))
    raise Unsupported('split on symbolic value')


def m_bytes_lstrip(ip, b, chars=None):
    """b.lstrip(chars) for a single literal byte: the suffix b[k:] where k is the number of leading bytes equal to it
    (k = 0 iff b is empty or starts with another byte; what remains is empty or starts with another byte)"""
    if isinstance(b, bytes) and isinstance(chars, (bytes, type(None))):
        return b.lstrip(chars)
    if not (isinstance(b, Sym) and b.ty == 'bytes' and isinstance(chars, bytes) and len(chars) == 1):
        raise Unsupported('bytes.lstrip is modelled for one literal byte only')
    used(ip, 'bytes.lstrip(one byte): the suffix after the k leading occurrences of that byte')
    c = z3.BitVecVal(chars[0], 8)
    n = ops.blen(b.t)
    k = ip.ctx.fresh('lstrip_k', z3.IntSort())
    ip.ctx.assume(z3.And(k >= 0, k <= n))
    ip.ctx.assume((k == 0) == z3.Or(n == 0, b.t[0] != c))
    ip.ctx.assume(z3.Implies(k > 0, b.t[k - 1] == c))
    ip.ctx.assume(z3.Implies(k < n, b.t[k] != c))
    r = ops.getitem(b, slice(Sym(k, 'int'), None), ip.ctx)
    return r


def m_str_rsplit(ip, s, sep=None, maxsplit=-1):
    """s.rsplit(sep, 1) for a non-empty literal separator: [s] when sep does not occur, else [head, tail] with
    s = head + sep + tail and no sep in tail (z3 strings)"""
    if isinstance(s, str) and isinstance(sep, (str, type(None))) and isinstance(maxsplit, int):
        return PyList(s.rsplit(sep, maxsplit))
    if not (isinstance(s, Sym) and s.ty == 'str' and z3.is_seq(s.t) and isinstance(sep, str) and sep and ops.const_int(maxsplit) == 1):
        raise Unsupported('str.rsplit is modelled for a literal separator and maxsplit=1 only')
    used(ip, 'str.rsplit(sep, 1): [s] if sep does not occur, else [head, tail] with s = head+sep+tail and sep not in tail')
    st = z3.StringVal(sep)
    if not ip.ctx.branch(ops.sbool(z3.Contains(s.t, st))):
        return PyList([s])
    h = ip.ctx.fresh('rsplit_head', StrSort)
    t = ip.ctx.fresh('rsplit_tail', StrSort)
    ip.ctx.assume(z3.And(s.t == z3.Concat(h, st, t), z3.Not(z3.Contains(t, st))))
    return PyList([Sym(h, 'str'), Sym(t, 'str')])


def m_str_isdigit(ip, s):
    if isinstance(s, str):
        return s.isdigit()
    t = z3.simplify(s.t) if z3.is_seq(s.t) else s.t
    if z3.is_app(t) and t.decl().name() == 'py_str_of_int':
        used(ip, 'str(k).isdigit() <=> k >= 0 for python ints')
        return ops.sbool(t.children()[0] >= 0)
    used(ip, 's.isdigit() of an arbitrary string: some boolean (uninterpreted)')
    return Sym(ip.ctx.fresh('isdigit', BoolSort), 'bool')


def m_str_startswith(ip, s, p):
    if isinstance(s, str) and isinstance(p, str):
        return s.startswith(p)
    return ops.sbool(z3.PrefixOf(ops.term(p), ops.term(s)))


def m_str_endswith(ip, s, p):
    if isinstance(s, str) and isinstance(p, str):
        return s.endswith(p)
    return ops.sbool(z3.SuffixOf(ops.term(p), ops.term(s)))


def m_str_replace(ip, s, a, b):
    if isinstance(s, (str, bytes)) and isinstance(a, (str, bytes)) and isinstance(b, (str, bytes)):
        return s.replace(a, b)
    hk = ip.hooks.get('str.replace')
    if hk is not None:
        return hk(ip, s, a, b)
    raise Unsupported('replace on symbolic string')


def m_str_upper(ip, s):
    if isinstance(s, str):
        return s.upper()
    hk = ip.hooks.get('str.upper')
    if hk is not None:
        return hk(ip, s)
    raise Unsupported('upper on symbolic string')


def m_str_lower(ip, s):
    if isinstance(s, str):
        return s.lower()
    raise Unsupported('lower on symbolic string')


def m_str_format(ip, s, *a, **k):
    return OPAQUE_STR


def m_str_zfill(ip, s, n):
    return OPAQUE_STR


def _strip_model(kind):
    def f(ip, s, chars=None):
        if isinstance(s, str) and (chars is None or isinstance(chars, str)):
            return {'strip': s.strip, 'rstrip': s.rstrip, 'lstrip': s.lstrip}[kind](chars)
        if isinstance(s, OpaqueStr):
            return OPAQUE_STR
        used(ip, 'str.%s: SOME string obtained by removing a (possibly empty) run of characters at the end(s)' % kind)
        t = ops.term(s)
        if t.sort() != StrSort:
            return Sym(ip.ctx.fresh(kind + 'ped', t.sort()), 'str')      # opaque string sort: some string
        r = ip.ctx.fresh(kind + 'ped', StrSort)
        pre = ip.ctx.fresh('pre', StrSort)
        post = ip.ctx.fresh('post', StrSort)
        ip.ctx.assume(t == z3.Concat(pre, r, post))
        if kind == 'rstrip':
            ip.ctx.assume(pre == z3.StringVal(''))
        if kind == 'lstrip':
            ip.ctx.assume(post == z3.StringVal(''))
        if isinstance(chars, str) and len(chars) == 1:
            c = z3.StringVal(chars)
            ip.ctx.assume(z3.InRe(pre, z3.Star(z3.Re(c))))
            ip.ctx.assume(z3.InRe(post, z3.Star(z3.Re(c))))
            if kind in ('rstrip', 'strip'):
                ip.ctx.assume(z3.Not(z3.SuffixOf(c, r)))
            if kind in ('lstrip', 'strip'):
                ip.ctx.assume(z3.Not(z3.PrefixOf(c, r)))
        return Sym(r, 'str')
    return f


m_str_strip = _strip_model('strip')


def m_bytes_hex(ip, b):
    return OPAQUE_STR


BYTES_METHODS = {'lstrip': m_bytes_lstrip, 'decode': m_bytes_decode, 'join': m_bytes_join, 'split': m_bytes_split, 'startswith': m_str_startswith,
                 'endswith': m_str_endswith, 'replace': m_str_replace, 'hex': m_bytes_hex}
STR_METHODS = {'rsplit': m_str_rsplit, 'isdigit': m_str_isdigit, 'encode': m_str_encode, 'join': None, 'split': m_bytes_split, 'startswith': m_str_startswith,
               'endswith': m_str_endswith, 'replace': m_str_replace, 'upper': m_str_upper, 'lower': m_str_lower,
               'format': m_str_format, 'zfill': m_str_zfill, 'strip': m_str_strip, 'rstrip': _strip_model('rstrip'),
               'lstrip': _strip_model('lstrip')}
STR_METHODS = {k: v for k, v in STR_METHODS.items() if v is not None}


def m_str_join(ip, sep, it):
    items = ip.iter_concrete(it)
    if isinstance(sep, str) and all(isinstance(x, str) for x in items):
        return sep.join(items)
    if any(isinstance(x, OpaqueStr) for x in items):
        return OPAQUE_STR
    ts = []
    for i, x in enumerate(items):
        if i and sep != '':
            ts.append(ops.term(sep))
        ts.append(ops.term(x))
    return Sym(ops.mk_concat(ts, StrSort), 'str')


STR_METHODS['join'] = m_str_join


def m_ba_decode(ip, ba, enc='utf-8', errors='strict'):
    used(ip, 'bytearray.decode: some string (uninterpreted), may raise UnicodeDecodeError')
    if ip.ctx.choose(2) == 1:
        ip.ctx.raise_exc('UnicodeDecodeError')
    f = z3.Function('ba_utf8dec', ba.arr.sort(), IntSort, StrSort)
    return Sym(f(ba.arr, ba.n), 'str')


BYTEARRAY_METHODS = {'decode': m_ba_decode}


def m_int_bit_length(ip, v):
    c = ops.const_int(v)
    if c is not None:
        return c.bit_length()
    raise Unsupported('bit_length symbolic')


def m_int_to_bytes(ip, v, n, order='big', **k):
    raise Unsupported('to_bytes')


INT_METHODS = {'bit_length': m_int_bit_length, 'to_bytes': m_int_to_bytes}
FLOAT_METHODS = {}


# ------------------------------------------------------------------------------------------ builtin type calls

def new_exception(ip, name, args):
    return Obj(None, {'args': tuple(args)}, tag='exc:' + name)


def call_builtin_type(ip, t, args, kwargs):
    n = t.name
    if n in EXC_NAMES or n in ('struct.error',):
        return new_exception(ip, n, args)
    f = _BUILTINS.get(n)
    if f is not None:
        return f.fn(ip, *args, **kwargs)
    if n == 'object':
        return Obj(None)
    raise Unsupported('call of builtin type %s' % n)


def instantiate_builtin_subclass(ip, info, args, kwargs):
    bb = info.builtin_base_names()
    if 'int' in bb:
        v = to_int(ip, args[0] if args else 0)
        return Sym(ops.term(v, 'int'), 'int', info)
    if 'bytes' in bb:
        v = args[0] if args else b''
        return Sym(ops.term(v), 'bytes', info)
    raise Unsupported('instantiating subclass of builtin %s' % bb)


def builtin_super_attr(ip, sp, name, bases):
    recv = sp.recv
    if name == '__init__':
        return Builtin('object.__init__', lambda ip, *a, **k: None)
    if name == '__setattr__' and isinstance(recv, Obj):
        return Builtin('object.__setattr__', lambda ip, n, val: ip.raw_setattr(recv, n, val))
    if name == '__new__':
        def new(ip, cls, *a, **k):
            info = cls.info
            bb = info.builtin_base_names()
            if 'int' in bb:
                v = to_int(ip, a[0] if a else 0)
                return Sym(ops.term(v, 'int'), 'int', info)
            if 'bytes' in bb:
                return Sym(ops.term(a[0] if a else b''), 'bytes', info)
            return Obj(info)
        return Builtin('builtin.__new__', new)
    if 'int' in bases and isinstance(recv, Sym) and recv.ty == 'int':
        plain = Sym(recv.t, 'int')
        opmap = {'__add__': 'Add', '__sub__': 'Sub', '__mul__': 'Mult', '__floordiv__': 'FloorDiv', '__mod__': 'Mod'}
        cmpmap = {'__lt__': 'Lt', '__le__': 'LtE', '__gt__': 'Gt', '__ge__': 'GtE', '__eq__': 'Eq', '__ne__': 'NotEq'}
        if name in opmap:
            def f(ip, other, op=opmap[name]):
                if ops.pytype(other) not in ('int', 'bool', 'real'):
                    ip.ctx.raise_exc('TypeError', 'unsupported operand (NotImplemented)')
                o = Sym(other.t, other.ty) if isinstance(other, Sym) else other
                return ops.binop(op, plain, o, ip.ctx)
            return Builtin('int.' + name, f)
        if name in cmpmap:
            def g(ip, other, op=cmpmap[name]):
                if ops.pytype(other) not in ('int', 'bool', 'real'):
                    ip.ctx.raise_exc('TypeError', 'unsupported operand (NotImplemented)')
                o = Sym(other.t, other.ty) if isinstance(other, Sym) else other
                return ops.compare(op, plain, o, ip.ctx)
            return Builtin('int.' + name, g)
    if name in ('__setitem__', '__getitem__', '__contains__', 'get') and ('dict' in bases or 'OrderedDict' in bases):
        raise Unsupported('dict subclass super().%s' % name)
    raise Unsupported('super().%s with builtin bases %s' % (name, bases))


def object_attr(ip, v, name):
    return None


def class_attr(ip, v, name):
    if name == '__name__':
        return v.info.name
    if name == '__module__':
        return v.info.module.name
    if name == 'mro':
        return Builtin('mro', lambda ip: PyList([ClassVal(c) for c in v.info.mro()]))
    return None


def enter_context(ip, v):
    return v


# ------------------------------------------------------------------------------------------ class post-processing (metaclass models)

def is_serializable_class(info):
    return info.name != 'Serializable' and any(c.name == 'Serializable' and c.module.name == 'serializable' for c in info.mro()[1:])


def eval_annotations(ip, info):
    """cls.__annotations__ : evaluated from the class body, in source order (own class only, as in CPython)"""
    from .interp import Frame
    d = PyDict()
    fr = Frame(None, info.module, info, name='<annotations %s>' % info.name)
    for name, node in info.annotations.items():
        try:
            v = ip.eval(node, fr)
        except (Unsupported, PyExc):
            v = Opaque('annotation:' + ast.unparse(node), {'unsupported': True})
        d.keys.append(name)
        d.vals.append(v)
    return d


def class_postprocess(ip, info):
    if is_serializable_class(info):
        # model of the metaclass SerializableType.__new__ (trusted): _fields, __annotations__, type_id
        fields = []
        for name, vnode in info.attr_nodes:
            val = info.class_attrs.get(name)
            if name.startswith('_') or name == 'type_id' or isinstance(val, (Closure, FuncVal, Builtin)):
                continue
            if name not in fields:
                fields.append(name)
        info.class_attrs['_fields'] = tuple(fields)
        info.class_attrs['__annotations__'] = eval_annotations(ip, info)
        if 'type_id' not in info.class_attrs:
            tid = z3.Int('type_id_' + info.name)
            info.class_attrs['type_id'] = Sym(tid, 'int')
            info.symbolic_type_id = tid
    if info.is_enum():
        if 'type_id' not in info.class_attrs:
            tid = z3.Int('type_id_' + info.name)
            info.class_attrs['type_id'] = Sym(tid, 'int')
            info.symbolic_type_id = tid
        used_names = []
        v2n = PyDict()
        n2v = PyDict()
        # dir(cls) order is alphabetical; only public non-callable class attributes are members
        for name in sorted(info.class_attrs):
            val = info.class_attrs[name]
            if name.startswith('_') or name == 'type_id' or isinstance(val, (Closure, FuncVal, Builtin, Opaque)):
                continue
            if isinstance(val, Obj):
                continue
            # later duplicates of a value overwrite the name, as dict assignment does
            if val in v2n.keys:
                v2n.vals[v2n.keys.index(val)] = name
            else:
                v2n.keys.append(val)
                v2n.vals.append(name)
            n2v.keys.append(name)
            used_names.append((name, val))
        info.class_attrs['_value2name'] = v2n
        info.class_attrs['_name2value'] = n2v
        for name, val in used_names:
            o = Obj(info, {'value': val}, tag=name)
            info.class_attrs[name] = o
            n2v.vals.append(val)
        info.enum_members = used_names


# ------------------------------------------------------------------------------------------ external modules / library models

class _Registry:
    modules = {}         # module name -> {attr: value}
    functions = {}       # repo qualname -> model fn(ip, *args)
    classes = {}         # repo class qualname -> model fn(ip, info, *args)


def lib_module(name):
    def deco(cls):
        d = {}
        for k, v in cls.__dict__.items():
            if k.startswith('__'):
                continue
            if callable(v):
                d[k] = Builtin(name + '.' + k, v)
            else:
                d[k] = v
        _Registry.modules[name] = d
        return cls
    return deco


def repo_function_model(qualname):
    def deco(fn):
        _Registry.functions[qualname] = fn
        return fn
    return deco


def repo_class_model(qualname):
    def deco(fn):
        _Registry.classes[qualname] = fn
        return fn
    return deco


def function_model(qualname):
    return _Registry.functions.get(qualname)


def class_model(qualname):
    return _Registry.classes.get(qualname)


class TypingGeneric:
    def __init__(self, origin):
        self.origin = origin


def typing_get_origin(ip, t):
    if isinstance(t, GenericAlias):
        return t.origin
    return None


def typing_get_args(ip, t):
    if isinstance(t, GenericAlias):
        return t.args
    return ()


_Registry.modules['typing'] = {
    'List': TypingGeneric('list'), 'Dict': TypingGeneric('dict'), 'Set': TypingGeneric('set'), 'Tuple': TypingGeneric('tuple'),
    'get_origin': Builtin('typing.get_origin', typing_get_origin), 'get_args': Builtin('typing.get_args', typing_get_args),
}


def external_module(name):
    return ModuleVal(name)


def external_attr(modname, attr):
    d = _Registry.modules.get(modname)
    if d is not None and attr in d:
        return d[attr]
    return Opaque(modname + '.' + attr)


def module_attr(mv, name):
    d = _Registry.modules.get(mv.name)
    if d is not None and name in d:
        return d[name]
    sub = mv.name + '.' + name
    if sub in _Registry.modules:
        return ModuleVal(sub)
    return Opaque(sub)


def call_symfn(ip, fn, args, kwargs):
    """call of a callable known only by reference: TypeError when it is None; recorded as an event;
    effects (frame, exceptions) come from the hook 'symfn' of the contract under verification"""
    ip.ctx.raise_if(ops.sbool(fn.ref == 0), 'TypeError', "'NoneType' object is not callable")
    ip.state.events.append(('symfn', fn.ref, tuple(args), dict(kwargs)))
    hk = ip.hooks.get('symfn')
    if hk is not None:
        return hk(ip, fn, args, kwargs)
    return None


def call_opaque(ip, fn, args, kwargs):
    hk = ip.hooks.get('opaque:' + fn.name) or ip.hooks.get('opaque')
    if hk is not None:
        r = hk(ip, fn, args, kwargs)
        if r is not NotImplemented:
            return r
    spec = fn.spec
    if spec.get('unsupported', False) or not spec:
        raise Unsupported('call of unmodelled external %s' % fn.name)
    ip.state.events.append((fn.name, tuple(args), dict(kwargs)))
    if spec.get('may_raise'):
        if ip.ctx.choose(2) == 1:
            ip.ctx.raise_exc(spec.get('raises', 'Exception'), 'raised by opaque callee %s' % fn.name)
    eff = spec.get('effect')
    if eff is not None:
        return eff(ip, fn, args, kwargs)
    return spec.get('returns', None)


from . import libspec    # noqa: E402,F401  (registers the library contracts)
