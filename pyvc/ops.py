"""Semantic operations on values: one implementation used by the interpreter (with a ctx that can
fork / raise implicit Python exceptions) and by contract lambdas (spec mode, ctx=None: total)."""
import z3
from fractions import Fraction
from .values import *

# ---- conversions -----------------------------------------------------------------------------

def bytes_lit(b):
    if len(b) == 0:
        return z3.Empty(BytesSort)
    units = [z3.Unit(z3.BitVecVal(x, 8)) for x in b]
    return units[0] if len(units) == 1 else z3.Concat(*units)


def pytype(v):
    if v is None:
        return 'none'
    if isinstance(v, Sym):
        return v.ty
    if isinstance(v, bool):
        return 'bool'
    if isinstance(v, int):
        return 'int'
    if isinstance(v, (float, Fraction)):
        return 'real'
    if isinstance(v, (bytes, bytearray)):
        return 'bytes'
    if isinstance(v, str):
        return 'str'
    if isinstance(v, tuple):
        return 'tuple'
    if isinstance(v, BitSet):
        return 'bitset'
    if isinstance(v, (PyList, SymSeq)):
        return 'list'
    if isinstance(v, (PyDict, SymMap)):
        return 'dict'
    if isinstance(v, PySet):
        return 'set'
    if isinstance(v, (Obj, SymObj)):
        return 'obj'
    if isinstance(v, OpaqueStr):
        return 'str'
    return 'other'


def is_concrete(v):
    return not isinstance(v, (Sym, BitSet, SymSeq, SymMap, SymObj))


def term(v, want=None):
    """z3 term of a scalar value"""
    if isinstance(v, z3.ExprRef):
        if want == 'real' and v.sort() == IntSort:
            return z3.ToReal(v)
        return v
    if isinstance(v, Sym):
        t = v.t
        if want == 'real' and v.ty == 'int':
            return z3.ToReal(t)
        if want == 'real' and v.ty == 'bool':
            return z3.ToReal(z3.If(t, z3.IntVal(1), z3.IntVal(0)))
        if want == 'int' and v.ty == 'bool':
            return z3.If(t, z3.IntVal(1), z3.IntVal(0))
        return t
    if isinstance(v, bool):
        if want == 'int':
            return z3.IntVal(int(v))
        if want == 'real':
            return z3.RealVal(int(v))
        return z3.BoolVal(v)
    if isinstance(v, int):
        if want == 'real':
            return z3.RealVal(v)
        return z3.IntVal(v)
    if isinstance(v, (float, Fraction)):
        f = frac(v)
        return z3.RealVal(str(f))
    if isinstance(v, (bytes, bytearray)):
        return bytes_lit(bytes(v))
    if isinstance(v, str):
        return z3.StringVal(v)
    raise Unsupported('no term for %r' % (v,))


def concretize(v):
    """Sym with a literal term -> Python value"""
    if not isinstance(v, Sym):
        return v
    t = z3.simplify(v.t)
    if v.ty == 'int' and z3.is_int_value(t):
        return Sym(t, 'int', v.cls) if v.cls is not None else t.as_long()
    if v.ty == 'bool':
        if z3.is_true(t):
            return True
        if z3.is_false(t):
            return False
    if v.ty == 'real' and z3.is_rational_value(t):
        return Fraction(t.numerator_as_long(), t.denominator_as_long())
    return Sym(t, v.ty, v.cls)


def const_int(v):
    """python int if v is a concrete int (possibly a class-tagged literal Sym), else None"""
    if isinstance(v, bool):
        return int(v)
    if isinstance(v, int):
        return v
    if isinstance(v, Sym) and v.ty == 'int':
        t = z3.simplify(v.t)
        if z3.is_int_value(t):
            return t.as_long()
    if isinstance(v, Sym) and v.ty == 'bool':
        t = z3.simplify(v.t)
        if z3.is_true(t):
            return 1
        if z3.is_false(t):
            return 0
    return None


def mk(t, ty, cls=None):
    return Sym(t, ty, cls)


def sbool(t):
    if isinstance(t, bool):
        return t
    s = z3.simplify(t)
    if z3.is_true(s):
        return True
    if z3.is_false(s):
        return False
    return Sym(s, 'bool')


def bterm(v):
    """z3 Bool for a python bool / Sym bool"""
    if isinstance(v, bool):
        return z3.BoolVal(v)
    if isinstance(v, Sym) and v.ty == 'bool':
        return v.t
    raise Unsupported('not a boolean: %r' % (v,))


# ---- interval analysis on Int terms (for bit operations between two symbolic ints) ------------

BOUNDS = {}    # z3 ast id -> (lo, hi)  for declared variables


def declare_bounds(t, lo, hi):
    BOUNDS[t.get_id()] = (lo, hi)
    _KEEP.append(t)


def refine_bounds(t, lo=None, hi=None):
    """a bound learnt from the path condition (per path: the registries are reset for every path)"""
    l0, h0 = BOUNDS.get(t.get_id(), (None, None))
    if lo is not None and (l0 is None or lo > l0):
        l0 = lo
    if hi is not None and (h0 is None or hi < h0):
        h0 = hi
    BOUNDS[t.get_id()] = (l0, h0)
    _KEEP.append(t)


def reset_path_state():
    """all registries keyed by z3 ast ids hold facts of ONE path: cleared when a new path starts"""
    BOUNDS.clear()
    KNOWN_LEN.clear()
    LEN_TERM.clear()
    SLICE_INFO.clear()
    PACKED_BYTE.clear()
    del LINKS[:]
    del XOR8_FACTS[:]
    del _KEEP[:]


def bounds(t, depth=0):
    """(lo, hi) with None = unbounded; conservative"""
    if depth > 40:
        return (None, None)
    if z3.is_int_value(t):
        v = t.as_long()
        return (v, v)
    b = BOUNDS.get(t.get_id())
    if b is not None:
        return b
    k = t.decl().kind() if z3.is_app(t) else None
    ch = t.children() if z3.is_app(t) else []
    if k == z3.Z3_OP_ADD:
        lo = hi = 0
        for c in ch:
            l, h = bounds(c, depth + 1)
            lo = None if (lo is None or l is None) else lo + l
            hi = None if (hi is None or h is None) else hi + h
        return (lo, hi)
    if k == z3.Z3_OP_MUL and len(ch) == 2:
        (l1, h1), (l2, h2) = bounds(ch[0], depth + 1), bounds(ch[1], depth + 1)
        if None in (l1, h1, l2, h2):
            return (None, None)
        ps = [l1 * l2, l1 * h2, h1 * l2, h1 * h2]
        return (min(ps), max(ps))
    if k == z3.Z3_OP_MOD and len(ch) == 2 and z3.is_int_value(ch[1]) and ch[1].as_long() > 0:
        return (0, ch[1].as_long() - 1)
    if k == z3.Z3_OP_IDIV and len(ch) == 2 and z3.is_int_value(ch[1]) and ch[1].as_long() > 0:
        l, h = bounds(ch[0], depth + 1)
        d = ch[1].as_long()
        return (None if l is None else l // d, None if h is None else h // d)
    if k == z3.Z3_OP_ITE:
        (l1, h1), (l2, h2) = bounds(ch[1], depth + 1), bounds(ch[2], depth + 1)
        return (None if None in (l1, l2) else min(l1, l2), None if None in (h1, h2) else max(h1, h2))
    if k == z3.Z3_OP_BV2INT or (z3.is_app(t) and t.decl().name() in ('bv2int', 'bv2nat', 'ubv_to_int')):
        w = ch[0].size()
        return (0, 2 ** w - 1)
    return (None, None)


def _nbits_for(t):
    lo, hi = bounds(t)
    if lo is None or hi is None or lo < 0:
        return None
    return max(1, hi.bit_length())


def _bit(t, i):
    return (t / z3.IntVal(2 ** i)) % 2 == 1


def int_and_const(a, m):
    """a & m for a z3 Int a (any sign) and python int m >= 0: exact arithmetic encoding"""
    if m == 0:
        return z3.IntVal(0)
    # split m into maximal runs of ones
    res = []
    i = 0
    nb = m.bit_length()
    while i < nb:
        if (m >> i) & 1:
            j = i
            while j < nb and (m >> j) & 1:
                j += 1
            w = j - i
            part = a if i == 0 else a / z3.IntVal(2 ** i)
            part = part % z3.IntVal(2 ** w)
            res.append(part if i == 0 else part * z3.IntVal(2 ** i))
            i = j
        else:
            i += 1
    return res[0] if len(res) == 1 else z3.Sum(res)


def _bv_arg(t):
    """if t is bv2int(x) return x"""
    if z3.is_app(t) and t.decl().kind() == z3.Z3_OP_BV2INT:
        return t.children()[0]
    if z3.is_app(t) and t.decl().name() in ('bv2int', 'bv2nat', 'ubv_to_int'):
        return t.children()[0]
    return None


XOR8 = z3.Function('xor8', IntSort, IntSort, IntSort)
XOR8_FACTS = []      # (term, fact) instantiated axioms, picked up by the context that created them


def maybe_bits(t, depth=0):
    """over-approximation of the set of bits that can be 1 in a non-negative Int term (python int mask) or None"""
    if depth > 30:
        return None
    if z3.is_int_value(t):
        v = t.as_long()
        return v if v >= 0 else None
    k = t.decl().kind() if z3.is_app(t) else None
    ch = t.children() if z3.is_app(t) else []
    if k == z3.Z3_OP_MUL and len(ch) == 2:
        for x, c in ((ch[0], ch[1]), (ch[1], ch[0])):
            if z3.is_int_value(c):
                cv = c.as_long()
                if cv > 0 and cv & (cv - 1) == 0:
                    m = maybe_bits(x, depth + 1)
                    return None if m is None else m * cv
    if k == z3.Z3_OP_ADD:
        acc = 0
        for c in ch:
            m = maybe_bits(c, depth + 1)
            if m is None or (acc & m):
                acc = None
                break
            acc |= m
        if acc is not None:
            return acc
    if k == z3.Z3_OP_ITE:
        m1, m2 = maybe_bits(ch[1], depth + 1), maybe_bits(ch[2], depth + 1)
        if m1 is not None and m2 is not None:
            return m1 | m2
    if k == z3.Z3_OP_MOD and len(ch) == 2 and z3.is_int_value(ch[1]):
        cv = ch[1].as_long()
        if cv > 0 and cv & (cv - 1) == 0:
            m = maybe_bits(ch[0], depth + 1)
            return (cv - 1) if m is None else (m & (cv - 1))
    if k == z3.Z3_OP_IDIV and len(ch) == 2 and z3.is_int_value(ch[1]):
        cv = ch[1].as_long()
        if cv > 0 and cv & (cv - 1) == 0:
            m = maybe_bits(ch[0], depth + 1)
            if m is not None:
                return m >> (cv.bit_length() - 1)
    lo, hi = bounds(t)
    if lo is not None and hi is not None and lo >= 0:
        return (1 << hi.bit_length()) - 1
    return None


def int_bitop(op, a, b):
    """op in BitAnd/BitOr/BitXor on two z3 Int terms"""
    ca = a.as_long() if z3.is_int_value(a) else None
    cb = b.as_long() if z3.is_int_value(b) else None
    if ca is not None and cb is not None:
        return z3.IntVal({'BitAnd': ca & cb, 'BitOr': ca | cb, 'BitXor': ca ^ cb}[op])
    if op == 'BitXor' and ca is None and cb is None:
        (la, ha), (lb, hb) = bounds(a), bounds(b)
        if None not in (la, ha, lb, hb) and la >= 0 and lb >= 0 and ha <= 255 and hb <= 255:
            # byte XOR between two symbolic bytes: an uninterpreted function with its range and involution law
            # (code and specification share it: the proofs are about WHICH bytes are combined)
            r = XOR8(a, b)
            declare_bounds(r, 0, 255)
            XOR8_FACTS.append((r, z3.And(r >= 0, r <= 255, XOR8(r, b) == a, XOR8(a, b) == XOR8(b, a))))
            return r
    if op in ('BitOr', 'BitXor'):
        ma, mb = maybe_bits(a), maybe_bits(b)
        if ma is not None and mb is not None and (ma & mb) == 0:
            return a + b            # disjoint bit ranges: or = xor = plus
    xa, xb = _bv_arg(a), _bv_arg(b)
    if xa is not None and xb is not None and xa.size() == xb.size():
        r = {'BitAnd': xa & xb, 'BitOr': xa | xb, 'BitXor': xa ^ xb}[op]
        return z3.BV2Int(r)
    if op == 'BitAnd' and (ca is not None or cb is not None):
        m, x = (ca, b) if ca is not None else (cb, a)
        if m >= 0:
            return int_and_const(x, m)
    if op == 'BitOr' and (ca is not None or cb is not None):
        m, x = (ca, b) if ca is not None else (cb, a)
        if m >= 0:
            return x + z3.IntVal(m) - int_and_const(x, m)
    na, nb = _nbits_for(a), _nbits_for(b)
    if na is None or nb is None:
        raise Unsupported('bit operation %s on unbounded symbolic ints' % op)
    n = max(na, nb)
    if n > 64:
        raise Unsupported('bit operation on wide symbolic ints')
    parts = []
    for i in range(n):
        ba, bb = _bit(a, i), _bit(b, i)
        c = {'BitAnd': z3.And(ba, bb), 'BitOr': z3.Or(ba, bb), 'BitXor': z3.Xor(ba, bb)}[op]
        parts.append(z3.If(c, z3.IntVal(2 ** i), z3.IntVal(0)))
    return z3.Sum(parts) if len(parts) > 1 else parts[0]


# ---- bit sets --------------------------------------------------------------------------------

def as_bitset(v):
    if isinstance(v, BitSet):
        return v
    c = const_int(v)
    if c is not None:
        if c < 0:
            raise Unsupported('negative int as bit set')
        return BitSet.from_int(c)
    raise Unsupported('cannot view %r as a bit set (declare the field as BitSet in the sidecar)' % (v,))


def bitset_binop(op, a, b, ctx):
    if op in ('LShift', 'RShift'):
        n = b
        nt = term(n, 'int')
        if ctx is not None:
            ctx.raise_if(sbool(nt < 0), 'ValueError', 'negative shift count')
        if isinstance(a, BitSet):
            A = a
        else:
            A = as_bitset(a)
        if op == 'RShift':
            sup = None if A.support is None else [p - nt for p in A.support]
            return BitSet(lambda j, A=A, nt=nt: z3.And(j >= 0, A.fn(j + nt)), sup)
        sup = None if A.support is None else [p + nt for p in A.support]
        return BitSet(lambda j, A=A, nt=nt: z3.And(j - nt >= 0, A.fn(j - nt)), sup)
    A, B = as_bitset(a), as_bitset(b)
    if op == 'BitAnd':
        sup = A.support if (A.support is not None and (B.support is None or len(A.support) <= len(B.support))) else B.support
        return BitSet(lambda j: z3.And(A.fn(j), B.fn(j)), sup)
    if op == 'BitOr':
        sup = None if (A.support is None or B.support is None) else A.support + B.support
        return BitSet(lambda j: z3.Or(A.fn(j), B.fn(j)), sup)
    if op == 'BitXor':
        sup = None if (A.support is None or B.support is None) else A.support + B.support
        return BitSet(lambda j: z3.Xor(A.fn(j), B.fn(j)), sup)
    raise Unsupported('bit-set operation %s' % op)


def bitset_truth(b):
    if b.support is not None:
        if not b.support:
            return False
        return sbool(z3.Or([z3.And(p >= 0, b.fn(p)) for p in b.support]))
    j = z3.Int('j!bs')
    return sbool(z3.Exists([j], z3.And(j >= 0, b.fn(j))))


def bitset_eq(a, b, k):
    """pointwise equality at the (Skolem) position k"""
    A, B = as_bitset(a), as_bitset(b)
    kt = term(k, 'int')
    return sbool(z3.And(kt >= 0, A.fn(kt)) == z3.And(kt >= 0, B.fn(kt)))


# ---- arithmetic ------------------------------------------------------------------------------

_PYOP = {
    'Add': lambda a, b: a + b, 'Sub': lambda a, b: a - b, 'Mult': lambda a, b: a * b,
    'FloorDiv': lambda a, b: a // b, 'Mod': lambda a, b: a % b, 'Pow': lambda a, b: a ** b,
    'LShift': lambda a, b: a << b, 'RShift': lambda a, b: a >> b,
    'BitAnd': lambda a, b: a & b, 'BitOr': lambda a, b: a | b, 'BitXor': lambda a, b: a ^ b,
}


def _py_scalar(v):
    return isinstance(v, (int, bool, Fraction, float, str, bytes)) and not isinstance(v, Sym)


def binop(op, a, b, ctx=None):
    ta, tb = pytype(a), pytype(b)
    # plain python
    if _py_scalar(a) and _py_scalar(b):
        if ta == 'str' and op == 'Mod':
            return OPAQUE_STR
        if isinstance(a, float):
            a = frac(a)
        if isinstance(b, float):
            b = frac(b)
        if op == 'Div':
            if b == 0:
                return _raise(ctx, 'ZeroDivisionError')
            return Fraction(a) / Fraction(b)
        try:
            if op in ('FloorDiv', 'Mod') and b == 0:
                return _raise(ctx, 'ZeroDivisionError')
            if op in ('LShift', 'RShift') and isinstance(b, int) and b < 0:
                return _raise(ctx, 'ValueError')
            r = _PYOP[op](a, b)
        except TypeError:
            return _raise(ctx, 'TypeError')
        if isinstance(r, float):
            r = frac(r)
        return r
    if isinstance(a, OpaqueStr) or isinstance(b, OpaqueStr) or (ta == 'str' and op == 'Mod'):
        return OPAQUE_STR
    if ta == 'tuple' and tb == 'tuple' and op == 'Add':
        return a + b
    # lists
    if ta == 'list' or tb == 'list':
        return list_binop(op, a, b, ctx)
    # bit sets
    if ta == 'bitset' or tb == 'bitset':
        if op == 'Sub' and isinstance(a, BitSet) and const_int(b) == 1 and a.support is not None and len(a.support) == 1:
            p = a.support[0]
            return BitSet.below(p)      # 2**p - 1 (p >= 0 is the caller's business: 2**p with p<0 is not an int)
        return bitset_binop(op, a, b, ctx)
    if op in ('LShift', 'RShift') and ta in ('int', 'bool') and tb in ('int', 'bool') and const_int(b) is None:
        return bitset_binop(op, a, b, ctx)
    if op == 'Pow' and const_int(a) == 2 and tb == 'int' and const_int(b) is None:
        if ctx is not None:
            ctx.raise_if(sbool(term(b, 'int') < 0), 'Unsupported', '2**negative is a float')
        return BitSet.single(term(b, 'int'))
    if ta == 'none' or tb == 'none':
        return _raise(ctx, 'TypeError', 'arithmetic on None')
    # bytes / str
    if ta == 'bytes' and tb == 'bytes' and op == 'Add':
        return bytes_concat([a, b])
    if ta == 'str' and tb == 'str' and op == 'Add':
        return mk(z3.Concat(term(a), term(b)), 'str')
    if (ta == 'bytes') != (tb == 'bytes') or (ta == 'str') != (tb == 'str'):
        if op == 'Mult' and ta in ('bytes', 'str') and const_int(b) is not None and is_concrete(a):
            return a * const_int(b)
        if op == 'Mult' and ((ta in ('bytes', 'str') and tb in ('int', 'bool')) or (tb in ('bytes', 'str') and ta in ('int', 'bool'))):
            raise Unsupported('repetition of a %s by a symbolic count is not modelled' % (ta if ta in ('bytes', 'str') else tb))
        if op == 'Mod' and ta in ('bytes', 'str'):
            raise Unsupported('%%-formatting of a symbolic %s is not modelled' % ta)
        return _raise(ctx, 'TypeError', 'bad operand types %s %s' % (ta, tb))
    if ta in ('obj', 'other', 'dict', 'set') or tb in ('obj', 'other', 'dict', 'set'):
        raise Unsupported('binop %s on %s,%s' % (op, ta, tb))
    # numeric
    real = (ta == 'real' or tb == 'real' or op == 'Div')
    if real:
        x, y = term(a, 'real'), term(b, 'real')
        if op in ('Add', 'Sub', 'Mult'):
            return concretize(mk({'Add': x + y, 'Sub': x - y, 'Mult': x * y}[op], 'real'))
        if op == 'Div':
            if ctx is not None:
                ctx.raise_if(sbool(y == 0), 'ZeroDivisionError')
            return concretize(mk(x / y, 'real'))
        raise Unsupported('real op %s' % op)
    x, y = term(a, 'int'), term(b, 'int')
    if op == 'Add':
        return concretize(mk(x + y, 'int'))
    if op == 'Sub':
        return concretize(mk(x - y, 'int'))
    if op == 'Mult':
        return concretize(mk(x * y, 'int'))
    if op in ('FloorDiv', 'Mod'):
        cb = const_int(b)
        if cb is not None and cb > 0:
            return concretize(mk(x / y if op == 'FloorDiv' else x % y, 'int'))
        if ctx is not None:
            ctx.raise_if(sbool(y == 0), 'ZeroDivisionError')
        # python floor semantics from z3's euclidean div/mod
        q = z3.If(y > 0, x / y, (-x) / (-y))
        if op == 'FloorDiv':
            return concretize(mk(q, 'int'))
        return concretize(mk(x - y * q, 'int'))
    if op in ('BitAnd', 'BitOr', 'BitXor'):
        return concretize(mk(int_bitop(op, x, y), 'int'))
    if op == 'LShift':
        k = const_int(b)
        if k is None:
            return bitset_binop(op, a, b, ctx)
        if k < 0:
            return _raise(ctx, 'ValueError')
        return concretize(mk(x * z3.IntVal(2 ** k), 'int'))
    if op == 'RShift':
        k = const_int(b)
        if k is None:
            return bitset_binop(op, a, b, ctx)
        if k < 0:
            return _raise(ctx, 'ValueError')
        return concretize(mk(x / z3.IntVal(2 ** k), 'int'))
    if op == 'Pow':
        ca, cb = const_int(a), const_int(b)
        if cb is not None and cb >= 0 and cb <= 4:
            r = z3.IntVal(1)
            for _ in range(cb):
                r = r * x
            return concretize(mk(r, 'int'))
        raise Unsupported('symbolic power')
    raise Unsupported('binop %s' % op)


def _raise(ctx, name, msg=''):
    if ctx is None:
        raise Unsupported('spec-mode operation would raise %s %s' % (name, msg))
    ctx.raise_exc(name, msg)


# ---- bytes -----------------------------------------------------------------------------------

KNOWN_LEN = {}      # z3 ast id -> python int (exact length of a bytes term)
_KEEP = []          # keep terms alive so ast ids stay unique


LENGTH_AGNOSTIC = set()     # uninterpreted functions whose byte-string arguments they do not constrain in length
PACKED_BYTE = {}    # z3 ast id of a packed one-byte field -> (code, value term): per path
SLICE_INFO = {}     # z3 ast id -> (base term, lo Int term, count Int term) for terms created as python slices base[lo:lo+count]
LEN_TERM = {}       # z3 ast id -> z3 Int term: symbolic length of a bytes term (companion length)
LINKS = []          # (bytes term, Int term): Length(bytes term) = Int term; drained into the path context, which drops
                    # the link of a term whose content is constrained nowhere (no long sequence has to be built then)


def set_len(t, n):
    KNOWN_LEN[t.get_id()] = n
    _KEEP.append(t)


def set_len_term(t, n):
    """give the bytes term t the companion length n (an Int term)"""
    n = z3.simplify(n) if isinstance(n, z3.ExprRef) else z3.IntVal(n)
    if z3.is_int_value(n):
        set_len(t, n.as_long())
        return
    LEN_TERM[t.get_id()] = n
    _KEEP.append(t)
    LINKS.append((t, n))


def blen(t):
    """length of a bytes/str term as an Int term, through known / companion lengths where they exist"""
    tot = 0
    parts = []
    for c in flat_chunks(t):
        n = known_len(c)
        if n is not None:
            tot += n
            continue
        lt = LEN_TERM.get(c.get_id())
        parts.append(lt if lt is not None else _raw_len(c))
    if not parts:
        return z3.IntVal(tot)
    if tot:
        parts = [z3.IntVal(tot)] + parts
    return parts[0] if len(parts) == 1 else z3.Sum(parts)


def _raw_len(c):
    if z3.is_app(c) and c.decl().kind() == z3.Z3_OP_ITE:
        ch = c.children()
        return z3.If(ch[0], blen(ch[1]), blen(ch[2]))
    if z3.is_app(c) and c.decl().kind() == z3.Z3_OP_SEQ_EXTRACT:
        # z3 semantics of seq.extract(s, o, n): empty unless 0 <= o < len(s) and n > 0, else min(n, len(s) - o) elements
        s_, o, n = c.children()
        L = blen(s_)
        return z3.If(z3.And(o >= 0, o < L, n > 0), z3.If(n < L - o, n, L - o), z3.IntVal(0))
    return z3.Length(c)


def known_len(t):
    n = KNOWN_LEN.get(t.get_id())
    if n is not None:
        return n
    if z3.is_app(t):
        k = t.decl().kind()
        if k == z3.Z3_OP_SEQ_UNIT:
            return 1
        if k == z3.Z3_OP_SEQ_EMPTY:
            return 0
        if k == z3.Z3_OP_SEQ_CONCAT:
            tot = 0
            for c in t.children():
                n = known_len(c)
                if n is None:
                    return None
                tot += n
            return tot
    return None


def flat_chunks(t):
    if z3.is_app(t) and t.decl().kind() == z3.Z3_OP_SEQ_CONCAT:
        out = []
        for c in t.children():
            out.extend(flat_chunks(c))
        return out
    if z3.is_app(t) and t.decl().kind() == z3.Z3_OP_SEQ_EMPTY:
        return []
    return [t]


def mk_concat(ts, sort=BytesSort):
    ts = [c for t in ts for c in flat_chunks(t)]
    if not ts:
        return z3.Empty(sort)
    if len(ts) == 1:
        return ts[0]
    return z3.Concat(*ts)


def bytes_concat(vals):
    return concretize_bytes(mk(mk_concat([term(v) for v in vals]), 'bytes'))


def lit_bytes(t):
    """python bytes if the bytes term is a literal, else None"""
    out = bytearray()
    for c in flat_chunks(z3.simplify(t)):
        if z3.is_app(c) and c.decl().kind() == z3.Z3_OP_SEQ_UNIT and z3.is_bv_value(c.children()[0]):
            out.append(c.children()[0].as_long())
        else:
            return None
    return bytes(out)


def concretize_bytes(v):
    if isinstance(v, Sym) and v.ty == 'bytes' and v.cls is None:
        b = lit_bytes(v.t)
        if b is not None:
            return b
    return v


def bytes_len(v):
    if isinstance(v, (bytes, bytearray)):
        return len(v)
    n = z3.simplify(blen(v.t))
    if z3.is_int_value(n):
        return n.as_long()
    return mk(n, 'int')


def seq_slice_term(t, lo, hi, sort=BytesSort):
    """python slice t[lo:hi] for 0 <= lo (z3 Int terms or None); clamps like python.
    Structural when chunk boundaries are known."""
    chunks = flat_chunks(t)
    lens = [known_len(c) for c in chunks]
    clo = 0 if lo is None else (lo if isinstance(lo, int) else (lo.as_long() if z3.is_int_value(lo) else None))
    chi = None if hi is None else (hi if isinstance(hi, int) else (hi.as_long() if z3.is_int_value(hi) else 'sym'))
    if clo is not None and clo >= 0 and chi != 'sym' and (chi is None or chi >= 0):
        # try structural slicing
        out = []
        pos = 0
        ok = True
        for c, n in zip(chunks, lens):
            if chi is not None and pos >= chi:
                break
            if n is None:
                # unknown-length chunk: only fine if slice starts at/before pos and has no upper limit
                if pos >= clo and chi is None:
                    out.append(c)
                    pos = None
                    # everything after is included too
                    idx = chunks.index(c)
                    out.extend(chunks[idx + 1:])
                    break
                ok = False
                break
            a, b = pos, pos + n
            s = max(a, clo)
            e = b if chi is None else min(b, chi)
            if s < e:
                if s == a and e == b:
                    out.append(c)
                else:
                    sub = z3.SubSeq(c, z3.IntVal(s - a), z3.IntVal(e - s))
                    sub = z3.simplify(sub)
                    set_len(sub, e - s)
                    out.append(sub)
            pos = b
        if ok:
            return mk_concat(out, sort)
    if sort == BytesSort and len(chunks) > 1:
        # symbolic bounds that coincide (as terms) with chunk boundaries: the slice is exactly those chunks
        cums = [z3.IntVal(0)]
        for c in chunks:
            cums.append(z3.simplify(cums[-1] + blen(c)))
        lo_s = z3.IntVal(0) if lo is None else (z3.IntVal(lo) if isinstance(lo, int) else z3.simplify(lo))
        hi_s = cums[-1] if hi is None else (z3.IntVal(hi) if isinstance(hi, int) else z3.simplify(hi))
        ia = [k for k, cu in enumerate(cums) if z3.is_true(z3.simplify(cu == lo_s)) or cu.eq(lo_s)]
        ib = [k for k, cu in enumerate(cums) if z3.is_true(z3.simplify(cu == hi_s)) or cu.eq(hi_s)]
        if ia and ib and ia[0] <= ib[-1]:
            return mk_concat(chunks[ia[0]:ib[-1]], sort)
    L = blen(t) if sort == BytesSort else z3.Length(t)
    lo_t = z3.IntVal(0) if lo is None else (z3.IntVal(lo) if isinstance(lo, int) else lo)
    hi_t = L if hi is None else (z3.IntVal(hi) if isinstance(hi, int) else hi)
    # python clamping for non-negative bounds
    lo_c = z3.If(lo_t > L, L, lo_t)
    hi_c = z3.If(hi_t > L, L, hi_t)
    n = z3.simplify(z3.If(hi_c > lo_c, hi_c - lo_c, z3.IntVal(0)))
    r = z3.SubSeq(t, lo_c, n)
    if sort == BytesSort:
        set_len_term(r, n)
    lo_s = z3.simplify(lo_c)
    # two slices of the same string that meet (t[:k] and t[k:]) concatenate to the string: the instantiated lemma is queued,
    # the sequence solver does not find it on its own within the budget
    for (b2, lo2, n2, r2) in list(SLICE_INFO.values()):
        if b2.eq(t):
            first = (r2, lo2, n2, r, lo_s, n) if z3.is_int_value(lo2) and lo2.as_long() == 0 else \
                    ((r, lo_s, n, r2, lo2, n2) if z3.is_int_value(lo_s) and lo_s.as_long() == 0 else None)
            if first is not None:
                ra, la, na, rb, lb, nb = first
                XOR8_FACTS.append((r, z3.Implies(z3.And(z3.simplify(la + na) == lb, z3.simplify(lb + nb) == L), z3.Concat(ra, rb) == t)))
    SLICE_INFO[r.get_id()] = (t, lo_s, n, r)
    _KEEP.append(r)
    return r


def norm_index(i, n, ctx):
    """python negative-index normalisation for a z3 Int index and length n (z3 Int)"""
    ci = i.as_long() if z3.is_int_value(i) else None
    if ci is not None:
        return i if ci >= 0 else n + i
    return z3.If(i >= 0, i, n + i)


def slice_bounds(lo, hi, n):
    """normalise python slice bounds (values or None) against length term n -> (lo_t, hi_t) z3 Ints or python ints/None.
    Keeps concrete non-negative ints as ints so that structural slicing can be used."""
    def one(b):
        if b is None:
            return None
        c = const_int(b)
        if c is not None:
            if c >= 0:
                return c
            return z3.If(n + c < 0, z3.IntVal(0), n + c)
        t = term(b, 'int')
        l, _h = bounds(t)
        if l is not None and l >= 0:
            return z3.simplify(t)          # known non-negative (declared / learnt bounds): no negative-index case
        return z3.If(t >= 0, t, z3.If(n + t < 0, z3.IntVal(0), n + t))
    return one(lo), one(hi)


def ba_source(t):
    """if t is ba2bytes(arr, n) return (arr, n)"""
    if z3.is_app(t) and t.decl().name() == 'ba2bytes':
        return t.children()[0], t.children()[1]
    return None


def spec_getitem(v, k):
    return getitem(v, k, None)


def getitem(v, k, ctx):
    if isinstance(v, Sym) and v.ty in ('bytes', 'str'):
        sort = BytesSort if v.ty == 'bytes' else StrSort
        if isinstance(k, slice):
            if k.step is not None:
                raise Unsupported('slice step')
            lo, hi = slice_bounds(k.start, k.stop, blen(v.t) if v.ty == 'bytes' else z3.Length(v.t))
            return mk(seq_slice_term(v.t, lo, hi, sort), v.ty)
        n = blen(v.t) if v.ty == 'bytes' else z3.Length(v.t)
        i = norm_index(term(k, 'int'), n, ctx)
        if ctx is not None:
            ctx.raise_if(sbool(z3.Or(i < 0, i >= n)), 'IndexError')
        if v.ty == 'bytes':
            src = ba_source(v.t)
            if src is not None:
                return mk(z3.Select(src[0], i), 'int')
            return mk(z3.BV2Int(v.t[i]), 'int')
        return mk(z3.SubSeq(v.t, i, z3.IntVal(1)), 'str')
    if isinstance(v, (bytes, str)):
        if isinstance(k, slice):
            a, b = const_int(k.start) if k.start is not None else None, const_int(k.stop) if k.stop is not None else None
            st = const_int(k.step) if k.step is not None else None
            if k.step is not None and st is None:
                raise Unsupported('symbolic slice step')
            if st == 0:
                return _raise(ctx, 'ValueError')
            if (k.start is None or a is not None) and (k.stop is None or b is not None):
                return v[a:b:st]
            return getitem(mk(term(v), pytype(v)), k, ctx)
        c = const_int(k)
        if c is not None:
            try:
                return v[c]
            except IndexError:
                return _raise(ctx, 'IndexError')
        return getitem(mk(term(v), pytype(v)), k, ctx)
    if isinstance(v, tuple):
        if isinstance(k, slice):
            parts = []
            for x in (k.start, k.stop, k.step):
                c = const_int(x) if x is not None else None
                if x is not None and c is None:
                    raise Unsupported('symbolic slice of a tuple')
                parts.append(c)
            if parts[2] == 0:
                return _raise(ctx, 'ValueError')
            return v[parts[0]:parts[1]:parts[2]]
        c = const_int(k)
        if c is None:
            raise Unsupported('symbolic tuple index')
        try:
            return v[c]
        except IndexError:
            return _raise(ctx, 'IndexError')
    raise Unsupported('getitem on %r' % (v,))


# ---- lists (pure part) -----------------------------------------------------------------------

def list_binop(op, a, b, ctx):
    if op == 'Mult':
        lst, n = (a, b) if isinstance(a, (PyList, SymSeq)) else (b, a)
        c = const_int(n)
        if isinstance(lst, PyList) and c is not None:
            return PyList(lst.items * c)
        raise Unsupported('list * symbolic (use a library contract)')
    if op == 'Add' and isinstance(a, PyList) and isinstance(b, PyList):
        return PyList(a.items + b.items)
    raise Unsupported('list op %s' % op)


# ---- comparison ------------------------------------------------------------------------------

def compare(op, a, b, ctx=None):
    ta, tb = pytype(a), pytype(b)
    if op in ('Is', 'IsNot'):
        r = identical(a, b)
        return r if op == 'Is' else neg(r)
    if op in ('Eq', 'NotEq'):
        r = equal(a, b)
        return r if op == 'Eq' else neg(r)
    # ordering
    if _py_scalar(a) and _py_scalar(b):
        try:
            return {'Lt': a < b, 'LtE': a <= b, 'Gt': a > b, 'GtE': a >= b}[op]
        except TypeError:
            return _raise(ctx, 'TypeError')
    if ta == 'none' or tb == 'none':
        return _raise(ctx, 'TypeError', 'ordering with None')
    if ta in ('int', 'bool', 'real') and tb in ('int', 'bool', 'real'):
        want = 'real' if 'real' in (ta, tb) else 'int'
        x, y = term(a, want), term(b, want)
        return sbool({'Lt': x < y, 'LtE': x <= y, 'Gt': x > y, 'GtE': x >= y}[op])
    if ta == 'tuple' and tb == 'tuple':
        raise Unsupported('tuple ordering')
    raise Unsupported('ordering %s on %s,%s' % (op, ta, tb))


def neg(b):
    if isinstance(b, bool):
        return not b
    return sbool(z3.Not(b.t))


def identical(a, b):
    if a is None or b is None:
        if a is None and b is None:
            return True
        other = b if a is None else a
        if isinstance(other, SymFn):
            return sbool(other.ref == 0)
        return False
    if isinstance(a, SymFn) and isinstance(b, SymFn):
        return sbool(a.ref == b.ref)
    if isinstance(a, (Obj, PyList, PyDict, PySet, BuiltinType, ClassVal, FuncVal, Opaque, Closure, SymSeq, SymMap)) or \
       isinstance(b, (Obj, PyList, PyDict, PySet, BuiltinType, ClassVal, FuncVal, Opaque, Closure, SymSeq, SymMap)):
        if isinstance(a, ClassVal) and isinstance(b, ClassVal):
            return a.info is b.info
        return a is b
    if isinstance(a, SymObj) and isinstance(b, SymObj):
        return sbool(a.ref == b.ref)
    if isinstance(a, bool) and isinstance(b, bool):
        return a == b
    return equal(a, b)


def equal(a, b):
    ta, tb = pytype(a), pytype(b)
    if ta == 'none' or tb == 'none':
        return ta == tb
    if _py_scalar(a) and _py_scalar(b):
        return a == b
    num = ('int', 'bool', 'real')
    if ta in num and tb in num:
        want = 'real' if 'real' in (ta, tb) else 'int'
        return sbool(term(a, want) == term(b, want))
    if ta == 'bitset' or tb == 'bitset':
        raise Unsupported('== on bit sets (use S.same_bits at a Skolem position)')
    if ta in ('bytes', 'str') and ta == tb:
        if isinstance(a, OpaqueStr) or isinstance(b, OpaqueStr):
            raise Unsupported('== on an opaque string')
        return sbool(term(a) == term(b))
    if ta == 'tuple' and tb == 'tuple':
        if len(a) != len(b):
            return False
        r = True
        for x, y in zip(a, b):
            r = and_(r, equal(x, y))
        return r
    if ta == 'obj' and tb == 'obj':
        return identical(a, b)
    if ta == 'list' and tb == 'list':
        if isinstance(a, PyList) and isinstance(b, PyList):
            if len(a.items) != len(b.items):
                return False
            r = True
            for x, y in zip(a.items, b.items):
                r = and_(r, equal(x, y))
            return r
        if isinstance(a, SymSeq) and isinstance(b, SymSeq):
            j = z3.Int('j!eq')
            return sbool(z3.And(a.n == b.n, z3.ForAll([j], z3.Implies(z3.And(j >= 0, j < a.n), z3.Select(a.arr, j) == z3.Select(b.arr, j)))))
        raise Unsupported('== on mixed list shapes')
    if ta != tb:
        # different python types are never equal (int/bool/real handled above)
        if ta in ('other',) or tb in ('other',):
            return a is b
        return False
    if ta == 'other':
        return a is b
    raise Unsupported('== on %s' % ta)


def and_(a, b):
    if a is True:
        return b
    if b is True:
        return a
    if a is False or b is False:
        return False
    return sbool(z3.And(bterm(a), bterm(b)))


def or_(a, b):
    if a is False:
        return b
    if b is False:
        return a
    if a is True or b is True:
        return True
    return sbool(z3.Or(bterm(a), bterm(b)))


def implies(a, b):
    return or_(neg(a), b)


def ite(c, a, b):
    if c is True:
        return a
    if c is False:
        return b
    ta, tb = pytype(a), pytype(b)
    if ta == 'bitset' or tb == 'bitset':
        A, B = as_bitset(a), as_bitset(b)
        sup = None if (A.support is None or B.support is None) else A.support + B.support
        return BitSet(lambda j: z3.If(c.t, A.fn(j), B.fn(j)), sup)
    num = ('int', 'bool', 'real')
    if ta in num and tb in num and ta != tb:
        want = 'real' if 'real' in (ta, tb) else 'int'
        return mk(z3.If(c.t, term(a, want), term(b, want)), want)
    if ta != tb:
        raise Unsupported('ite over different types %s %s' % (ta, tb))
    cls = a.cls if isinstance(a, Sym) else None
    return mk(z3.If(c.t, term(a), term(b)), ta, cls if (isinstance(b, Sym) and b.cls is cls) else None)


# ---- truthiness ------------------------------------------------------------------------------

def truth_basic(v):
    """truthiness for values that need no method dispatch; returns bool | Sym bool | NotImplemented"""
    if v is None:
        return False
    if isinstance(v, Sym):
        if v.ty == 'bool':
            return concretize(v)
        if v.ty == 'int':
            return sbool(v.t != 0)
        if v.ty == 'real':
            return sbool(v.t != 0)
        return sbool((blen(v.t) if v.ty == 'bytes' else z3.Length(v.t)) > 0)
    if isinstance(v, BitSet):
        return bitset_truth(v)
    if isinstance(v, (bool, int, str, bytes, tuple, Fraction, float)):
        return bool(v)
    if isinstance(v, PyList):
        return len(v.items) > 0
    if isinstance(v, PyDict):
        return len(v.keys) > 0
    if isinstance(v, PySet):
        return len(v.items) > 0
    if isinstance(v, SymSeq):
        return sbool(v.n > 0)
    if isinstance(v, SymMap):
        if v.size is None:
            raise Unsupported('truthiness of a symbolic dict without a size ghost')
        return sbool(v.size > 0)
    if isinstance(v, (FuncVal, Bound, Closure, Builtin, Opaque, ClassVal, BuiltinType, ModuleVal, OpaqueStr)):
        return True
    if isinstance(v, SymFn):
        return sbool(v.ref != 0)
    return NotImplemented


# ---- spec-mode wrappers (no implicit exceptions) ------------------------------------------------

def spec_binop(op, a, b):
    return binop(op, a, b, None)


def spec_compare(op, a, b):
    return compare(op, a, b, None)


def spec_and(a, b):
    if pytype(a) == 'bool' and pytype(b) == 'bool':
        return and_(a, b)
    return binop('BitAnd', a, b, None)


def spec_or(a, b):
    if pytype(a) == 'bool' and pytype(b) == 'bool':
        return or_(a, b)
    return binop('BitOr', a, b, None)


def spec_not(a):
    if pytype(a) == 'bool':
        return neg(a)
    raise Unsupported('~ on non-boolean in a contract')
