"""Second back end: an obligation z3 leaves `unknown` is printed as SMT-LIB2 and handed to cvc5."""
import os
import subprocess
import tempfile
import z3

CVC5 = '/usr/bin/cvc5'
CVC5_TIMEOUT_S = 30


def cvc5_check(pc, negated_goal, timeout_s=None):
    """returns 'unsat' | 'sat' | 'unknown'"""
    if not os.path.exists(CVC5):
        return 'unknown'
    s = z3.Solver()
    for t in pc:
        s.add(t)
    s.add(negated_goal)
    try:
        text = s.to_smt2()
    except Exception:
        return 'unknown'
    text = '(set-logic ALL)\n' + text
    tl = timeout_s or CVC5_TIMEOUT_S
    with tempfile.NamedTemporaryFile('w', suffix='.smt2', delete=False, dir=os.environ.get('PYVC_SCRATCH', '/var/tmp')) as f:
        f.write(text)
        path = f.name
    try:
        r = subprocess.run([CVC5, '--strings-exp', '--tlimit=%d' % (tl * 1000), path],
                           capture_output=True, text=True, timeout=tl + 10)
        out = r.stdout.strip().split('\n')[0] if r.stdout.strip() else ''
        if out in ('unsat', 'sat'):
            return out
        return 'unknown'
    except Exception:
        return 'unknown'
    finally:
        try:
            os.unlink(path)
        except OSError:
            pass
