"""Modular use of a callee contract at a call site: prove requires, havoc modifies, assume ensures."""
import z3
from .values import *
from . import ops
from .ctx import PyExc, PathEnd
from .dsl import call_clause, NS, S
from .heap import Snapshot, havoc_path, fresh_like
from .interp import Frame
from .envb import Env


def bind(ip, info, args, kwargs):
    fr = Frame(info, info.module, info.cls, None, info.qualname)
    defaults, kw_defaults = ip.func_defaults(info)
    ip.bind_args(info.node.args, args, kwargs, defaults, kw_defaults, fr, info.name)
    return fr.locals


def make_result(ip, contract, argmap):
    r = contract.returns
    if r is None or r == 'none':
        return None
    if callable(r):
        return r(Env(ip), argmap)
    if r in ('int', 'bool', 'real', 'bytes', 'str'):
        return Sym(ip.ctx.fresh('ret_' + contract.qualname.split('.')[-1], Kind(r).sort()), r)
    raise Unsupported('result kind %r' % (r,))


def apply_contract(ip, contract, info, args, kwargs):
    ctx = ip.ctx
    argmap = bind(ip, info, args, kwargs)
    env = dict(argmap)
    env.update({'S': S, 'E': Env(ip), 'ghost': NS(ip.state.ghost)})
    for name, ty in contract.skolems.items():
        sk = ctx.skolems.get(name)
        if sk is not None and isinstance(ty, Kind) != isinstance(sk, z3.ExprRef):
            sk = None       # same name, different kind in caller and callee
        if sk is not None and isinstance(ty, Kind) and sk.sort() != ty.sort():
            sk = None
        if isinstance(ty, Kind):
            env[name] = sk if sk is not None else ctx.fresh('sk_' + name, ty.sort())
        else:
            env[name] = sk if sk is not None else Sym(ctx.fresh('sk_' + name, Kind(ty).sort()), ty)
    site = '%s<-%s' % (contract.qualname, ip.verifying)
    for label, fn in contract.requires.items():
        ctx.oblige('callsite-pre:%s/%s' % (site, label), ops.bterm(_b(call_clause(fn, env))))
    old = Snapshot(ip, argmap)
    env['old'] = NS(dict(old.roots, ghost=NS(old.ghost), _snap=old))
    # exceptional exits
    for label, (excname, cond) in contract.raises.items():
        c = _b(call_clause(cond, env))
        if ctx.branch(c):
            for p in (contract.modifies or []):
                pass      # on a raise the contract's ensures_exc says what changed; default: nothing
            env2 = dict(env)
            env2['new'] = NS(argmap)
            for l2, f2 in contract.ensures_exc.items():
                ctx.assume(ops.bterm(_b(call_clause(f2, env2))))
            ctx.raise_exc(excname, 'by contract of %s (%s)' % (contract.qualname, label),
                          clsinfo=_exc_cls(ip, info, excname))
    for excname in contract.may_raise:
        if ctx.choose(2) == 1:
            ctx.raise_exc(excname, 'may be raised by %s' % contract.qualname, clsinfo=_exc_cls(ip, info, excname))
    # havoc the frame
    for p in (contract.modifies or []):
        if p.startswith('ghost.'):
            g = p[6:]
            ip.state.ghost[g] = fresh_like(ip, ip.state.ghost[g], 'g_' + g, contract.havoc_kinds.get(p))
        elif p.startswith('field:'):
            cn, a = p[6:].rsplit('.', 1)
            arr, kind = ip.state.fields[(cn, a)]
            ip.state.fields[(cn, a)] = (ip.ctx.fresh('fld_%s_%s' % (cn, a), arr.sort()), kind)
            if (cn, a) in ip.state.field_len:
                ip.state.field_len[(cn, a)] = ip.ctx.fresh('fldlen_%s_%s' % (cn, a), ip.state.field_len[(cn, a)].sort())
        elif p.startswith('class:'):
            q, a = p[6:].rsplit('.', 1)
            cur = ip.state.class_over.get((q, a))
            if cur is None:
                found, cur = ip.class_attr(ip.repo.cls(q), a)
            ip.state.class_over[(q, a)] = fresh_like(ip, cur, a, contract.havoc_kinds.get(p))
        else:
            havoc_path(ip, argmap, p, contract.havoc_kinds)
    if any(p.startswith('field:') for p in (contract.modifies or [])) and 'alloc' in ip.state.ghost:
        # the callee may allocate objects: the allocation counter moves forward by an unknown amount
        a_new = ctx.fresh('alloc_after', IntSort)
        ctx.assume(a_new >= ip.state.ghost['alloc'])
        ip.state.ghost['alloc'] = a_new
    result = make_result(ip, contract, argmap)
    if contract.effect is not None:
        r2 = contract.effect(ip, argmap, result)
        if r2 is not NotImplemented:
            result = r2
    feasible_before = ctx.feasible(z3.BoolVal(True))
    env['new'] = NS(dict(argmap, ghost=NS(ip.state.ghost)))
    env['ghost'] = NS(ip.state.ghost)
    env['result'] = result
    for label, fn in contract.ensures.items():
        try:
            g = ops.bterm(_b(call_clause(fn, env)))
        except (AttributeError, KeyError, Unsupported):
            # the clause speaks about ghost state of the callee's own proof: not usable here (assuming less is sound)
            ip.ctx.notes.append('postcondition %s of %s not usable at this call site' % (label, contract.qualname))
            continue
        try:
            ctx.assume(g)
        except PathEnd:
            # a postcondition that is literally false here would silently end the path: never a proof
            raise Unsupported('postcondition %s of %s evaluates to false at its call site in %s' % (label, contract.qualname, ip.verifying))
        if feasible_before and not ctx.feasible(z3.BoolVal(True)):
            raise Unsupported('postcondition %s of %s is inconsistent with the state at its call site in %s' % (label, contract.qualname, ip.verifying))
    # further instances of the callee's universally quantified postconditions (chosen by the caller's contract)
    for name in contract.skolems:
        for inst in ctx.instances.get(name, []):
            env2 = dict(env)
            env2[name] = inst(env2) if callable(inst) else inst
            import inspect as _insp
            for label, fn in contract.ensures.items():
                if name in _insp.signature(fn).parameters:
                    try:
                        ctx.assume(ops.bterm(_b(call_clause(fn, env2))))
                    except (AttributeError, KeyError, Unsupported):
                        continue
    # vacuity guard: a callee postcondition that contradicts the call-site state would make everything after the call
    # provable; that is a defect of the contract (or of its evaluation here), never a proof
    if feasible_before and not ctx.feasible(z3.BoolVal(True)):
        raise Unsupported('the postcondition of %s is inconsistent with the state at its call site in %s' % (contract.qualname, ip.verifying))
    return result


def _exc_cls(ip, info, excname):
    ci = info.module.resolve_class(excname)
    return ci


def _b(x):
    from .dsl import _b as b
    return b(x)
