"""Tree-walking symbolic interpreter over the real ASTs of /repo."""
import ast
import z3
from fractions import Fraction
from .values import *
from . import ops
from .ctx import Ctx, PyExc, PathEnd, exc_ancestors, EXC_PARENT
from . import loader


def _default_of(sort):
    if sort == IntSort:
        return z3.IntVal(0)
    if sort == BoolSort:
        return z3.BoolVal(False)
    if sort == RealSort:
        return z3.RealVal(0)
    if sort == BytesSort:
        return z3.Empty(BytesSort)
    if sort == StrSort:
        return z3.StringVal('')
    return z3.Const('dflt_' + str(sort), sort)


class _Return(Exception):
    def __init__(self, value):
        self.value = value


class _Break(Exception):
    pass


class _Continue(Exception):
    pass


class Frame:
    def __init__(self, func, module, cls=None, parent=None, name='?'):
        self.func = func            # FuncInfo | Closure | None
        self.module = module
        self.cls = cls              # defining class (for super())
        self.parent = parent        # enclosing Frame (closures)
        self.locals = {}
        self.local_names = set()
        self.name = name
        self.yields = None
        self.loop_ordinal = 0
        self.contract = None        # contract of the function being verified (for loop specs)
        self.loop_ids = {}
        self.global_names = set()


def assigned_names(node):
    """names bound in a function body (not descending into nested defs/lambdas/comprehensions' own scopes)"""
    out = set()

    def tgt(t):
        if isinstance(t, ast.Name):
            out.add(t.id)
        elif isinstance(t, (ast.Tuple, ast.List)):
            for e in t.elts:
                tgt(e)
        elif isinstance(t, ast.Starred):
            tgt(t.value)

    def walk(n):
        for ch in ast.iter_child_nodes(n):
            if isinstance(ch, (ast.FunctionDef, ast.AsyncFunctionDef, ast.ClassDef)):
                out.add(ch.name)
                continue
            if isinstance(ch, ast.Lambda):
                continue
            if isinstance(ch, (ast.ListComp, ast.SetComp, ast.DictComp, ast.GeneratorExp)):
                continue
            if isinstance(ch, ast.Assign):
                for t in ch.targets:
                    tgt(t)
            elif isinstance(ch, (ast.AugAssign, ast.AnnAssign)):
                tgt(ch.target)
            elif isinstance(ch, (ast.For,)):
                tgt(ch.target)
            elif isinstance(ch, ast.With):
                for it in ch.items:
                    if it.optional_vars is not None:
                        tgt(it.optional_vars)
            elif isinstance(ch, ast.ExceptHandler):
                if ch.name:
                    out.add(ch.name)
            elif isinstance(ch, (ast.Import, ast.ImportFrom)):
                for a in ch.names:
                    out.add((a.asname or a.name).split('.')[0])
            elif isinstance(ch, ast.NamedExpr):
                tgt(ch.target)
            walk(ch)
    walk(node)
    return out


def _init_assigns(cls, name):
    """does some __init__ in the class's mro assign self.<name>?"""
    for c in cls.mro():
        m = c.methods.get('__init__')
        if m is None:
            continue
        for n in ast.walk(m.node):
            if isinstance(n, ast.Attribute) and isinstance(n.ctx, ast.Store) and n.attr == name \
                    and isinstance(n.value, ast.Name) and n.value.id == 'self':
                return True
    return False


class State:
    """per-path mutable state that is not an Obj attribute"""
    def __init__(self):
        self.fields = {}            # (class name, attr) -> (z3 Array Int->sort, Kind)
        self.field_kinds = {}       # (class name, attr) -> Kind
        self.field_inv = {}         # (class name, attr) -> fn(term) -> z3 Bool: invariant of the field, assumed at every read
        self.field_len = {}         # (class name, attr) -> z3 Array(Int->Int): companion lengths of a bytes-valued field
        self.class_over = {}        # (class qualname, attr) -> value   (class attributes mutated at run time)
        self.events = []            # ghost event log
        self.ghost = {}
        self.interp = None
        self.boxes = []             # (ref term, value) for values of kind 'box'
        self.allocated = []         # refs allocated during this run (heapify)

    def read_field(self, so, name):
        key = (so.cls.name, name)
        if key not in self.fields:
            # class attribute / method?
            found, v = so.cls.lookup(name)
            if found:
                return self.interp.bind_class_attr(so, v)
            raise Unsupported('field %s.%s of a symbolic object is not declared in the sidecar' % key)
        arr, kind = self.fields[key]
        t = z3.simplify(z3.Select(arr, so.ref))
        la = self.field_len.get(key)
        if la is not None and ops.known_len(t) is None and t.get_id() not in ops.LEN_TERM:
            ops.set_len_term(t, z3.simplify(z3.Select(la, so.ref)))      # companion length of a bytes field
        inv = self.field_inv.get(key)
        if inv is not None:
            self.interp.ctx.assume(inv(t))
        return self.interp.wrap(t, kind)

    def write_field(self, so, name, value):
        key = (so.cls.name, name)
        if key not in self.fields:
            raise Unsupported('field %s.%s of a symbolic object is not declared in the sidecar' % key)
        arr, kind = self.fields[key]
        vt = self.interp.unwrap(value, kind)
        self.fields[key] = (z3.Store(arr, so.ref, vt), kind)
        la = self.field_len.get(key)
        if la is not None:
            self.field_len[key] = z3.Store(la, so.ref, ops.blen(vt))


class AttrDict:
    """obj.__dict__ of a concrete-identity object: a live view of its instance attributes (string keys only)"""
    def __init__(self, obj):
        self.obj = obj

    def _key(self, ip, k):
        if not isinstance(k, str):
            raise Unsupported('__dict__ with a key that is not a constant string')
        return k

    def pv_getitem(self, ip, k):
        k = self._key(ip, k)
        if k not in self.obj.attrs:
            ip.ctx.raise_exc('KeyError', k)
        return self.obj.attrs[k]

    def pv_setitem(self, ip, k, val):
        if self.obj.frozen:
            raise Unsupported('write to a frozen (snapshot) object')
        self.obj.attrs[self._key(ip, k)] = val

    def pv_contains(self, ip, k):
        return self._key(ip, k) in self.obj.attrs

    def pv_truth(self, ip):
        return len(self.obj.attrs) > 0

    def pv_getattr(self, ip, name):
        o = self.obj
        if name == 'get':
            return Builtin('__dict__.get', lambda ip, k, d=None: o.attrs.get(self._key(ip, k), d))
        if name == 'pop':
            def pop(ip, k, *d):
                k = self._key(ip, k)
                if o.frozen:
                    raise Unsupported('write to a frozen (snapshot) object')
                if k in o.attrs:
                    return o.attrs.pop(k)
                if d:
                    return d[0]
                ip.ctx.raise_exc('KeyError', k)
            return Builtin('__dict__.pop', pop)
        if name == 'setdefault':
            def setdefault(ip, k, d=None):
                k = self._key(ip, k)
                if k not in o.attrs:
                    o.attrs[k] = d
                return o.attrs[k]
            return Builtin('__dict__.setdefault', setdefault)
        raise Unsupported('__dict__.%s' % name)


class Interp:
    def __init__(self, ctx, repo=None):
        self.ctx = ctx
        self.repo = repo or loader.repo()
        self.state = State()
        self.state.interp = self
        self.contracts = {}         # qualname -> contract used modularly at call sites
        self.verifying = None       # qualname of the function under verification (executed by body)
        self.call_depth = 0
        self.in_body = False        # set once the body of the function under verification is being executed
        self.inline_log = set()
        self.contract_log = set()
        self.max_depth = 40
        from . import lib
        self.lib = lib
        self.fn_refs = {}           # id(callable value) -> (ref term, value)
        self.unknown_attrs = set()  # (id(obj), attr): constructor attributes the sidecar does not know (arbitrary value, frame-exempt)
        self.hooks = {}             # anchor hooks: 'after-call:<text>' -> fn(interp, frame, args, result)

    # ------------------------------------------------------------------ wrapping terms
    def wrap(self, t, kind):
        if kind.ty == 'fn':
            return SymFn(t)
        if kind.ty == 'seq':
            ts, mk_, (acc_arr, acc_n) = list_sort(kind.inner.sort())
            n = z3.simplify(acc_n(t))
            self.ctx.assume(n >= 0)
            return SymSeq(z3.simplify(acc_arr(t)), n, kind.inner)
        if kind.ty == 'pair':
            ts, mk_, accs = pair_sort(*[k.sort() for k in kind.inner])
            return tuple(self.wrap(z3.simplify(a(t)), k) for a, k in zip(accs, kind.inner))
        if kind.ty == 'custom':
            return kind.inner[1](self, t)
        if kind.ty == 'box':
            for ref, val in self.state.boxes:
                if ref.eq(t):
                    return val
            return Box(t)
        if kind.ty == 'obj':
            so = SymObj(t, kind.cls, self.state)
            a = self.state.ghost.get('alloc')
            if a is not None:
                # every reference stored anywhere was allocated before now: it is below the allocation counter
                self.ctx.assume(z3.And(t > 0, t < a))
            return so
        if kind.ty == 'enum':
            kind.cls.ensure_evaluated()
            return Obj(kind.cls, {'value': Sym(t, 'int')})
        return ops.concretize(Sym(t, kind.ty, kind.cls))

    def unwrap(self, v, kind):
        if hasattr(v, 'pv_key'):
            g = v.pv_key(kind)
            if g is None:
                raise Unsupported('value %r cannot be used as a %s key' % (v, kind.ty))
            return g[1]
        if kind.ty == 'fn':
            if isinstance(v, SymFn):
                return v.ref
            if v is None:
                return z3.IntVal(0)
            r = self.fn_refs.get(id(v))
            if r is None:
                r = self.ctx.fresh('fnref', IntSort)
                self.ctx.assume(r > 0)
                for o in self.fn_refs.values():
                    self.ctx.assume(r != o[0])
                self.fn_refs[id(v)] = (r, v)
                return r
            return r[0]
        if kind.ty == 'seq':
            ts, mk_, (acc_arr, acc_n) = list_sort(kind.inner.sort())
            if isinstance(v, SymSeq):
                return mk_(v.arr, v.n)
            if isinstance(v, PyList):
                arr = z3.K(IntSort, _default_of(kind.inner.sort()))
                for i, x in enumerate(v.items):
                    arr = z3.Store(arr, z3.IntVal(i), self.unwrap(x, kind.inner))
                return mk_(arr, z3.IntVal(len(v.items)))
            raise Unsupported('storing %r as a list value' % (v,))
        if kind.ty == 'pair':
            ts, mk_, accs = pair_sort(*[k.sort() for k in kind.inner])
            return mk_(*[self.unwrap(x, k) for x, k in zip(v, kind.inner)])
        if kind.ty == 'custom':
            return kind.inner[2](self, v)
        if kind.ty == 'box':
            if isinstance(v, Box):
                return v.ref
            r = self.ctx.fresh('box', IntSort)
            for ref, val in self.state.boxes:
                self.ctx.assume(r != ref)
            self.state.boxes.append((r, v))
            return r
        if kind.ty == 'obj':
            if isinstance(v, SymObj):
                return v.ref
            if isinstance(v, Obj):
                return self.heapify(v).ref
            raise Unsupported('storing a non-object into a symbolic collection of objects')
        if kind.ty == 'enum':
            if isinstance(v, Obj):
                return ops.term(v.attrs['value'], 'int')
            return ops.term(v, 'int')      # a plain int where an enum member is expected (received messages carry retry=0)
        return ops.term(v, kind.ty if kind.ty in ('int', 'real') else None)

    def heapify(self, o):
        """move a concrete-identity object into the field maps (it is about to be stored in a symbolic container)"""
        if o.fwd is not None:
            return o.fwd
        cls = o.cls
        if cls is None:
            raise Unsupported('cannot store a class-less object in a symbolic container')
        st = self.state
        a = st.ghost.get('alloc')
        if a is None:
            raise Unsupported('allocation of %s into a symbolic container needs an allocation ghost (E.alloc())' % cls.name)
        ref = self.ctx.fresh('new_' + cls.name, IntSort)
        self.ctx.assume(ref == a)
        st.ghost['alloc'] = a + 1
        st.allocated.append(ref)
        so = SymObj(ref, cls, st)
        for name, v in o.attrs.items():
            if (cls.name, name) not in st.fields:
                raise Unsupported('field %s.%s is not declared in the sidecar' % (cls.name, name))
            st.write_field(so, name, v)
        o.fwd = so
        o.attrs = {}
        return so

    def new_symobj(self, cls):
        st = self.state
        a = st.ghost.get('alloc')
        if a is None:
            raise Unsupported('allocation of a symbolic %s needs an allocation ghost (E.alloc())' % cls.name)
        ref = self.ctx.fresh('new_' + cls.name, IntSort)
        self.ctx.assume(ref == a)
        st.ghost['alloc'] = a + 1
        st.allocated.append(ref)
        so = SymObj(ref, cls, st)
        # a new object: nothing is known about its fields except what its constructor's contract says
        for key in list(st.fields):
            if key[0] == cls.name:
                arr, kind = st.fields[key]
                t = self.ctx.fresh('init_%s_%s' % key, kind.sort())
                st.fields[key] = (z3.Store(arr, ref, t), kind)
                la = st.field_len.get(key)
                if la is not None:
                    st.field_len[key] = z3.Store(la, ref, self.ctx.fresh('initlen_%s_%s' % key, IntSort))
        return so

    # ------------------------------------------------------------------ module / name resolution
    def module_global(self, module, name):
        if name in module.globals:
            return True, module.globals[name]
        if name in module.functions:
            v = FuncVal(module.functions[name])
            module.globals[name] = v
            return True, v
        if name in module.classes:
            v = ClassVal(module.classes[name])
            module.globals[name] = v
            return True, v
        if name in module.global_nodes:
            v = self.eval_global(module, name)
            module.globals[name] = v
            return True, v
        if name in module.imports:
            v = self.resolve_import(module, module.imports[name])
            module.globals[name] = v
            return True, v
        return False, None

    def eval_global(self, module, name):
        fr = Frame(None, module, name='<module %s>' % module.name)
        val = None
        for ent in module.global_nodes[name]:
            if ent[0] == 'assign':
                val = self.eval(ent[1], fr)
                module.globals[name] = val
            else:
                k = self.eval(ent[1], fr)
                v = self.eval(ent[2], fr)
                self.setitem(val, k, v)
        return val

    def resolve_import(self, module, imp):
        if imp[0] == 'module':
            m = self.repo.module_for_import(module, imp[1])
            if m is not None:
                return ModuleVal('repo:' + m.name)
            return self.lib.external_module(imp[1])
        modname, attr = imp[1], imp[2]
        m = self.repo.module_for_import(module, modname)
        if m is None and modname in ('.', ''):
            # from . import crypto
            m2 = self.repo.module(attr)
            if m2 is not None:
                return ModuleVal('repo:' + m2.name)
        if m is not None:
            found, v = self.module_global(m, attr)
            if found:
                return v
            m2 = self.repo.module(attr)
            if m2 is not None:
                return ModuleVal('repo:' + m2.name)
            raise Unsupported('cannot resolve import %s from %s' % (attr, modname))
        return self.lib.external_attr(modname, attr)

    def lookup_name(self, name, frame):
        f = frame
        first = True
        while f is not None:
            if name in f.locals and name not in f.global_names:
                return f.locals[name]
            if first and name in f.local_names and name not in f.global_names:
                self.ctx.raise_exc('UnboundLocalError', name)
            if not first and name in f.local_names:
                self.ctx.raise_exc('NameError', 'free variable %s referenced before assignment' % name)
            first = False
            f = f.parent
        found, v = self.module_global(frame.module, name)
        if found:
            return v
        b = self.lib.builtin(name)
        if b is not None:
            return b
        import builtins as _bi
        if hasattr(_bi, name):
            # a real python builtin the engine has no model for: undecided, never a NameError of the program
            raise Unsupported('builtin %s is not modelled' % name)
        self.ctx.raise_exc('NameError', "name '%s' is not defined" % name)

    # ------------------------------------------------------------------ attributes
    def bind_class_attr(self, recv, v, cls_recv=None):
        if isinstance(v, loader.FuncInfo):
            if v.kind == 'staticmethod':
                return FuncVal(v)
            if v.kind == 'classmethod':
                return Bound(cls_recv if cls_recv is not None else ClassVal(self.class_of(recv)), FuncVal(v))
            return Bound(recv, FuncVal(v))
        if isinstance(v, Closure) and v.cls is not None:
            return Bound(recv, v)
        return v

    def class_of(self, v):
        if isinstance(v, (Obj, SymObj)):
            return v.cls
        if isinstance(v, Sym) and v.cls is not None:
            return v.cls
        return None

    def class_attr(self, info, name):
        """class attribute honoring run-time overrides; -> (found, value)"""
        for c in info.mro():
            k = (c.qualname, name)
            if k in self.state.class_over:
                return True, self.state.class_over[k]
            c.ensure_evaluated()
            if name in c.class_attrs:
                return True, c.class_attrs[name]
            if name in c.methods:
                return True, c.methods[name]
        return False, None

    def getattr(self, v, name, frame=None):
        if hasattr(v, 'pv_getattr'):
            return v.pv_getattr(self, name)
        if isinstance(v, Obj) and v.fwd is not None:
            v = v.fwd
        if isinstance(v, Obj):
            if name in v.attrs:
                return v.attrs[name]
            if name == '__class__':
                return ClassVal(v.cls)
            if name == '__dict__':
                return AttrDict(v)
            if v.cls is not None:
                found, a = self.class_attr(v.cls, name)
                if found:
                    return self.bind_class_attr(v, a)
            la = self.lib.object_attr(self, v, name)
            if la is not None:
                return la
            if v.cls is not None and _init_assigns(v.cls, name):
                # the class's constructor defines this attribute but the object at hand (built by a sidecar setup) lacks it:
                # the sidecar is behind the source -> undecided, never the program's AttributeError
                raise Unsupported('attribute %s is assigned by %s.__init__ but missing from the pre-state built by the sidecar' % (name, v.cls.name))
            if hasattr(object, name):
                raise Unsupported('%s (inherited from object) is not modelled' % name)
            self.ctx.raise_exc('AttributeError', '%r has no attribute %s' % (v, name))
        if isinstance(v, SymObj):
            key = (v.cls.name, name)
            if key in self.state.fields:
                return self.state.read_field(v, name)
            found, a = self.class_attr(v.cls, name)
            if found:
                return self.bind_class_attr(v, a)
            raise Unsupported('field %s.%s of a symbolic object is not declared' % key)
        if isinstance(v, ClassVal):
            if name == '__name__':
                return v.info.name
            found, a = self.class_attr(v.info, name)
            if found:
                if isinstance(a, loader.FuncInfo):
                    if a.kind == 'classmethod':
                        return Bound(v, FuncVal(a))
                    return FuncVal(a)
                return a
            la = self.lib.class_attr(self, v, name)
            if la is not None:
                return la
            if name == '__new__':
                # object.__new__ (no class of the mro defines its own): a bare instance, the constructor is NOT run
                def _object_new(ip, cls, *a, **k):
                    if not isinstance(cls, ClassVal):
                        raise Unsupported('object.__new__ of %r' % (cls,))
                    return Obj(cls.info, {})
                return Builtin('object.__new__', _object_new)
            if hasattr(type, name) or hasattr(object, name):
                # every class has this attribute (inherited from object / type) but the engine has no model of it:
                # undecided, never the program's AttributeError
                raise Unsupported('%s.%s (inherited from object/type) is not modelled' % (v.info.name, name))
            self.ctx.raise_exc('AttributeError', 'class %s has no attribute %s' % (v.info.name, name))
        if isinstance(v, ModuleVal):
            if v.name.startswith('repo:'):
                m = self.repo.module(v.name[5:])
                found, a = self.module_global(m, name)
                if found:
                    return a
                self.ctx.raise_exc('AttributeError', 'module %s has no attribute %s' % (v.name, name))
            return self.lib.module_attr(v, name)
        if isinstance(v, SuperProxy):
            return self.super_attr(v, name)
        if isinstance(v, Opaque) and not v.spec:
            return Opaque(v.name + '.' + name)
        if isinstance(v, Sym) and v.cls is not None:
            if name == '__class__':
                return ClassVal(v.cls)
            found, a = self.class_attr(v.cls, name)
            if found:
                return self.bind_class_attr(v, a)
        if v is None:
            self.ctx.raise_exc('AttributeError', "'NoneType' object has no attribute '%s'" % name)
        a = self.lib.value_attr(self, v, name)
        if a is not None:
            return a
        if isinstance(v, (Sym, int, str, bytes, tuple, bool, Fraction, PyList, PyDict, PySet, SymSeq, SymMap, BitSet, Closure, FuncVal, Bound)):
            if isinstance(v, (Closure, FuncVal)) and name == '_event':
                pass
            real = {'str': str, 'bytes': bytes, 'int': int, 'bool': bool, 'real': float, 'list': list, 'dict': dict, 'set': set,
                    'tuple': tuple}.get(ops.pytype(v))
            if real is not None and hasattr(real, name):
                # a real attribute of the python type that the engine has no model for: undecided, never an AttributeError
                raise Unsupported('%s.%s is not modelled' % (real.__name__, name))
            self.ctx.raise_exc('AttributeError', '%s has no attribute %s' % (ops.pytype(v), name))
        if isinstance(v, BuiltinType):
            import builtins as _bi
            real = getattr(_bi, v.name, None)
            if real is not None and not hasattr(real, name):
                self.ctx.raise_exc('AttributeError', "type object '%s' has no attribute '%s'" % (v.name, name))
        raise Unsupported('attribute %s of %r' % (name, v))

    def super_attr(self, sp, name):
        start = sp.start
        recv_cls = sp.recv_cls
        if recv_cls is not None:
            mro = recv_cls.mro()
            idx = mro.index(start) if start in mro else -1
            for c in mro[idx + 1:]:
                c.ensure_evaluated()
                if name in c.methods:
                    m = c.methods[name]
                    if m.kind == 'staticmethod':
                        return FuncVal(m)
                    if name == '__new__':
                        return FuncVal(m)
                    return Bound(sp.recv, FuncVal(m))
                if name in c.class_attrs:
                    return c.class_attrs[name]
            bases = recv_cls.builtin_base_names()
        else:
            bases = []
        return self.lib.builtin_super_attr(self, sp, name, bases)

    def setattr(self, v, name, value, frame=None):
        if isinstance(v, Obj) and v.fwd is not None:
            v = v.fwd
        if isinstance(v, Obj):
            if v.frozen:
                raise Unsupported('write to a frozen (snapshot) object')
            if v.cls is not None and not getattr(self, '_raw_setattr', False):
                m = v.cls.find_method('__setattr__')
                if m is not None:
                    # the class (or a base) overrides attribute assignment: run it
                    self.call_function(m, [v, name, value], {})
                    return
            v.attrs[name] = value
            return
        if isinstance(v, SymObj):
            if v.cls is not None and v.cls.find_method('__setattr__') is not None:
                raise Unsupported('__setattr__ override on a symbolic object')
            self.state.write_field(v, name, value)
            return
        if isinstance(v, ClassVal):
            # run-time mutation of a class attribute: kept in the state
            owner = v.info
            self.state.class_over[(owner.qualname, name)] = value
            return
        if isinstance(v, Closure):
            v.attrs[name] = value
            return
        if isinstance(v, (FuncVal, Bound, Opaque)):
            raise Unsupported('setting attributes on functions')
        if v is None:
            self.ctx.raise_exc('AttributeError', "'NoneType' object has no attribute '%s'" % name)
        raise Unsupported('setattr on %r' % (v,))

    def fill_unknown_attrs(self, o):
        """attributes that the class's constructor initialises with a literal number / bool but that the sidecar's pre-state
        does not know (the source is ahead of the sidecar): in an arbitrary history they hold an ARBITRARY value of that type.
        They are exempt from frame (modifies) clauses - the explicit clauses decide what must not change."""
        cls = o.cls
        if cls is None:
            return
        found = {}
        for c in cls.mro():
            m = c.methods.get('__init__') if hasattr(c, 'methods') else None
            if m is None:
                continue
            for n in ast.walk(m.node):
                tgt, val = None, None
                if isinstance(n, ast.Assign) and len(n.targets) == 1:
                    tgt, val = n.targets[0], n.value
                elif isinstance(n, (ast.AugAssign, ast.AnnAssign)):
                    tgt, val = n.target, None
                if not (isinstance(tgt, ast.Attribute) and isinstance(tgt.value, ast.Name) and tgt.value.id == 'self'):
                    continue
                kind = None
                if isinstance(val, ast.UnaryOp) and isinstance(val.op, ast.USub):
                    val = val.operand
                if isinstance(val, ast.Constant) and isinstance(val.value, (bool, int, float)):
                    kind = 'bool' if isinstance(val.value, bool) else ('int' if isinstance(val.value, int) else 'real')
                found.setdefault(tgt.attr, []).append(kind)
        for name, kinds in found.items():
            if name in o.attrs or None in kinds or len(set(kinds)) != 1:
                continue
            sort = {'bool': z3.BoolSort(), 'int': z3.IntSort(), 'real': z3.RealSort()}[kinds[0]]
            v = Sym(z3.Const('unknown_%s_%s' % (cls.name, name), sort), kinds[0])
            o.attrs[name] = v
            self.ctx.inputs['unknown_%s_%s' % (cls.name, name)] = v
            self.unknown_attrs.add((id(o), name))
            self.ctx.lib_used.add('attribute %s.%s is initialised by the constructor but unknown to the sidecar contract: it holds an arbitrary %s and is exempt from frame clauses' % (cls.name, name, kinds[0]))

    def raw_setattr(self, v, name, value):
        """object.__setattr__: stores the attribute without consulting an override"""
        prev = getattr(self, '_raw_setattr', False)
        self._raw_setattr = True
        try:
            self.setattr(v, name, value)
        finally:
            self._raw_setattr = prev

    # ------------------------------------------------------------------ truthiness & booleans
    def truth(self, v):
        if isinstance(v, Sym) and v.ty == 'str' and not z3.is_seq(v.t):
            # a string of the opaque sort: true iff it has at least one character (through the contract's len() model)
            hk = self.hooks.get('str.len')
            if hk is None:
                raise Unsupported('truth value of an opaque string')
            return ops.compare('Gt', hk(self, v), 0, self.ctx)
        r = ops.truth_basic(v)
        if r is not NotImplemented:
            return r
        if hasattr(v, 'pv_truth'):
            return v.pv_truth(self)
        if any(hasattr(v, a) for a in ('pv_getattr', 'pv_call', 'pv_key', 'pv_type')):
            return True           # an object of a class without __bool__/__len__
        if isinstance(v, (Obj, SymObj)):
            cls = v.cls
            if cls is not None:
                m = cls.find_method('__bool__')
                if m is not None:
                    return self.truth(self.call(Bound(v, FuncVal(m)), [], {}))
                m = cls.find_method('__len__')
                if m is not None:
                    n = self.call(Bound(v, FuncVal(m)), [], {})
                    return ops.compare('NotEq', n, 0)
            return True
        raise Unsupported('truthiness of %r' % (v,))

    def branch_on(self, v):
        return self.ctx.branch(self.truth(v))

    # ------------------------------------------------------------------ expressions
    def eval(self, node, frame):
        m = getattr(self, 'e_' + node.__class__.__name__, None)
        if m is None:
            raise Unsupported('expression %s' % node.__class__.__name__)
        return m(node, frame)

    def e_Constant(self, node, frame):
        v = node.value
        if isinstance(v, float):
            return frac(v)
        if v is Ellipsis:
            raise Unsupported('Ellipsis')
        return v

    def e_Name(self, node, frame):
        return self.lookup_name(node.id, frame)

    def e_Attribute(self, node, frame):
        v = self.eval(node.value, frame)
        return self.getattr(v, node.attr, frame)

    def e_Tuple(self, node, frame):
        out = []
        for e in node.elts:
            if isinstance(e, ast.Starred):
                out.extend(self.iter_concrete(self.eval(e.value, frame)))
            else:
                out.append(self.eval(e, frame))
        return tuple(out)

    def e_List(self, node, frame):
        out = []
        for e in node.elts:
            if isinstance(e, ast.Starred):
                out.extend(self.iter_concrete(self.eval(e.value, frame)))
            else:
                out.append(self.eval(e, frame))
        return PyList(out)

    def e_Set(self, node, frame):
        return self.lib.make_set(self, [self.eval(e, frame) for e in node.elts])

    def e_Dict(self, node, frame):
        d = PyDict()
        for k, v in zip(node.keys, node.values):
            if k is None:
                raise Unsupported('dict unpacking')
            self.setitem(d, self.eval(k, frame), self.eval(v, frame))
        return d

    def e_JoinedStr(self, node, frame):
        for v in node.values:
            if isinstance(v, ast.FormattedValue):
                self.eval(v.value, frame)
        return OPAQUE_STR

    def e_Lambda(self, node, frame):
        defaults = [self.eval(d, frame) for d in node.args.defaults]
        return Closure(node, frame, frame.module, defaults, '<lambda>')

    def e_IfExp(self, node, frame):
        c = self.truth(self.eval(node.test, frame))
        if isinstance(c, bool):
            return self.eval(node.body if c else node.orelse, frame)
        # try a pure merge
        try:
            self.ctx.pure += 1
            try:
                a = self.eval(node.body, frame)
                b = self.eval(node.orelse, frame)
                if self._mergeable(a, b):
                    return ops.ite(c, a, b)
            finally:
                self.ctx.pure -= 1
        except (NeedFork, Unsupported):
            pass
        if self.ctx.branch(c):
            return self.eval(node.body, frame)
        return self.eval(node.orelse, frame)

    def _mergeable(self, a, b):
        ta, tb = ops.pytype(a), ops.pytype(b)
        num = ('int', 'bool', 'real')
        if ta in num and tb in num:
            return True
        return ta == tb and ta in ('bytes', 'str') and not isinstance(a, OpaqueStr) and not isinstance(b, OpaqueStr)

    def e_UnaryOp(self, node, frame):
        v = self.eval(node.operand, frame)
        if isinstance(node.op, ast.Not):
            return ops.neg(self.truth(v))
        if isinstance(node.op, ast.USub):
            return ops.binop('Sub', 0, v, self.ctx)
        if isinstance(node.op, ast.UAdd):
            return v
        if isinstance(node.op, ast.Invert):
            c = ops.const_int(v)
            if c is not None:
                return ~c
            return ops.binop('Sub', -1, v, self.ctx)
        raise Unsupported('unary op')

    def e_BoolOp(self, node, frame):
        is_and = isinstance(node.op, ast.And)
        vals = node.values
        cur = self.eval(vals[0], frame)
        for nxt in vals[1:]:
            c = self.truth(cur)
            if isinstance(c, bool):
                if c != is_and:
                    return cur          # short circuit
                cur = self.eval(nxt, frame)
                continue
            # symbolic: try to evaluate the rest purely and merge as booleans
            merged = None
            if ops.pytype(cur) == 'bool':
                try:
                    self.ctx.pure += 1
                    try:
                        nv = self.eval(nxt, frame)
                        tn = self.truth(nv)
                        if ops.pytype(nv) == 'bool':
                            merged = ops.and_(c, tn) if is_and else ops.or_(c, tn)
                    finally:
                        self.ctx.pure -= 1
                except (NeedFork, Unsupported):
                    merged = None
            if merged is not None:
                cur = merged
                continue
            if self.ctx.branch(c) != is_and:
                return cur
            cur = self.eval(nxt, frame)
        return cur

    def e_Compare(self, node, frame):
        left = self.eval(node.left, frame)
        result = True
        for i, (op, rn) in enumerate(zip(node.ops, node.comparators)):
            right = self.eval(rn, frame)
            r = self.compare(op.__class__.__name__, left, right)
            if len(node.ops) == 1:
                return r
            c = self.truth(r)
            result = ops.and_(result, c)
            if result is False:
                return False
            left = right
        return result

    def compare(self, opname, a, b):
        if opname in ('In', 'NotIn'):
            r = self.contains(b, a)
            return r if opname == 'In' else ops.neg(self.truth(r))
        if opname in ('Is', 'IsNot'):
            return ops.compare(opname, a, b, self.ctx)
        # user-defined rich comparison
        dunder = {'Eq': '__eq__', 'NotEq': '__ne__', 'Lt': '__lt__', 'LtE': '__le__', 'Gt': '__gt__', 'GtE': '__ge__'}[opname]
        refl = {'Eq': '__eq__', 'NotEq': '__ne__', 'Lt': '__gt__', 'LtE': '__ge__', 'Gt': '__lt__', 'GtE': '__le__'}[opname]
        ca, cb = self.class_of(a), self.class_of(b)
        if ca is not None:
            m = ca.find_method(dunder)
            if m is not None:
                return self.call(Bound(a, FuncVal(m)), [b], {})
        if cb is not None:
            m = cb.find_method(refl)
            if m is not None:
                return self.call(Bound(b, FuncVal(m)), [a], {})
        if opname in ('Lt', 'LtE', 'Gt', 'GtE') and (isinstance(a, (Obj, SymObj)) or isinstance(b, (Obj, SymObj))):
            self.ctx.raise_exc('TypeError', 'unorderable')
        if opname == 'NotEq' and (ca is not None or cb is not None):
            # python derives != from __eq__ when only __eq__ is defined
            for x, y, c in ((a, b, ca), (b, a, cb)):
                if c is not None:
                    m = c.find_method('__eq__')
                    if m is not None:
                        return ops.neg(self.truth(self.call(Bound(x, FuncVal(m)), [y], {})))
        return ops.compare(opname, a, b, self.ctx)

    def contains(self, container, item):
        return self.lib.contains(self, container, item)

    def e_BinOp(self, node, frame):
        a = self.eval(node.left, frame)
        b = self.eval(node.right, frame)
        return self.binop(node.op.__class__.__name__, a, b)

    _DUNDER = {'Add': '__add__', 'Sub': '__sub__', 'Mult': '__mul__', 'FloorDiv': '__floordiv__', 'Mod': '__mod__',
               'Div': '__truediv__', 'BitAnd': '__and__', 'BitOr': '__or__', 'BitXor': '__xor__',
               'LShift': '__lshift__', 'RShift': '__rshift__', 'Pow': '__pow__'}

    def binop(self, opname, a, b):
        if opname == 'Mult' and isinstance(a, PyList) and len(a.items) == 1 and ops.const_int(b) is None and ops.pytype(b) == 'int':
            return self.lib.repeat_list(self, a.items[0], b)
        ca = self.class_of(a)
        if ca is not None:
            m = ca.find_method(self._DUNDER[opname])
            if m is not None:
                return self.call(Bound(a, FuncVal(m)), [b], {})
        cb = self.class_of(b)
        if cb is not None and not (isinstance(a, (Obj, SymObj))):
            m = cb.find_method('__r' + self._DUNDER[opname][2:])
            if m is not None:
                return self.call(Bound(b, FuncVal(m)), [a], {})
        if isinstance(a, (Obj, SymObj)) or isinstance(b, (Obj, SymObj)):
            self.ctx.raise_exc('TypeError', 'unsupported operand types')
        r = ops.binop(opname, a, b, self.ctx)
        return r

    def e_Subscript(self, node, frame):
        v = self.eval(node.value, frame)
        k = self.eval_slice(node.slice, frame)
        return self.getitem(v, k)

    def eval_slice(self, s, frame):
        if isinstance(s, ast.Slice):
            lo = self.eval(s.lower, frame) if s.lower is not None else None
            hi = self.eval(s.upper, frame) if s.upper is not None else None
            st = self.eval(s.step, frame) if s.step is not None else None
            return slice(lo, hi, st)
        return self.eval(s, frame)

    def getitem(self, v, k):
        return self.lib.getitem(self, v, k)

    def setitem(self, v, k, val):
        return self.lib.setitem(self, v, k, val)

    def delitem(self, v, k):
        return self.lib.delitem(self, v, k)

    def e_Call(self, node, frame):
        # super() without arguments
        if isinstance(node.func, ast.Name) and node.func.id == 'super' and 'super' not in frame.locals:
            return self.make_super(node, frame)
        fn = self.eval(node.func, frame)
        args = []
        for a in node.args:
            if isinstance(a, ast.Starred):
                args.extend(self.iter_concrete(self.eval(a.value, frame)))
            else:
                args.append(self.eval(a, frame))
        kwargs = {}
        for kw in node.keywords:
            if kw.arg is None:
                d = self.eval(kw.value, frame)
                if isinstance(d, PyDict):
                    for kk, vv in zip(d.keys, d.vals):
                        kwargs[kk] = vv
                else:
                    raise Unsupported('**kwargs of symbolic shape')
            else:
                kwargs[kw.arg] = self.eval(kw.value, frame)
        r = self.call(fn, args, kwargs, node=node, frame=frame)
        hk = self.hooks.get('after-call:' + ast.unparse(node.func))
        if hk is not None:
            hk(self, frame, args, r)
        return r

    def make_super(self, node, frame):
        if node.args:
            a0 = self.eval(node.args[0], frame)
            a1 = self.eval(node.args[1], frame)
            start = a0.info
            if isinstance(a1, ClassVal):
                return SuperProxy(start, a1, a1.info)
            return SuperProxy(start, a1, self.class_of(a1))
        f = frame
        while f is not None and f.cls is None:
            f = f.parent
        if f is None:
            raise Unsupported('super() outside a method')
        # first positional parameter of the method
        fnode = f.func.node if isinstance(f.func, (loader.FuncInfo, Closure)) else None
        first = fnode.args.args[0].arg
        recv = f.locals[first]
        if isinstance(recv, ClassVal):
            return SuperProxy(f.cls, recv, recv.info)
        return SuperProxy(f.cls, recv, self.class_of(recv))

    def e_ListComp(self, node, frame):
        hk = self.hooks.get('comprehension:' + ast.unparse(node))
        if hk is not None:
            return hk(self, frame, node)
        return PyList(self._comp(node, frame, lambda fr: self.eval(node.elt, fr)))

    def e_GeneratorExp(self, node, frame):
        return PyList(self._comp(node, frame, lambda fr: self.eval(node.elt, fr)))

    def e_SetComp(self, node, frame):
        return self.lib.make_set(self, self._comp(node, frame, lambda fr: self.eval(node.elt, fr)))

    def e_DictComp(self, node, frame):
        pairs = self._comp(node, frame, lambda fr: (self.eval(node.key, fr), self.eval(node.value, fr)))
        d = PyDict()
        for k, v in pairs:
            self.setitem(d, k, v)
        return d

    def _comp(self, node, frame, produce):
        hk = self.hooks.get('comprehension:' + ast.unparse(node))
        if hk is not None:
            return hk(self, frame, node)
        out = []
        fr = Frame(frame.func, frame.module, frame.cls, frame, name='<comp>')

        def rec(gi):
            if gi == len(node.generators):
                out.append(produce(fr))
                return
            g = node.generators[gi]
            it = self.eval(g.iter, fr if gi else frame)
            for x in self.iter_concrete(it):
                self.assign(g.target, x, fr)
                ok = True
                for cond in g.ifs:
                    if not self.branch_on(self.eval(cond, fr)):
                        ok = False
                        break
                if ok:
                    rec(gi + 1)
        rec(0)
        return out

    def iter_concrete(self, v):
        """iterate a value of concrete shape"""
        r = self.lib.iter_concrete(self, v)
        if r is None:
            raise Unsupported('iteration over a value of symbolic shape without a loop invariant: %r' % (v,))
        return r

    # ------------------------------------------------------------------ calls
    def call(self, fn, args, kwargs, node=None, frame=None):
        if isinstance(fn, Bound):
            if isinstance(fn.func, (FuncVal, Closure)):
                return self.call(fn.func, [fn.recv] + list(args), kwargs, node, frame)
            if isinstance(fn.func, Builtin):
                return fn.func.fn(self, fn.recv, *args, **kwargs)
            raise Unsupported('bound call of %r' % (fn.func,))
        if isinstance(fn, FuncVal):
            return self.call_function(fn.info, args, kwargs)
        if isinstance(fn, Closure):
            return self.call_closure(fn, args, kwargs)
        if isinstance(fn, Builtin):
            return fn.fn(self, *args, **kwargs)
        if isinstance(fn, ClassVal):
            return self.instantiate(fn.info, args, kwargs)
        if isinstance(fn, BuiltinType):
            return self.lib.call_builtin_type(self, fn, args, kwargs)
        if isinstance(fn, Opaque):
            return self.lib.call_opaque(self, fn, args, kwargs)
        if isinstance(fn, SymFn):
            return self.lib.call_symfn(self, fn, args, kwargs)
        if hasattr(fn, 'pv_call'):
            return fn.pv_call(self, args, kwargs)
        if isinstance(fn, (Obj, SymObj)):
            m = fn.cls.find_method('__call__') if fn.cls is not None else None
            if m is not None:
                return self.call_function(m, [fn] + list(args), kwargs)
            self.ctx.raise_exc('TypeError', 'object is not callable')
        if fn is None or isinstance(fn, (int, str, bytes, Sym, tuple, Fraction)):
            self.ctx.raise_exc('TypeError', '%s object is not callable' % ops.pytype(fn))
        raise Unsupported('call of %r' % (fn,))

    def bind_args(self, argspec, args, kwargs, defaults, kw_defaults, fr, name):
        params = [a.arg for a in argspec.posonlyargs + argspec.args]
        n = len(params)
        args = list(args)
        kwargs = dict(kwargs)
        if len(args) > n and argspec.vararg is None:
            self.ctx.raise_exc('TypeError', '%s() takes %d positional arguments but %d were given' % (name, n, len(args)))
        for p, a in zip(params, args):
            fr.locals[p] = a
        if argspec.vararg is not None:
            fr.locals[argspec.vararg.arg] = tuple(args[n:])
        nd = len(defaults)
        for i, p in enumerate(params):
            if i < len(args):
                if p in kwargs:
                    self.ctx.raise_exc('TypeError', 'multiple values for argument %s' % p)
                continue
            if p in kwargs:
                fr.locals[p] = kwargs.pop(p)
            elif i >= n - nd:
                fr.locals[p] = defaults[i - (n - nd)]
            else:
                self.ctx.raise_exc('TypeError', '%s() missing required argument %s' % (name, p))
        for a, d in zip(argspec.kwonlyargs, kw_defaults):
            if a.arg in kwargs:
                fr.locals[a.arg] = kwargs.pop(a.arg)
            elif d is not None:
                fr.locals[a.arg] = d
            else:
                self.ctx.raise_exc('TypeError', 'missing keyword-only argument %s' % a.arg)
        if argspec.kwarg is not None:
            d = PyDict()
            for k, v in kwargs.items():
                d.keys.append(k)
                d.vals.append(v)
            fr.locals[argspec.kwarg.arg] = d
        elif kwargs:
            self.ctx.raise_exc('TypeError', '%s() got an unexpected keyword argument %s' % (name, list(kwargs)[0]))

    def func_defaults(self, info):
        if not hasattr(info, '_defaults'):
            fr = Frame(None, info.module, info.cls, name='<defaults>')
            info._defaults = [self.eval(d, fr) for d in info.node.args.defaults]
            info._kw_defaults = [self.eval(d, fr) if d is not None else None for d in info.node.args.kw_defaults]
        return info._defaults, info._kw_defaults

    def call_function(self, info, args, kwargs, force_body=False):
        if not force_body and info.qualname in self.contracts and (info.qualname != self.verifying or self.in_body):
            # (a recursive call of the function under verification uses its own contract: induction)
            from . import modular
            self.contract_log.add(info.qualname)
            return modular.apply_contract(self, self.contracts[info.qualname], info, args, kwargs)
        model = None
        if info.qualname != self.verifying or self.in_body:
            model = self.hooks.get('model:' + info.qualname)      # a contract's own model takes precedence over the library's
            if model is not None:
                self.ctx.lib_used.add('assumed model of %s supplied by the contract of %s' % (info.qualname, self.verifying))
        if model is None:
            model = self.lib.function_model(info.qualname)
        if model is not None and not force_body:
            return model(self, *args, **kwargs)
        if info.qualname != self.verifying:
            self.inline_log.add(info.qualname)
        return self.run_body(info, args, kwargs)

    def run_body(self, info, args, kwargs, frame_cb=None):
        if self.call_depth > self.max_depth:
            raise Unsupported('call depth exceeded (recursion without a contract?) at %s' % info.qualname)
        fr = Frame(info, info.module, info.cls, None, info.qualname)
        fr.local_names = self._local_names(info.node)
        fr.global_names = getattr(info.node, '_globals', set())
        defaults, kw_defaults = self.func_defaults(info)
        self.bind_args(info.node.args, args, kwargs, defaults, kw_defaults, fr, info.name)
        if frame_cb is not None:
            frame_cb(fr)
        return self.run_frame(fr, info.node.body, info.is_generator)

    def _local_names(self, node):
        if not hasattr(node, '_local_names'):
            names = assigned_names(node) if not isinstance(node, ast.Lambda) else set()
            a = node.args
            for p in a.posonlyargs + a.args + a.kwonlyargs:
                names.add(p.arg)
            if a.vararg:
                names.add(a.vararg.arg)
            if a.kwarg:
                names.add(a.kwarg.arg)
            g = set()
            if not isinstance(node, ast.Lambda):
                for n in ast.walk(node):
                    if isinstance(n, (ast.Global, ast.Nonlocal)):
                        g.update(n.names)
            node._globals = g
            node._local_names = names - g
        return node._local_names

    def run_frame(self, fr, body, is_generator=False):
        self.call_depth += 1
        try:
            if is_generator:
                fr.yields = []
            try:
                self.exec_block(body, fr)
                rv = None
            except _Return as r:
                rv = r.value
            if is_generator:
                return fr.yields if isinstance(fr.yields, SymSeq) else PyList(fr.yields)
            return rv
        finally:
            self.call_depth -= 1

    def call_closure(self, clo, args, kwargs):
        node = clo.node
        fr = Frame(clo, clo.module, clo.cls if clo.cls is not None else None, clo.env, clo.name)
        fr.local_names = self._local_names(node)
        kwd = getattr(clo, 'kw_defaults', None) or [None] * len(node.args.kwonlyargs)
        self.bind_args(node.args, args, kwargs, clo.defaults, kwd, fr, clo.name)
        if isinstance(node, ast.Lambda):
            self.call_depth += 1
            try:
                if self.call_depth > self.max_depth:
                    raise Unsupported('call depth exceeded')
                return self.eval(node.body, fr)
            finally:
                self.call_depth -= 1
        is_gen = any(isinstance(n, (ast.Yield, ast.YieldFrom)) for n in ast.walk(node))
        return self.run_frame(fr, node.body, is_gen)

    def instantiate(self, info, args, kwargs):
        model = self.lib.class_model(info.qualname)
        if model is None and self.hooks.get('class:' + info.qualname) is not None:
            model = self.hooks['class:' + info.qualname]
            self.ctx.lib_used.add('assumed model of the constructor of %s supplied by the contract of %s' % (info.qualname, self.verifying))
        if model is not None:
            return model(self, info, *args, **kwargs)
        if info.is_exception():
            o = Obj(info, {'args': tuple(args)})
            return o
        new = info.find_method('__new__')
        if new is not None:
            obj = self.call_function(new, [ClassVal(info)] + list(args), kwargs)
            if not (isinstance(obj, Obj) and obj.cls is not None and obj.cls.is_subclass_of(info)):
                return obj
        else:
            bb = info.builtin_base_names()
            if any(b in ('int', 'bytes', 'str', 'float', 'tuple', 'dict', 'list', 'OrderedDict', 'type') for b in bb):
                return self.lib.instantiate_builtin_subclass(self, info, args, kwargs)
            obj = Obj(info)
        init = info.find_method('__init__')
        if init is not None and new is None and getattr(self.contracts.get(init.qualname), 'constructs', False) \
                and (init.qualname != self.verifying or self.in_body):
            # constructor under contract: the new object is a fresh reference whose fields are what the contract says
            so = self.new_symobj(info)
            self.call_function(init, [so] + list(args), kwargs)
            return so
        if init is not None:
            self.call_function(init, [obj] + list(args), kwargs)
        elif args or kwargs:
            self.ctx.raise_exc('TypeError', '%s() takes no arguments' % info.name)
        return obj

    # ------------------------------------------------------------------ statements
    def exec_block(self, body, frame):
        for st in body:
            self.exec(st, frame)

    def exec(self, node, frame):
        m = getattr(self, 's_' + node.__class__.__name__, None)
        if m is None:
            raise Unsupported('statement %s' % node.__class__.__name__)
        return m(node, frame)

    def s_Expr(self, node, frame):
        if isinstance(node.value, ast.Constant):
            return
        if isinstance(node.value, ast.Yield):
            v = self.eval(node.value.value, frame) if node.value.value is not None else None
            self._yield(frame, v)
            return
        self.eval(node.value, frame)

    def _yield(self, frame, v):
        f = frame
        while f is not None and f.yields is None:
            f = f.parent
        if f is None:
            raise Unsupported('yield outside generator')
        if isinstance(f.yields, SymSeq):
            self.lib.m_list_append(self, f.yields, v)
        else:
            f.yields.append(v)

    def e_Yield(self, node, frame):
        v = self.eval(node.value, frame) if node.value is not None else None
        self._yield(frame, v)
        return None

    def s_Pass(self, node, frame):
        pass

    def s_Global(self, node, frame):
        pass

    def s_Nonlocal(self, node, frame):
        raise Unsupported('nonlocal')

    def s_Import(self, node, frame):
        for a in node.names:
            frame.locals[(a.asname or a.name).split('.')[0]] = self.lib.external_module(a.name)

    def s_ImportFrom(self, node, frame):
        for a in node.names:
            frame.locals[a.asname or a.name] = self.resolve_import(frame.module, ('from', ('.' * node.level) + (node.module or ''), a.name))

    def s_Return(self, node, frame):
        raise _Return(self.eval(node.value, frame) if node.value is not None else None)

    def s_Break(self, node, frame):
        raise _Break()

    def s_Continue(self, node, frame):
        raise _Continue()

    def s_Assert(self, node, frame):
        if not self.branch_on(self.eval(node.test, frame)):
            self.ctx.raise_exc('AssertionError')

    def s_FunctionDef(self, node, frame):
        defaults = [self.eval(d, frame) for d in node.args.defaults]
        clo = Closure(node, frame, frame.module, defaults, node.name)
        clo_kw = [self.eval(d, frame) if d is not None else None for d in node.args.kw_defaults]
        try:
            clo.kw_defaults = clo_kw
        except AttributeError:
            pass
        val = clo
        for d in reversed(node.decorator_list):
            dec = self.eval(d, frame)
            val = self.call(dec, [val], {})
        frame.locals[node.name] = val

    def s_ClassDef(self, node, frame):
        # a class defined inside a function: its body is evaluated in module scope (closure variables unsupported)
        info = loader.ClassInfo(node.name, frame.module, node)
        frame.locals[node.name] = ClassVal(info)

    def s_Delete(self, node, frame):
        for t in node.targets:
            if isinstance(t, ast.Subscript):
                v = self.eval(t.value, frame)
                k = self.eval_slice(t.slice, frame)
                self.delitem(v, k)
            elif isinstance(t, ast.Name):
                if t.id in frame.locals:
                    del frame.locals[t.id]
                else:
                    self.ctx.raise_exc('NameError', t.id)
            elif isinstance(t, ast.Attribute):
                o = self.eval(t.value, frame)
                if isinstance(o, Obj) and t.attr in o.attrs:
                    del o.attrs[t.attr]
                else:
                    self.ctx.raise_exc('AttributeError', t.attr)
            else:
                raise Unsupported('del target')

    def assign(self, tgt, value, frame):
        if isinstance(tgt, ast.Name):
            if tgt.id in frame.global_names:
                raise Unsupported('assignment to a global')
            frame.locals[tgt.id] = value
        elif isinstance(tgt, ast.Attribute):
            o = self.eval(tgt.value, frame)
            self.setattr(o, tgt.attr, value, frame)
        elif isinstance(tgt, ast.Subscript):
            o = self.eval(tgt.value, frame)
            k = self.eval_slice(tgt.slice, frame)
            self.setitem(o, k, value)
        elif isinstance(tgt, (ast.Tuple, ast.List)):
            items = self.iter_concrete(value)
            starred = [i for i, e in enumerate(tgt.elts) if isinstance(e, ast.Starred)]
            if starred:
                raise Unsupported('starred assignment')
            if len(items) != len(tgt.elts):
                self.ctx.raise_exc('ValueError', 'unpack: expected %d values, got %d' % (len(tgt.elts), len(items)))
            for e, x in zip(tgt.elts, items):
                self.assign(e, x, frame)
        else:
            raise Unsupported('assignment target %s' % tgt.__class__.__name__)

    def s_Assign(self, node, frame):
        v = self.eval(node.value, frame)
        for t in node.targets:
            self.assign(t, v, frame)

    def s_AnnAssign(self, node, frame):
        if node.value is not None:
            self.assign(node.target, self.eval(node.value, frame), frame)

    def s_AugAssign(self, node, frame):
        t = node.target
        opname = node.op.__class__.__name__
        if isinstance(t, ast.Name):
            cur = self.lookup_name(t.id, frame)
            r = self.aug(opname, cur, self.eval(node.value, frame))
            frame.locals[t.id] = r
        elif isinstance(t, ast.Attribute):
            o = self.eval(t.value, frame)
            cur = self.getattr(o, t.attr, frame)
            r = self.aug(opname, cur, self.eval(node.value, frame))
            self.setattr(o, t.attr, r, frame)
        elif isinstance(t, ast.Subscript):
            o = self.eval(t.value, frame)
            k = self.eval_slice(t.slice, frame)
            cur = self.getitem(o, k)
            r = self.aug(opname, cur, self.eval(node.value, frame))
            self.setitem(o, k, r)
        else:
            raise Unsupported('augmented assignment target')

    def aug(self, opname, cur, val):
        if isinstance(cur, (PyList, SymSeq)) and opname == 'Add':
            self.lib.list_extend(self, cur, val)
            return cur
        ccls = self.class_of(cur)
        if ccls is not None:
            m = ccls.find_method('__i' + self._DUNDER[opname][2:])
            if m is not None:
                return self.call(Bound(cur, FuncVal(m)), [val], {})
        return self.binop(opname, cur, val)

    def s_If(self, node, frame):
        if self.branch_on(self.eval(node.test, frame)):
            self.exec_block(node.body, frame)
        else:
            self.exec_block(node.orelse, frame)

    def s_With(self, node, frame):
        for it in node.items:
            v = self.eval(it.context_expr, frame)
            if it.optional_vars is not None:
                self.assign(it.optional_vars, self.lib.enter_context(self, v), frame)
            else:
                self.lib.enter_context(self, v)
        self.exec_block(node.body, frame)

    def s_Raise(self, node, frame):
        if node.exc is None:
            exc = frame.locals.get('__active_exc__')
            f = frame
            while exc is None and f.parent is not None:
                f = f.parent
                exc = f.locals.get('__active_exc__')
            if exc is None:
                self.ctx.raise_exc('RuntimeError', 'No active exception to reraise')
            raise exc
        v = self.eval(node.exc, frame)
        raise self.to_pyexc(v)

    def to_pyexc(self, v):
        if isinstance(v, PyExc):
            return v
        if isinstance(v, Obj) and v.cls is not None and v.cls.is_exception():
            e = PyExc(v.cls.name, v.cls, v.attrs.get('args', ()))
            e.obj = v
            return e
        if isinstance(v, ClassVal) and v.info.is_exception():
            return PyExc(v.info.name, v.info, ())
        if isinstance(v, Obj) and v.cls is None and v.tag and v.tag.startswith('exc:'):
            e = PyExc(v.tag[4:], None, v.attrs.get('args', ()))
            e.obj = v
            return e
        if isinstance(v, BuiltinType):
            return PyExc(v.name, None, ())
        self.ctx.raise_exc('TypeError', 'exceptions must derive from BaseException')

    def exc_value(self, e):
        o = getattr(e, 'obj', None)
        if o is None:
            o = Obj(e.clsinfo, {'args': e.args_v}, tag='exc:' + e.name)
            e.obj = o
        return o

    def handler_matches(self, e, typenode, frame):
        if typenode is None:
            return True
        t = self.eval(typenode, frame)
        ts = t if isinstance(t, tuple) else (t,)
        anc = e.ancestors()
        for x in ts:
            if isinstance(x, BuiltinType):
                if x.name in anc:
                    return True
            elif isinstance(x, ClassVal):
                if x.info.name in anc:
                    return True
            elif isinstance(x, Opaque):
                nm = x.name.split('.')[-1]
                if nm in anc or x.name in anc:
                    return True
            else:
                raise Unsupported('except clause type %r' % (x,))
        return False

    def s_Try(self, node, frame):
        try:
            try:
                self.exec_block(node.body, frame)
            except PyExc as e:
                handled = False
                for h in node.handlers:
                    if self.handler_matches(e, h.type, frame):
                        handled = True
                        if h.name:
                            frame.locals[h.name] = self.exc_value(e)
                        prev = frame.locals.get('__active_exc__')
                        frame.locals['__active_exc__'] = e
                        try:
                            self.exec_block(h.body, frame)
                        finally:
                            if prev is None:
                                frame.locals.pop('__active_exc__', None)
                            else:
                                frame.locals['__active_exc__'] = prev
                            if h.name:
                                frame.locals.pop(h.name, None)
                        break
                if not handled:
                    raise
            else:
                self.exec_block(node.orelse, frame)
        finally:
            if node.finalbody:
                # note: runs also for PathEnd/Unsupported unwinding; harmless (state is discarded)
                import sys
                et = sys.exc_info()[0]
                if et is None or issubclass(et, (PyExc, _Return, _Break, _Continue)):
                    self.exec_block(node.finalbody, frame)

    # ---- loops
    def loop_spec(self, node, frame):
        f = frame
        while f is not None and f.contract is None:
            f = f.parent
        if f is None or f.contract is None:
            return None
        c = f.contract
        return c.loop_spec_for(node)

    def s_While(self, node, frame):
        spec = self.loop_spec(node, frame)
        if spec is not None:
            from . import loops
            return loops.while_with_invariant(self, node, frame, spec)
        n = 0
        n_sym = 0
        prev = None
        while True:
            c = self.truth(self.eval(node.test, frame))
            if not isinstance(c, bool):
                # A loop the sidecar has no invariant for (the source is ahead of the sidecar).  It is not PROVED anything about:
                # the loop is unrolled a few times to look for a refutation only - a pass through the body that provably changes
                # nothing while the guard stays true (the program never leaves the loop on that input), or a real exit path.
                # Whatever is still inside the loop after three passes is undecided, as before.
                n_sym += 1
                if prev is not None:
                    lasso = self._unchanged_since(prev, frame)
                    if lasso is not None:
                        both = ops.and_(c, lasso)
                        if both is True or (both is not False and self.ctx.branch(both)):
                            self.ctx.raise_exc('NonTermination', 'the loop at line %d repeats with an unchanged state' % node.lineno)
                if n_sym > 3:
                    raise Unsupported('while loop with a symbolic guard needs an invariant (line %d)' % node.lineno)
                if not self.ctx.branch(c):
                    self.exec_block(node.orelse, frame)
                    return
                prev = self._loop_state(frame)
                c = True
            if not c:
                self.exec_block(node.orelse, frame)
                return
            n += 1
            if n > 4096:
                raise Unsupported('concrete loop too long')
            try:
                self.exec_block(node.body, frame)
            except _Break:
                return
            except _Continue:
                continue

    # ---- lasso probe for loops without an invariant (refutation only)
    def _capture(self, v, depth, memo):
        if id(v) in memo or depth > 3:
            return ('ref', v)
        if isinstance(v, Obj):
            memo.add(id(v))
            return ('obj', v, {k: self._capture(x, depth + 1, memo) for k, x in v.attrs.items()})
        if isinstance(v, PyList):
            memo.add(id(v))
            return ('list', v, [self._capture(x, depth + 1, memo) for x in v.items])
        if hasattr(v, 'buf') and hasattr(v, 'pos') and hasattr(v, 'm_read'):
            memo.add(id(v))
            return ('bio', v, v.buf, v.pos)
        if isinstance(v, (PyDict, PySet, SymSeq, SymMap, SymObj)):
            return ('opaque', v)
        return ('leaf', v)

    def _loop_state(self, frame):
        memo = set()
        return {'locals': {k: self._capture(v, 0, memo) for k, v in frame.locals.items()},
                'nondet': (getattr(self.ctx, 'n_nondet', 0), self.ctx.counter),
                'class_over': dict(self.state.class_over), 'fields': dict(self.state.fields), 'events': len(self.state.events)}

    def _same(self, cap, v):
        """-> True / False / z3-backed Sym bool / None (cannot tell)"""
        kind = cap[0]
        if kind == 'ref':
            return True if cap[1] is v else None
        if kind == 'opaque':
            return None
        if kind == 'leaf':
            a = cap[1]
            if a is v:
                return True
            if isinstance(a, (Sym, bool, int, bytes, str, Fraction)) or a is None:
                if isinstance(v, (Sym, bool, int, bytes, str, Fraction)) or v is None:
                    if ops.pytype(a) != ops.pytype(v):
                        return False
                    try:
                        return ops.equal(a, v)
                    except Unsupported:
                        return None
            return None
        if cap[1] is not v:
            return None
        if kind == 'obj':
            if set(cap[2]) != set(v.attrs):
                return False
            g = True
            for k, c in cap[2].items():
                r = self._same(c, v.attrs[k])
                if r is None:
                    return None
                g = ops.and_(g, r)
            return g
        if kind == 'list':
            if len(cap[2]) != len(v.items):
                return False
            g = True
            for c, x in zip(cap[2], v.items):
                r = self._same(c, x)
                if r is None:
                    return None
                g = ops.and_(g, r)
            return g
        if kind == 'bio':
            try:
                return ops.and_(ops.equal(cap[2], v.buf), ops.equal(cap[3], v.pos))
            except Unsupported:
                return None
        return None

    def _unchanged_since(self, prev, frame):
        """a condition under which the state the loop can read is what it was at the previous loop head (None: cannot tell,
        or the pass was not deterministic / had visible effects)"""
        if prev['nondet'] != (getattr(self.ctx, 'n_nondet', 0), self.ctx.counter):
            return None             # a model made a choice or introduced an unconstrained value: the next pass may differ
        if prev['events'] != len(self.state.events):
            return None
        if prev['class_over'] != self.state.class_over or set(prev['fields']) != set(self.state.fields) \
                or any(self.state.fields[k] is not v for k, v in prev['fields'].items()):
            return None
        g = True
        for k, cap in prev['locals'].items():
            if k not in frame.locals:
                return None
            r = self._same(cap, frame.locals[k])
            if r is None:
                return None
            g = ops.and_(g, r)
        return g

    def s_For(self, node, frame):
        spec = self.loop_spec(node, frame)
        it = self.eval(node.iter, frame)
        if spec is not None:
            from . import loops
            return loops.for_with_invariant(self, node, frame, spec, it)
        items = self.lib.iter_concrete(self, it)
        if items is None:
            raise Unsupported('for loop over a value of symbolic shape needs an invariant (line %d): %r' % (node.lineno, it))
        for x in list(items):
            self.assign(node.target, x, frame)
            try:
                self.exec_block(node.body, frame)
            except _Break:
                return
            except _Continue:
                continue
        self.exec_block(node.orelse, frame)


# ---------------------------------------------------------------------------------------------
# class bodies: constants are evaluated from the real class body, in source order, on every run

_CLASS_EVAL_CTX = None


def _class_interp():
    global _CLASS_EVAL_CTX
    if _CLASS_EVAL_CTX is None:
        _CLASS_EVAL_CTX = Interp(Ctx())
    return _CLASS_EVAL_CTX


def evaluate_class_body(info):
    ip = _class_interp()
    fr = Frame(None, info.module, info, name='<class %s>' % info.name)
    for name, vnode in info.attr_nodes:
        try:
            v = ip.eval(vnode, fr)
        except (Unsupported, PyExc) as e:
            v = Opaque('%s.%s' % (info.name, name))
        if isinstance(v, Closure):
            v.cls = info     # a lambda stored in a class body acts as a method
        fr.locals[name] = v
        info.class_attrs[name] = v
    ip.lib.class_postprocess(ip, info)
