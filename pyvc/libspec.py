"""Assumed contracts on dependencies (trusted base, printed in every evidence file):
struct, os, time, io.BytesIO, logging, binascii/crc32, the cryptographic idealisations."""
import struct as _struct
import z3
from fractions import Fraction
from .values import *
from . import ops
from .lib import lib_module, repo_function_model, repo_class_model, used, ByteArray
from .ctx import PyExc

# ------------------------------------------------------------------------------------------ struct

FIELD = {  # code -> (size, lo, hi)
    'B': (1, 0, 255), 'b': (1, -128, 127), 'H': (2, 0, 65535), 'h': (2, -32768, 32767),
    'L': (4, 0, 2 ** 32 - 1), 'l': (4, -2 ** 31, 2 ** 31 - 1), 'I': (4, 0, 2 ** 32 - 1), 'i': (4, -2 ** 31, 2 ** 31 - 1),
    'Q': (8, 0, 2 ** 64 - 1), 'q': (8, -2 ** 63, 2 ** 63 - 1), '?': (1, 0, 1), 'f': (4, None, None), 'd': (8, None, None),
}
_CANON = {'I': 'L', 'i': 'l'}


def parse_format(ip, fmt):
    if not isinstance(fmt, str):
        raise Unsupported('symbolic struct format')
    f = fmt
    if f and f[0] in '><!=@':
        if f[0] in '=@' and any(c not in 'Bb?s0123456789x' for c in f[1:]):
            raise Unsupported('native struct alignment')
        f = f[1:]
    elif any(c not in 'Bb?s0123456789x' for c in f):
        raise Unsupported('native struct alignment for %r' % fmt)
    out = []
    num = ''
    for c in f:
        if c.isdigit():
            num += c
            continue
        n = int(num) if num else 1
        num = ''
        if c == 's':
            out.append(('s', n))
        elif c == 'x':
            out.append(('x', n))
        elif c in FIELD:
            for _ in range(n):
                out.append((_CANON.get(c, c), FIELD[c][0]))
        else:
            raise Unsupported('struct code %s' % c)
    return out


def pk_fn(code):
    return z3.Function('pk_' + code, IntSort if code not in 'fd' else RealSort, BytesSort)


def upk_fn(code):
    return z3.Function('upk_' + code, BytesSort, IntSort if code not in 'fd' else RealSort)


def pack_field(ip, code, v):
    """bytes term of one packed integer field (range already checked)"""
    size, lo, hi = FIELD[code]
    if code in 'B?':
        c = ops.const_int(v)
        if c is not None:
            t = z3.Unit(z3.BitVecVal(c, 8))
            return t
        t = z3.Unit(z3.Int2BV(ops.term(v, 'int'), 8))
        ops.set_len(t, 1)
        ops.PACKED_BYTE[z3.simplify(t).get_id()] = (code, ops.term(v, 'int'))
        ops._KEEP.append(z3.simplify(t))
        return t
    if code == 'b':
        x = ops.term(v, 'int')
        t = z3.Unit(z3.Int2BV(z3.If(x < 0, x + 256, x), 8))
        ops.set_len(t, 1)
        ops.PACKED_BYTE[z3.simplify(t).get_id()] = (code, x)
        ops._KEEP.append(z3.simplify(t))
        return t
    x = ops.term(v, 'real' if code in 'fd' else 'int')
    t = pk_fn(code)(x)
    ops.set_len(t, size)
    # instantiated axioms: length and left inverse
    ip.ctx.assume(z3.Length(t) == size)
    if code == 'f':
        # float32 rounding: upk(pk(x)) = f32(x), idempotent
        f32 = z3.Function('f32', RealSort, RealSort)
        ip.ctx.assume(upk_fn(code)(t) == f32(x))
        ip.ctx.assume(f32(f32(x)) == f32(x))
    else:
        ip.ctx.assume(upk_fn(code)(t) == x)
    return t


def unpack_field(ip, code, t):
    size, lo, hi = FIELD[code]
    pb = ops.PACKED_BYTE.get(z3.simplify(t).get_id())
    if pb is not None and pb[0] == code and code in 'Bb':
        return ops.concretize(Sym(pb[1], 'int'))        # unpack(pack(v)) = v for a value that passed the range check on this path
    if code in 'B?':
        r = z3.BV2Int(t[0])
        if code == '?':
            return ops.sbool(r != 0)
        s = Sym(r, 'int')
        return ops.concretize(s)
    if code == 'b':
        r = z3.BV2Int(t[0])
        return ops.concretize(Sym(z3.If(r >= 128, r - 256, r), 'int'))
    t = z3.simplify(t)
    if z3.is_app(t) and t.decl().name() == 'pk_' + code and code not in 'fd':
        # unpack(pack(v)) = v, applied as a rewrite (v passed the range check when it was packed)
        return ops.concretize(Sym(t.children()[0], 'int'))
    r = upk_fn(code)(t)
    if code in 'fd':
        if code == 'f':
            f32 = z3.Function('f32', RealSort, RealSort)
            ip.ctx.assume(f32(r) == r)
        return Sym(r, 'real')
    ip.ctx.assume(z3.And(r >= lo, r <= hi))
    ops.declare_bounds(r, lo, hi)
    # right inverse (bijection between the range and the byte strings of that size)
    ip.ctx.assume(pk_fn(code)(r) == t)
    return Sym(r, 'int')


def struct_pack(ip, fmt, *args):
    used(ip, 'struct.pack/unpack: per-field pk/upk bijection, length, range check -> struct.error (big-endian formats)')
    fields = parse_format(ip, fmt)
    vals = list(args)
    nvals = sum(1 for c, n in fields if c != 'x')
    if len(vals) != nvals:
        ip.ctx.raise_exc('struct.error', 'pack expected %d items for packing (got %d)' % (nvals, len(vals)))
    if all(_is_plain(v) for v in vals):
        try:
            return _struct.pack(fmt, *[_plain(v) for v in vals])
        except _struct.error:
            ip.ctx.raise_exc('struct.error', 'pack')
        except TypeError:
            ip.ctx.raise_exc('struct.error', 'pack type')
    parts = []
    it = iter(vals)
    for code, n in fields:
        if code == 'x':
            parts.append(ops.bytes_lit(b'\x00' * n))
            continue
        v = next(it)
        if code == 's':
            if ops.pytype(v) != 'bytes':
                ip.ctx.raise_exc('struct.error', "argument for 's' must be a bytes object")
            if isinstance(v, bytes):
                b = v[:n].ljust(n, b'\x00')
                parts.append(ops.bytes_lit(b))
            else:
                L = ops.blen(v.t)
                # exact length required by the model (padding/truncation of symbolic bytes is not modelled)
                if not ip.ctx.branch(ops.sbool(L == n)):
                    raise Unsupported("struct 's' field with a symbolic length different from the field width")
                ops.set_len(v.t, n)
                parts.append(v.t)
            continue
        size, lo, hi = FIELD[code]
        if isinstance(v, BitSet):
            # a bit set packed as an unsigned field: value kept abstract through bs2int
            raise Unsupported('packing a bit set (convert through the header model)')
        ty = ops.pytype(v)
        if code in 'fd':
            if ty not in ('int', 'real', 'bool'):
                ip.ctx.raise_exc('struct.error', 'required argument is not a float')
            parts.append(pack_field(ip, code, v))
            continue
        if code == '?':
            tr = ip.truth(v)
            parts.append(pack_field(ip, 'B', ops.ite(tr, 1, 0) if not isinstance(tr, bool) else int(tr)))
            continue
        if ty not in ('int', 'bool'):
            ip.ctx.raise_exc('struct.error', 'required argument is not an integer')
        x = ops.term(v, 'int')
        ip.ctx.raise_if(ops.sbool(z3.Or(x < lo, x > hi)), 'struct.error', 'argument out of range')
        parts.append(pack_field(ip, code, v))
    return Sym(ops.mk_concat(parts), 'bytes')


def _is_plain(v):
    return isinstance(v, (int, bool, bytes, Fraction)) and not isinstance(v, Sym)


def _plain(v):
    if isinstance(v, Fraction):
        return float(v)
    return v


def struct_calcsize(ip, fmt):
    return _struct.calcsize(fmt)


def struct_unpack(ip, fmt, data):
    used(ip, 'struct.pack/unpack: per-field pk/upk bijection, length, range check -> struct.error (big-endian formats)')
    fields = parse_format(ip, fmt)
    total = sum(n for c, n in fields)
    if isinstance(data, SymSeq) and data.tag == 'bytearray':
        raise Unsupported('struct.unpack of a bytearray')
    if ops.pytype(data) != 'bytes':
        ip.ctx.raise_exc('TypeError', 'a bytes-like object is required')
    data = ops.concretize_bytes(data)
    if isinstance(data, bytes):
        try:
            r = _struct.unpack(fmt, data)
        except _struct.error:
            ip.ctx.raise_exc('struct.error', 'unpack requires a buffer of %d bytes' % total)
        return tuple(Fraction(repr(x)) if isinstance(x, float) else x for x in r)
    n = ops.bytes_len(data)
    ip.ctx.raise_if(ops.compare('NotEq', n, total), 'struct.error', 'unpack requires a buffer of %d bytes' % total)
    if ops.known_len(data.t) is None and len(ops.flat_chunks(data.t)) == 1:
        ops.set_len(data.t, total)        # established on this path just now (registries are per path)
    out = []
    pos = 0
    for code, sz in fields:
        piece = ops.seq_slice_term(data.t, pos, pos + sz)
        pos += sz
        if code == 'x':
            continue
        if code == 's':
            ops.set_len(piece, sz) if ops.known_len(piece) is None else None
            out.append(Sym(piece, 'bytes'))
            continue
        out.append(unpack_field(ip, code, piece))
    return tuple(out)


@lib_module('struct')
class _StructMod:
    pack = struct_pack
    unpack = struct_unpack
    calcsize = struct_calcsize
    error = BuiltinType.get('struct.error')


# ------------------------------------------------------------------------------------------ os / time / misc

def os_urandom(ip, n):
    used(ip, 'os.urandom(n): returns SOME bytes of length n (havoc), never assumed random')
    hk = ip.hooks.get('os.urandom')
    if hk is not None:
        return hk(ip, n)
    t = ip.ctx.fresh('urandom', BytesSort)
    nt = ops.term(n, 'int')
    ip.ctx.raise_if(ops.sbool(nt < 0), 'ValueError', 'negative argument not allowed')
    c = ops.const_int(n)
    if c is not None:
        ops.set_len(t, c)
        ip.ctx.assume(z3.Length(t) == c)
    else:
        ops.set_len_term(t, nt)
    return Sym(t, 'bytes')


@lib_module('os')
class _OsMod:
    urandom = os_urandom
    SEEK_SET = 0
    SEEK_CUR = 1
    SEEK_END = 2


def _clock(name):
    def f(ip):
        hk = ip.hooks.get('clock:' + name)
        if hk is not None:
            return hk(ip)
        used(ip, '%s(): some real number, non-decreasing across calls within one run (floats as reals)' % name)
        t = ip.ctx.fresh(name.replace('.', '_'), RealSort)
        last = ip.state.ghost.get('clock:' + name)
        if last is not None:
            ip.ctx.assume(t >= last)
        ip.ctx.assume(t >= 0)
        ip.state.ghost['clock:' + name] = t
        return Sym(t, 'real')
    return f


def time_sleep(ip, d=0):
    return None


@lib_module('time')
class _TimeMod:
    time = _clock('time.time')
    monotonic = _clock('time.monotonic')
    perf_counter = _clock('time.perf_counter')
    sleep = time_sleep


# logging: no effect, does not raise (assumption printed in the evidence)
class LoggerObj:
    pass


_LOGGER = Obj(None, {}, tag='logger')


def _log_noop(ip, *a, **k):
    used(ip, 'logging calls: no effect on program state, never raise')
    return None


def logger_attr(name):
    return Builtin('log.' + name, _log_noop)


@repo_class_model('logger.PeerLogger')
def _peerlogger(ip, info, *a, **k):
    return _LOGGER


from . import lib as _lib      # noqa: E402

_prev_object_attr = _lib.object_attr


def _object_attr(ip, v, name):
    if v is _LOGGER or (isinstance(v, Obj) and v.tag == 'logger'):
        return logger_attr(name)
    return _prev_object_attr(ip, v, name)


_lib.object_attr = _object_attr

_orig_getattr_hook = None


def install_logger_globals(repo):
    m = repo.module('logger')
    if m is not None:
        m.globals['mplogger'] = _LOGGER
        m.globals['setupLogger'] = Builtin('setupLogger', lambda ip, *a, **k: _LOGGER)
        m.globals['LOGLEVEL_TRACE'] = 5


# ------------------------------------------------------------------------------------------ crypto idealisations

ENC = z3.Function('aesgcm_enc', BytesSort, BytesSort, BytesSort, BytesSort, BytesSort)      # key, iv, aad, pt -> ct||tag
DEC_OK = z3.Function('aesgcm_ok', BytesSort, BytesSort, BytesSort, BytesSort, BoolSort)      # key, iv, aad, ct
DEC = z3.Function('aesgcm_dec', BytesSort, BytesSort, BytesSort, BytesSort, BytesSort)
CRC = z3.Function('crc32', BytesSort, IntSort)


@repo_function_model('crypto.encrypt_gcm')
def _encrypt_gcm(ip, key, iv, aad, data):
    used(ip, 'AES-GCM idealised: enc/dec_ok/dec uninterpreted; dec_ok(k,iv,aad,enc(k,iv,aad,p)) and dec(..)=p; '
             'dec_ok(k,iv,aad,c) => c = enc(k,iv,aad,dec(k,iv,aad,c)); len(enc(..,p)) = len(p)+16')
    if aad is None:
        aad = b''            # AESGCM: no associated data
    k, i, a, d = ops.term(key), ops.term(iv), ops.term(aad), ops.term(data)
    ct = ENC(k, i, a, d)
    ops.set_len_term(ct, ops.blen(d) + 16)
    ip.ctx.assume(DEC_OK(k, i, a, ct))
    ip.ctx.assume(DEC(k, i, a, ct) == d)
    ip.state.events.append(('encrypt_gcm', (key, iv, aad, data), {}))
    return Sym(ct, 'bytes')


@repo_function_model('crypto.decrypt_gcm')
def _decrypt_gcm(ip, key, iv, aad, data):
    used(ip, 'AES-GCM idealised: enc/dec_ok/dec uninterpreted; dec_ok(k,iv,aad,enc(k,iv,aad,p)) and dec(..)=p; '
             'dec_ok(k,iv,aad,c) => c = enc(k,iv,aad,dec(k,iv,aad,c)); len(enc(..,p)) = len(p)+16')
    if ops.pytype(key) != 'bytes' or ops.pytype(data) != 'bytes':
        ip.ctx.raise_exc('TypeError', 'decrypt_gcm arguments')
    if aad is None:
        aad = b''            # AESGCM: no associated data
    k, i, a, d = ops.term(key), ops.term(iv), ops.term(aad), ops.term(data)
    ok = DEC_OK(k, i, a, d)
    if not ip.ctx.branch(ops.sbool(ok)):
        ip.ctx.raise_exc('InvalidTag', 'authentication failed')
    pt = DEC(k, i, a, d)
    ip.ctx.assume(d == ENC(k, i, a, pt))
    ops.set_len_term(pt, ops.blen(d) - 16)
    ip.ctx.assume(ops.blen(d) >= 16)
    ip.state.events.append(('decrypt_gcm_ok', (key, iv, aad, data), {}))
    return Sym(pt, 'bytes')


@repo_function_model('crypto.crc32')
def _crc32(ip, data):
    used(ip, 'crc32: an uninterpreted function bytes -> [0, 2^32)')
    if ops.pytype(data) != 'bytes':
        ip.ctx.raise_exc('TypeError', 'crc32 argument')
    r = CRC(ops.term(data))
    ip.ctx.assume(z3.And(r >= 0, r <= 2 ** 32 - 1))
    ops.declare_bounds(r, 0, 2 ** 32 - 1)
    return Sym(r, 'int')


# ------------------------------------------------------------------------------------------ elliptic-curve keys (idealised)
# A key pair is identified by an integer `kid`.  der(kid) is the injective DER encoding of the public key;
# sign/verify: verify(pub(kid), sig, data) returns normally only if data was signed under kid (ideal signature);
# dh(a, b) is symmetric; kdf is a deterministic function (HKDF-SHA256, length 16) of (shared secret, salt).

DER = z3.Function('pub_der', IntSort, BytesSort)
KID_OF = z3.Function('kid_of_der', BytesSort, IntSort)
SIGNED = z3.Function('signed', IntSort, BytesSort, BoolSort)
SIG = z3.Function('sig', IntSort, BytesSort, IntSort, BytesSort)       # kid, data, nonce -> signature
DER_VALID = z3.Function('der_is_a_public_key', BytesSort, BoolSort)     # fromBytes accepts exactly these; getBytes produces one
SIG_OK = z3.Function('sig_verifies', IntSort, BytesSort, BytesSort, BoolSort)   # kid, signature, data
DH = z3.Function('dh', IntSort, IntSort, IntSort)
KDF = z3.Function('hkdf16', IntSort, BytesSort, BytesSort)

KEY_NOTE = ('EC keys idealised: key pair = integer id; der() injective with len 91; verify succeeds only for data signed '
            'under that id (ideal ECDSA); dh symmetric; hkdf deterministic with 16-byte output')


def _priv_cls(ip):
    return ip.repo.cls('crypto.EllipticCurvePrivateKey')


def _pub_cls(ip):
    return ip.repo.cls('crypto.EllipticCurvePublicKey')


def mk_priv(ip, kid):
    return Obj(_priv_cls(ip), {'kid': kid, 'key': Opaque('cryptography.private_key', {'unsupported': True})})


def mk_pub(ip, kid):
    return Obj(_pub_cls(ip), {'kid': kid, 'key': Opaque('cryptography.public_key', {'unsupported': True})})


@repo_function_model('crypto.EllipticCurvePrivateKey.new')
def _priv_new(ip):
    used(ip, KEY_NOTE)
    kid = ip.ctx.fresh('kid', IntSort)
    fresh = ip.state.ghost.setdefault('fresh_kids', [])
    for k in fresh:
        ip.ctx.assume(kid != k)
    fresh.append(kid)
    return mk_priv(ip, Sym(kid, 'int'))


@repo_function_model('crypto.EllipticCurvePrivateKey.getPublicKey')
def _priv_getpub(ip, self):
    used(ip, KEY_NOTE)
    return mk_pub(ip, self.attrs['kid'])


@repo_function_model('crypto.EllipticCurvePublicKey.getBytes')
def _pub_getbytes(ip, self):
    used(ip, KEY_NOTE)
    k = ops.term(self.attrs['kid'], 'int')
    t = DER(k)
    ip.ctx.assume(z3.And(z3.Length(t) == 91, KID_OF(t) == k, DER_VALID(t)))
    ops.set_len(t, 91)
    return Sym(t, 'bytes')


@repo_function_model('crypto.EllipticCurvePublicKey.fromBytes')
def _pub_frombytes(ip, der):
    used(ip, KEY_NOTE)
    if ops.pytype(der) != 'bytes':
        ip.ctx.raise_exc('TypeError', 'fromBytes argument')
    d = ops.term(der)
    if not ip.ctx.branch(ops.sbool(DER_VALID(d))):
        ip.ctx.raise_exc('ValueError', 'could not deserialize key data')
    k = KID_OF(d)
    ip.ctx.assume(DER(k) == d)
    return mk_pub(ip, Sym(k, 'int'))


@repo_function_model('crypto.EllipticCurvePrivateKey.sign')
def _priv_sign(ip, self, data):
    used(ip, KEY_NOTE)
    k = ops.term(self.attrs['kid'], 'int')
    d = ops.term(data)
    nonce = ip.ctx.fresh('sig_nonce', IntSort)
    s = SIG(k, d, nonce)
    n = ip.ctx.fresh('sig_len', IntSort)          # companion length (DER ECDSA signatures: 8..72 bytes)
    ops.set_len_term(s, n)
    ops.declare_bounds(n, 8, 72)
    ip.ctx.assume(z3.And(SIGNED(k, d), SIG_OK(k, s, d), n >= 8, n <= 72))
    ip.state.events.append(('sign', (self.attrs['kid'], data), {}))
    return Sym(s, 'bytes')


@repo_function_model('crypto.EllipticCurvePublicKey.verify')
def _pub_verify(ip, self, signature, data):
    used(ip, KEY_NOTE)
    if ops.pytype(signature) != 'bytes' or ops.pytype(data) != 'bytes':
        ip.ctx.raise_exc('TypeError', 'verify arguments')
    k = ops.term(self.attrs['kid'], 'int')
    ok = SIG_OK(k, ops.term(signature), ops.term(data))
    if not ip.ctx.branch(ops.sbool(ok)):
        ip.ctx.raise_exc('InvalidSignature', 'signature mismatch')
    # ideal signature scheme: a verifying signature exists only for data signed under that key
    ip.ctx.assume(SIGNED(k, ops.term(data)))
    ip.state.events.append(('verified', (self.attrs['kid'], data), {}))
    return None


def _dh(a, b):
    return z3.If(a <= b, DH(a, b), DH(b, a))


@repo_function_model('crypto.ecdh_server')
def _ecdh_server(ip, priv, pub):
    used(ip, KEY_NOTE)
    from .libspec import os_urandom
    salt = os_urandom(ip, 16)
    key = KDF(_dh(ops.term(priv.attrs['kid'], 'int'), ops.term(pub.attrs['kid'], 'int')), salt.t)
    ip.ctx.assume(z3.Length(key) == 16)
    ops.set_len(key, 16)
    return (salt, Sym(key, 'bytes'))


@repo_function_model('crypto.ecdh_client')
def _ecdh_client(ip, priv, pub, salt):
    used(ip, KEY_NOTE)
    if ops.pytype(salt) != 'bytes':
        ip.ctx.raise_exc('TypeError', 'salt must be bytes')
    key = KDF(_dh(ops.term(priv.attrs['kid'], 'int'), ops.term(pub.attrs['kid'], 'int')), ops.term(salt))
    ip.ctx.assume(z3.Length(key) == 16)
    ops.set_len(key, 16)
    return Sym(key, 'bytes')


# ------------------------------------------------------------------------------------------ io.BytesIO
class BytesIOVal:
    """io.BytesIO: a byte buffer and a position.  write() appends at the position when it is at the end (the only use in
    the repository); read(n) returns at most the remaining bytes (all of them for n < 0 / None): never more than the input."""
    def __init__(self, ip, initial=None):
        self.buf = initial if initial is not None else b''
        self.pos = 0
        self.reads = 0

    def remaining_term(self):
        t = ops.term(self.buf)
        return t

    def pv_getattr(self, ip, name):
        m = getattr(self, 'm_' + name, None)
        if m is None:
            ip.ctx.raise_exc('AttributeError', name)
        return Builtin('BytesIO.' + name, m)

    def m_write(self, ip, data):
        used(ip, 'io.BytesIO: write appends at the end; read(n) returns at most the remaining bytes; tell/getvalue/seek')
        if ops.pytype(data) != 'bytes':
            ip.ctx.raise_exc('TypeError', 'a bytes-like object is required')
        n = ops.bytes_len(self.buf)
        if not ip.ctx.branch(ops.compare('Eq', self.pos, n)):
            raise Unsupported('BytesIO.write in the middle of the buffer')
        if isinstance(self.buf, bytes) and isinstance(data, bytes):
            self.buf = self.buf + data
        else:
            self.buf = ops.bytes_concat([self.buf, data])
        self.pos = ops.bytes_len(self.buf)
        return ops.bytes_len(data)

    def m_read(self, ip, n=None):
        used(ip, 'io.BytesIO: write appends at the end; read(n) returns at most the remaining bytes; tell/getvalue/seek')
        self.reads += 1
        total = ops.bytes_len(self.buf)
        if n is None:
            hi = total
        else:
            if ops.pytype(n) not in ('int', 'bool'):
                ip.ctx.raise_exc('TypeError', 'integer argument expected')
            c = ops.const_int(n)
            if c is not None:
                hi = total if c < 0 else ops.binop('Add', self.pos, c, ip.ctx)
            else:
                if ip.ctx.branch(ops.compare('Lt', n, 0)):
                    hi = total
                else:
                    hi = ops.binop('Add', self.pos, n, ip.ctx)
        buf = self.buf if isinstance(self.buf, Sym) else Sym(ops.term(self.buf), 'bytes')
        if isinstance(self.buf, bytes) and ops.const_int(self.pos) is not None and ops.const_int(hi) is not None:
            r = self.buf[ops.const_int(self.pos):ops.const_int(hi)]
        else:
            r = ops.getitem(buf, slice(self.pos, hi), ip.ctx)
        self.pos = ops.binop('Add', self.pos, ops.bytes_len(r), ip.ctx)
        return ops.concretize_bytes(r) if isinstance(r, Sym) else r

    def m_tell(self, ip):
        return self.pos

    def m_getvalue(self, ip):
        return self.buf

    def m_seek(self, ip, pos, whence=0):
        w = ops.const_int(whence)
        if w not in (0, 1, 2):
            raise Unsupported('BytesIO.seek whence')
        if ops.pytype(pos) not in ('int', 'bool'):
            ip.ctx.raise_exc('TypeError', 'seek position')
        # (BytesIO seeks past the end of the buffer without complaint; a negative absolute position raises ValueError)
        if w == 0:
            new = pos
        elif w == 1:
            new = ops.binop('Add', self.pos, pos, ip.ctx)
            c = ops.compare('Lt', new, 0, ip.ctx)
            new = ops.ite(c, 0, new) if not isinstance(c, bool) else (0 if c else new)
        else:
            new = ops.binop('Add', ops.bytes_len(self.buf), pos, ip.ctx)
            c = ops.compare('Lt', new, 0, ip.ctx)
            new = ops.ite(c, 0, new) if not isinstance(c, bool) else (0 if c else new)
        if w == 0 and ip.ctx.branch(ops.compare('Lt', new, 0, ip.ctx)):
            ip.ctx.raise_exc('ValueError', 'negative seek value')
        self.pos = new
        return new

    def m_close(self, ip):
        return None


def _bytesio_ctor(ip, initial=None):
    if initial is not None and ops.pytype(initial) != 'bytes':
        ip.ctx.raise_exc('TypeError', 'a bytes-like object is required')
    return BytesIOVal(ip, initial)


_lib._Registry.modules['io'] = {'BytesIO': Builtin('io.BytesIO', _bytesio_ctor)}
