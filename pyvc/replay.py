"""Engine half of a replay: turn the verifier's counter-model into concrete inputs (by re-running the contract's own
setup() with concrete leaves), let the native half run the REAL function, then evaluate the SAME clause lambda on the
concrete pre/post state."""
import json
import os
import re
import subprocess
import sys
import z3
from fractions import Fraction
from .values import *
from . import ops
from .ctx import Ctx, exc_ancestors
from .interp import Interp
from .envb import Env
from .dsl import call_clause, NS, S, _b
from .heap import Snapshot
from . import libspec, lib

HERE = os.path.dirname(os.path.dirname(os.path.abspath(__file__)))
NATIVE_PY = '/venv/bin/python'


class NoReplay(Exception):
    pass


class ConcreteEnv(Env):
    """Env whose leaves take the values of the counter-model"""
    def __init__(self, ip, model):
        Env.__init__(self, ip)
        self.model = model or {}
        self.clock_names = []

    def _get(self, name, default):
        v = self.model.get(name, default)
        return v

    def int(self, name, cls=None, lo=None, hi=None):
        v = self._get(name, None)
        if not isinstance(v, int) or isinstance(v, bool):
            v = lo if isinstance(lo, int) else 0
        ci = self.cls(cls) if isinstance(cls, str) else cls
        return Sym(z3.IntVal(v), 'int', ci) if ci is not None else v

    def bool(self, name):
        return bool(self._get(name, False))

    def real(self, name, lo=None, hi=None):
        v = self._get(name, 0)
        return _frac(v)

    def bytes(self, name, length=None, maxlen=None):
        v = self._get(name, None)
        if isinstance(v, dict) and 'bytes' in v:
            return bytes.fromhex(v['bytes'])
        if isinstance(v, dict) and 'bytes_len' in v:
            return b'\x00' * v['bytes_len']
        n = ops.const_int(length) if length is not None else 0
        return b'\x00' * (n or 0)

    def str(self, name):
        v = self._get(name, '')
        return v if isinstance(v, str) else ''

    def bitset(self, name, fn=None, support=None):
        v = self._get(name, None)
        if isinstance(v, dict) and 'bitset' in v:
            return int(v['bitset'])
        raise NoReplay('bit set %s has no model value' % name)

    def pred(self, name, *sorts):
        return z3.Function(name, *sorts)

    def skolem(self, name, ty='int'):
        v = self._get(name, None)
        if ty == 'int':
            return v if isinstance(v, int) else 0
        if ty == 'str':
            return v if isinstance(v, str) else ''
        if ty == 'bool':
            return bool(v)
        if ty == 'real':
            return _frac(v or 0)
        raise NoReplay('skolem kind %s' % ty)

    def enum(self, qual, name, among=None):
        info = self.cls(qual)
        info.ensure_evaluated()
        v = self._get(name, None)
        val = None
        if isinstance(v, dict):
            val = v.get('attrs', {}).get('value')
        if val is None:
            val = info.enum_members[0][1]
        return Obj(info, {'value': val}, tag=name)

    def symseq(self, name, kind):
        v = self._get(name, None)
        if not isinstance(v, dict) or 'items' not in v:
            raise NoReplay('list %s has no model value' % name)
        if v['list_len'] > len(v['items']):
            raise NoReplay('list %s too long to replay (%d)' % (name, v['list_len']))
        return PyList([_leaf(x, kind) for x in v['items']])

    def symmap(self, name, kkind, vkind, with_size=True):
        raise NoReplay('symbolic dict %s: no generic reconstruction from the model' % name)

    def symobj(self, name, clsqual):
        raise NoReplay('symbolic object reference')

    def field(self, clsqual, attr, kind):
        raise NoReplay('field maps')

    def opaque(self, name, **spec):
        o = Opaque(name, spec or {'returns': None})
        return o

    def assume(self, c):
        return None

    def instance(self, name, value):
        return None

    def pack(self, fmt, *vals):
        import struct
        return struct.pack(fmt, *[_native(v) for v in vals])


def _native(v):
    c = ops.const_int(v)
    if c is not None and not isinstance(v, (bytes, str)):
        return c
    if isinstance(v, Sym):
        t = z3.simplify(v.t)
        if v.ty == 'bytes':
            return term_bytes(t)
    return v


def term_bytes(t):
    t = z3.simplify(t)
    out = bytearray()
    for c in ops.flat_chunks(t):
        if z3.is_app(c) and c.decl().kind() == z3.Z3_OP_SEQ_UNIT and z3.is_bv_value(c.children()[0]):
            out.append(c.children()[0].as_long())
        else:
            raise NoReplay('bytes term is not a literal: %s' % str(c)[:80])
    return bytes(out)


def _frac(v):
    if isinstance(v, Fraction):
        return v
    if isinstance(v, str):
        return Fraction(v)
    if isinstance(v, float):
        return Fraction(v).limit_denominator(10 ** 9)
    return Fraction(v or 0)


def _leaf(x, kind):
    if kind.ty == 'real':
        return _frac(x)
    return x


# ---------------------------------------------------------------------------------------------- engine value -> descriptor

class Ser:
    def __init__(self, ip):
        self.ip = ip
        self.ids = {}

    def oid(self, v):
        if id(v) not in self.ids:
            self.ids[id(v)] = 'o%d' % (len(self.ids) + 1)
        return self.ids[id(v)]

    def ser(self, v, depth=0):
        if v is None or isinstance(v, bool):
            return v
        if isinstance(v, int):
            return {'k': 'int', 'v': v, 'cls': None}
        if isinstance(v, Fraction):
            return {'k': 'real', 'v': '%d/%d' % (v.numerator, v.denominator)}
        if isinstance(v, bytes):
            return {'k': 'bytes', 'hex': v.hex()}
        if isinstance(v, str):
            return {'k': 'str', 'v': v}
        if isinstance(v, Sym):
            c = ops.concretize(v)
            if isinstance(c, Sym):
                if c.ty == 'int' and z3.is_int_value(c.t):
                    return {'k': 'int', 'v': c.t.as_long(), 'cls': c.cls.qualname if c.cls is not None else None}
                if c.ty == 'bytes':
                    return {'k': 'bytes', 'hex': term_bytes(c.t).hex()}
                if c.ty == 'str' and z3.is_string_value(c.t):
                    return {'k': 'str', 'v': c.t.as_string()}
                raise NoReplay('non-literal value %r' % (v,))
            return self.ser(c, depth)
        if isinstance(v, BitSet):
            raise NoReplay('bit set without a model value')
        if isinstance(v, Obj):
            if v.tag == 'logger':
                return {'k': 'logger'}
            if v.cls is not None and v.cls.is_enum():
                return {'k': 'enum', 'cls': v.cls.qualname, 'value': self.ser(v.attrs['value'])}
            first = id(v) not in self.ids
            oid = self.oid(v)
            if not first:
                return {'k': 'obj', 'id': oid, 'cls': v.cls.qualname if v.cls else None, 'attrs': {}}
            return {'k': 'obj', 'id': oid, 'cls': v.cls.qualname if v.cls else None,
                    'attrs': {a: self.ser(x, depth + 1) for a, x in v.attrs.items()}}
        if isinstance(v, PyList):
            return {'k': 'list', 'id': self.oid(v), 'items': [self.ser(x, depth + 1) for x in v.items]}
        if isinstance(v, tuple):
            return {'k': 'tuple', 'items': [self.ser(x, depth + 1) for x in v]}
        if isinstance(v, PyDict):
            return {'k': 'dict', 'id': self.oid(v), 'items': [[self.ser(k), self.ser(x, depth + 1)] for k, x in zip(v.keys, v.vals)]}
        if isinstance(v, PySet):
            return {'k': 'set', 'items': [self.ser(x, depth + 1) for x in v.items]}
        if isinstance(v, ClassVal):
            return {'k': 'class', 'qual': v.info.qualname}
        if isinstance(v, Opaque):
            if v.name == 'clock':
                return {'k': 'clock', 'values': self.clock_values}
            return {'k': 'callback', 'name': v.name}
        if isinstance(v, lib.ByteArray):
            return {'k': 'bytearray', 'hex': _native(v.val).hex() if not isinstance(v.val, bytes) else v.val.hex()}
        raise NoReplay('cannot serialise %r for the native run' % (v,))


# ---------------------------------------------------------------------------------------------- descriptor -> engine value

class De:
    def __init__(self, ip, pre_objs):
        self.ip = ip
        self.objs = dict(pre_objs)        # id -> engine object (pre-state objects are reused: identity is kept)
        self.fresh = {}

    def de(self, d, opaque_by_name=None):
        if d is None or isinstance(d, (bool, int, str)):
            return d
        k = d['k']
        if k == 'int':
            if d.get('cls'):
                return Sym(z3.IntVal(d['v']), 'int', self.ip.repo.cls(d['cls']))
            return d['v']
        if k == 'real':
            return Fraction(d['v'])
        if k == 'bytes':
            return bytes.fromhex(d['hex'])
        if k == 'bytearray':
            return lib.ByteArray(bytes.fromhex(d['hex']))
        if k == 'str':
            return d['v']
        if k == 'enum':
            info = self.ip.repo.cls(d['cls'])
            info.ensure_evaluated()
            val = self.de(d['value'])
            for name, mv in info.enum_members:
                if mv == val:
                    return info.class_attrs[name]
            return Obj(info, {'value': val})
        if k == 'tuple':
            return tuple(self.de(x) for x in d['items'])
        if k == 'set':
            return PySet([self.de(x) for x in d['items']])
        if k == 'class':
            return ClassVal(self.ip.repo.cls(d['qual']))
        if k == 'logger':
            return libspec._LOGGER
        if k in ('callback', 'clock'):
            return self.callbacks.get(d.get('name', 'clock'), Opaque(d.get('name', 'clock'), {'returns': None}))
        if k == 'ref':
            return self.objs[d['id']]
        if k == 'list':
            o = self.objs.get(d.get('id'))
            if not isinstance(o, PyList):
                o = PyList()
                self.objs[d.get('id')] = o
            o.items = [self.de(x) for x in d['items']]
            return o
        if k == 'dict':
            o = self.objs.get(d.get('id'))
            if not isinstance(o, PyDict):
                o = PyDict()
                self.objs[d.get('id')] = o
            o.keys = [self.de(kk) for kk, vv in d['items']]
            o.vals = [self.de(vv) for kk, vv in d['items']]
            return o
        if k == 'obj':
            o = self.objs.get(d['id'])
            if not isinstance(o, Obj):
                o = Obj(self.ip.repo.cls(d['cls']) if d.get('cls') else None)
                self.objs[d['id']] = o
            if d['attrs'] or not o.attrs:
                new = {}
                for a, x in d['attrs'].items():
                    new[a] = self.de(x)
                if d['attrs']:
                    o.attrs = new
            return o
        if k == 'unknown':
            return Opaque('unknown:' + d.get('repr', ''), {'unsupported': True})
        raise NoReplay('cannot read back %r' % (d,))


# ---------------------------------------------------------------------------------------------- driver

def build_spec(contract, model):
    """concrete inputs for the native run, from the contract's own setup()"""
    ctx = Ctx(new_path=True)
    ip = Interp(ctx)
    libspec.install_logger_globals(ip.repo)
    ip.verifying = contract.qualname
    ip.verifying_key = contract.key
    E = ConcreteEnv(ip, model)
    args = contract.setup(E)
    kwargs = args.pop('__kwargs__', {}) if isinstance(args, dict) else {}
    for name, ty in contract.skolems.items():
        ctx.skolems[name] = E.skolem('sk_' + name, ty)
    if contract.ghost_init is not None:
        contract.ghost_init(E)
    info = ip.repo.func(contract.qualname)
    ser = Ser(ip)
    cl = []
    while ('__clock__%d' % len(cl)) in (model or {}):
        cl.append(model['__clock__%d' % len(cl)])
    ser.clock_values = [str(_frac(x)) for x in cl]
    order = [a.arg for a in info.node.args.posonlyargs + info.node.args.args if a.arg in args]
    spec = {'function': contract.qualname, 'order': order,
            'args': {k: ser.ser(v) for k, v in args.items() if k in order},
            'kwargs': {k: ser.ser(v) for k, v in list(kwargs.items()) + [(k, v) for k, v in args.items() if k not in order]},
            'class_attrs': [[q, a, ser.ser(v)] for (q, a), v in ip.state.class_over.items()]}
    return spec, ip, args, ser


def replay_source(contract, label, model):
    spec, ip, args, ser = build_spec(contract, model)
    src = ['import sys, json', 'sys.path.insert(0, %r)' % HERE, 'from pyvc import replay_native',
           'SPEC = json.loads(%r)' % json.dumps(spec), 'CLAUSE = %r' % label, 'CONTRACT = %r' % contract.key,
           'MODEL = json.loads(%r)' % json.dumps(model, default=str),
           'if __name__ == "__main__":', '    replay_native.run(SPEC)', '']
    return '\n'.join(src)


def evaluate(contract, label, model, outcome):
    """True if the clause HOLDS on the native outcome, False if violated, None if not evaluable"""
    spec, ip, args, ser = build_spec(contract, model)
    ctx = ip.ctx
    old = Snapshot(ip, args)
    pre_objs = {}
    for live_id, oid in ser.ids.items():
        pre_objs[oid] = old.live[live_id] if live_id in old.live else None
    de = De(ip, {k: v for k, v in pre_objs.items() if v is not None})
    de.callbacks = {}
    for v in _walk_opaques(args):
        de.callbacks[v.name] = v
    ncl = 0
    while ('__clock__%d' % ncl) in (model or {}):
        ncl += 1
    if ncl:
        ip.state.ghost['clock_last'] = z3.RealVal(str(_frac(model['__clock__%d' % (ncl - 1)])))
    post = {k: de.de(v) for k, v in outcome['post'].items()}
    for q, a, v in outcome.get('class_attrs_post', []):
        ip.state.class_over[(q, a)] = de.de(v)
    env = dict(post)
    for k, v in args.items():
        env.setdefault(k, v)
    events = [(e['callee'], tuple(de.de(x) for x in e['args']), {}) for e in outcome.get('events', [])]
    ip.state.events = events
    env.update({'S': S, 'E': ConcreteEnv(ip, model), 'ghost': NS(ip.state.ghost), 'events': events,
                'old': NS(dict(old.roots, ghost=NS(old.ghost))), 'new': NS(dict(post, ghost=NS(ip.state.ghost)))})
    env.update(ctx.skolems)
    if contract.finish is not None:
        contract.finish(ip, env)
    kind, name = _clause_kind(contract, label)
    if kind == 'ensures':
        if outcome['outcome'] != 'return':
            return None
        env['result'] = de.de(outcome['result'])
        return _truth(call_clause(contract.ensures[name], env))
    if kind == 'ensures_exc':
        if outcome['outcome'] != 'raise':
            return None
        return _truth(call_clause(contract.ensures_exc[name], env))
    if kind == 'raises':
        if name == 'no-other-exception':
            if outcome['outcome'] != 'raise':
                return True
            anc = _anc(outcome['exception'])
            ok = any(x in anc for x in contract.may_raise) or any(e in anc for e, c in contract.raises.values())
            return ok
        excname, cond = contract.raises[name]
        c = _truth(call_clause(cond, env))
        raised = outcome['outcome'] == 'raise' and excname in _anc(outcome['exception'])
        if c is None:
            return None
        return raised == c
    return None


def _anc(names):
    out = set()
    for n in names:
        out.add(n)
        out.add(n.split('.')[-1])
        if n.startswith('_struct') or n == 'struct.error' or n.endswith('.error'):
            out.add('struct.error')
    return out


def _walk_opaques(args):
    seen = set()
    out = []

    def w(v):
        if id(v) in seen:
            return
        seen.add(id(v))
        if isinstance(v, Opaque):
            out.append(v)
        elif isinstance(v, Obj):
            for x in v.attrs.values():
                w(x)
        elif isinstance(v, PyList):
            for x in v.items:
                w(x)
        elif isinstance(v, (tuple, list)):
            for x in v:
                w(x)
        elif isinstance(v, dict):
            for x in v.values():
                w(x)
    w(args)
    return out


def _truth(v):
    v = _b(v)
    if isinstance(v, bool):
        return v
    t = z3.simplify(v.t)
    if z3.is_true(t):
        return True
    if z3.is_false(t):
        return False
    s = z3.Solver()
    s.set('timeout', 20000)
    s.add(z3.Not(t))
    r = s.check()
    if r == z3.unsat:
        return True
    s2 = z3.Solver()
    s2.set('timeout', 20000)
    s2.add(t)
    if s2.check() == z3.unsat:
        return False
    return None


def _clause_kind(contract, label):
    rest = label[len(contract.key) + 1:] if label.startswith(contract.key + '/') else label
    parts = rest.split('/', 1)
    if len(parts) == 2 and parts[0] in ('ensures', 'ensures_exc', 'raises'):
        return parts[0], parts[1]
    return None, None


def run_native(path, repo):
    env = dict(os.environ)
    env['PYTHONPATH'] = repo
    r = subprocess.run([NATIVE_PY, path], cwd=repo, capture_output=True, text=True, timeout=300, env=env)
    for line in r.stdout.split('\n'):
        if line.startswith('REPLAY-OUTCOME '):
            return json.loads(line[len('REPLAY-OUTCOME '):]), r.stdout + r.stderr
    return None, r.stdout + r.stderr


def replay_file(path, repo):
    """./check Cxx --replay <path>: exit 1 if the real code violates the clause on the recorded input"""
    ns = {}
    src = open(path).read()
    m_spec = re.search(r"^CLAUSE = (.*)$", src, re.M)
    m_con = re.search(r"^CONTRACT = (.*)$", src, re.M)
    m_model = re.search(r"^MODEL = json.loads\((.*)\)$", src, re.M)
    if not (m_spec and m_con and m_model):
        code = [l for l in src.split('\n') if l.strip() and not l.lstrip().startswith('#')]
        if code and 'no native replay is available' not in src:
            # a stand-alone replay script (contract- or lemma-specific): run it on the real code, exit 1 = the clause is violated
            import subprocess
            env = dict(os.environ, PYTHONPATH=repo)
            r = subprocess.run(['/venv/bin/python', os.path.abspath(path)], cwd=repo, capture_output=True, text=True, timeout=300, env=env)
            print((r.stdout + r.stderr)[-1500:])
            if r.returncode == 1:
                print('CLAUSE VIOLATED ON THE REAL CODE (replay script exit 1)')
                return 1
            print('the replay script does not reproduce a violation on this tree (exit %d)' % r.returncode)
            return 0 if r.returncode == 0 else 2
        print('no native replay in this file: no-failing-input-found')
        return 2
    label = eval(m_spec.group(1))
    key = eval(m_con.group(1))
    model = json.loads(eval(m_model.group(1)))
    from . import dsl
    contract = dsl.REGISTRY[key]
    outcome, out = run_native(path, repo)
    if outcome is None:
        print(out[-1500:])
        print('native run produced no outcome')
        return 2
    print('native outcome: %s %s' % (outcome['outcome'], outcome.get('exception', outcome.get('result'))))
    try:
        holds = evaluate(contract, label, model, outcome)
    except NoReplay as e:
        print('clause not evaluable on the native outcome: %s' % e)
        return 2
    if holds is False:
        print('CLAUSE VIOLATED ON THE REAL CODE: %s' % label)
        return 1
    if holds is True:
        print('clause holds on the real code for this input')
        return 0
    print('clause not evaluable on the native outcome')
    return 2
