"""Snapshots of the concrete-identity heap, location resolution, frame (modifies) checking, havoc."""
import z3
from .values import *
from . import ops
from .lib import ByteArray, DictView


class Snapshot:
    """deep copy of everything reachable from the roots; memo maps live id -> clone"""
    def __init__(self, ip, roots):
        self.memo = {}
        self.live = {}            # id(live) -> live (keeps the objects alive)
        self.roots = {k: self.clone(v) for k, v in roots.items()}
        self.fields = dict(ip.state.fields)
        self.field_len = dict(ip.state.field_len)
        self.class_over = {k: self.clone(v) for k, v in ip.state.class_over.items()}
        self.ghost = {k: self.clone(v) for k, v in ip.state.ghost.items()}
        self.n_events = len(ip.state.events)
        self.ip = ip

    def clone(self, v):
        if isinstance(v, Obj):
            if id(v) in self.memo:
                return self.memo[id(v)]
            c = Obj(v.cls, {}, v.tag)
            c.oid = v.oid
            self.memo[id(v)] = c
            self.live[id(v)] = v
            for k, x in v.attrs.items():
                c.attrs[k] = self.clone(x)
            c.frozen = True
            return c
        if isinstance(v, PyList):
            if id(v) in self.memo:
                return self.memo[id(v)]
            c = PyList()
            self.memo[id(v)] = c
            self.live[id(v)] = v
            c.items = [self.clone(x) for x in v.items]
            return c
        if isinstance(v, PyDict):
            if id(v) in self.memo:
                return self.memo[id(v)]
            c = PyDict()
            self.memo[id(v)] = c
            self.live[id(v)] = v
            c.keys = [self.clone(x) for x in v.keys]
            c.vals = [self.clone(x) for x in v.vals]
            return c
        if isinstance(v, PySet):
            if id(v) in self.memo:
                return self.memo[id(v)]
            c = PySet([self.clone(x) for x in v.items])
            self.memo[id(v)] = c
            self.live[id(v)] = v
            return c
        if isinstance(v, SymSeq):
            if id(v) in self.memo:
                return self.memo[id(v)]
            c = v.copy()
            self.memo[id(v)] = c
            self.live[id(v)] = v
            return c
        if isinstance(v, SymMap):
            if id(v) in self.memo:
                return self.memo[id(v)]
            c = SymMap(v.dom, v.val, v.kkind, v.vkind, v.size, v.key_inv)
            self.memo[id(v)] = c
            self.live[id(v)] = v
            return c
        if isinstance(v, ByteArray):
            if id(v) in self.memo:
                return self.memo[id(v)]
            c = ByteArray(v.val)
            self.memo[id(v)] = c
            self.live[id(v)] = v
            return c
        if isinstance(v, tuple):
            return tuple(self.clone(x) for x in v)
        if v.__class__.__name__ == 'BytesIOVal':
            if id(v) in self.memo:
                return self.memo[id(v)]
            c = v.__class__(None, v.buf)
            c.pos = v.pos
            self.memo[id(v)] = c
            self.live[id(v)] = v
            return c
        if isinstance(v, SymObj):
            return SymObj(v.ref, v.cls, SnapState(self))
        return v

    def of(self, live):
        return self.memo.get(id(live))


class SnapState:
    """field maps as of the snapshot, for spec access through old SymObj references"""
    def __init__(self, snap):
        self.snap = snap

    def read_field(self, so, name):
        key = (so.cls.name, name)
        arr, kind = self.snap.fields[key]
        ip = self.snap.ip
        t = z3.simplify(z3.Select(arr, so.ref))
        la = self.snap.field_len.get(key)
        if la is not None and ops.known_len(t) is None and t.get_id() not in ops.LEN_TERM:
            ops.set_len_term(t, z3.simplify(z3.Select(la, so.ref)))
        v = ip.wrap(t, kind)
        if isinstance(v, SymObj):
            v.st = self
        return v


def symseq_equal(a, b):
    """element-wise equality of two symbolic lists (a universally quantified goal: the solver skolemises it)"""
    j = z3.Int('j!seq')
    return z3.And(a.n == b.n, z3.ForAll([j], z3.Implies(z3.And(j >= 0, j < a.n), z3.Select(a.arr, j) == z3.Select(b.arr, j))))


def resolve(ip, roots, path):
    """'self.stats.dropped' -> (holder Obj, 'dropped');  'Packet.MTU' (class attribute) -> (('class', qualname), attr)"""
    parts = path.split('.')
    head = parts[0]
    if head in roots:
        cur = roots[head]
        for p in parts[1:-1]:
            if isinstance(cur, Obj):
                cur = cur.attrs.get(p)
            elif isinstance(cur, SymObj) and (cur.cls.name, p) in ip.state.fields:
                cur = ip.state.read_field(cur, p)
            else:
                return None
        return (cur, parts[-1]) if len(parts) > 1 else None
    return None


def same_value(a, b):
    """structural sameness of two attribute values -> True | False | z3 Bool term (to be proved)"""
    if a is b:
        return True
    if isinstance(a, Sym) and isinstance(b, Sym):
        if a.ty != b.ty:
            return False
        if a.t.eq(b.t):
            return True
        return a.t == b.t
    if isinstance(a, Sym) or isinstance(b, Sym):
        ta, tb = ops.pytype(a), ops.pytype(b)
        if ta in ('int', 'bool', 'real', 'bytes', 'str') and tb in ('int', 'bool', 'real', 'bytes', 'str'):
            r = ops.equal(a, b)
            if isinstance(r, bool):
                return r
            return r.t
        return False
    if isinstance(a, BitSet) or isinstance(b, BitSet):
        if isinstance(a, BitSet) and isinstance(b, BitSet) and a.fn is b.fn:
            return True
        j = z3.Int('j!frame')
        try:
            A, B = ops.as_bitset(a), ops.as_bitset(b)
        except Unsupported:
            return False
        return z3.ForAll([j], z3.Implies(j >= 0, A.fn(j) == B.fn(j)))
    if isinstance(a, SymObj) and isinstance(b, SymObj):
        return True if a.ref.eq(b.ref) else (a.ref == b.ref)
    if type(a) != type(b):
        if isinstance(a, (int, bool, Fraction)) and isinstance(b, (int, bool, Fraction)):
            return a == b
        return False
    if isinstance(a, (int, bool, str, bytes, Fraction, type(None))):
        return a == b
    if isinstance(a, tuple):
        if len(a) != len(b):
            return False
        out = []
        for x, y in zip(a, b):
            r = same_value(x, y)
            if r is False:
                return False
            if r is not True:
                out.append(r)
        return True if not out else z3.And(out)
    return a is b


class FrameDiff:
    """compare the heap reachable from a snapshot against the live heap"""
    def __init__(self, ip, snap):
        self.ip = ip
        self.snap = snap

    def diffs(self, allowed):
        """yield (description, condition) for every location that may differ and is not allowed.
        allowed: set of (id(live holder), attr) with attr possibly '*'"""
        out = []
        snap = self.snap
        for lid, clone in list(snap.memo.items()):
            live = snap.live[lid]
            if isinstance(live, Obj):
                names = set(live.attrs) | set(clone.attrs)
                for n in sorted(names):
                    if (lid, n) in allowed or (lid, '*') in allowed:
                        continue
                    if (id(live), n) in self.ip.unknown_attrs:
                        continue        # a constructor attribute unknown to the sidecar: not part of any claimed frame
                    if n not in live.attrs or n not in clone.attrs:
                        out.append(('%r.%s (attribute %s)' % (live, n, 'added' if n in live.attrs else 'deleted'), False))
                        continue
                    a, b = clone.attrs[n], live.attrs[n]
                    r = self.same_ref(a, b)
                    if r is True:
                        continue
                    out.append(('%r.%s' % (live, n), r))
            elif isinstance(live, (PyList, PySet)):
                if (lid, '*') in allowed:
                    continue
                if len(live.items) != len(clone.items):
                    out.append(('%r (length)' % (live,), False))
                    continue
                for i, (a, b) in enumerate(zip(clone.items, live.items)):
                    r = self.same_ref(a, b)
                    if r is not True:
                        out.append(('%r[%d]' % (live, i), r))
            elif isinstance(live, PyDict):
                if (lid, '*') in allowed:
                    continue
                if len(live.keys) != len(clone.keys):
                    out.append(('%r (size)' % (live,), False))
                    continue
                for i, (a, b) in enumerate(zip(clone.vals, live.vals)):
                    r = self.same_ref(a, b)
                    if r is not True:
                        out.append(('%r[%r]' % (live, live.keys[i]), r))
            elif isinstance(live, SymSeq):
                if (lid, '*') in allowed:
                    continue
                if not (live.arr.eq(clone.arr) and live.n.eq(clone.n)):
                    out.append(('symbolic list %r' % (live,), symseq_equal(live, clone)))
            elif isinstance(live, SymMap):
                if (lid, '*') in allowed:
                    continue
                conds = []
                if not live.dom.eq(clone.dom):
                    conds.append(live.dom == clone.dom)
                if not live.val.eq(clone.val):
                    # values only matter on the domain; require pointwise equality on the domain
                    k = z3.Const('k!frame', clone.kkind.sort())
                    conds.append(z3.ForAll([k], z3.Implies(z3.Select(clone.dom, k), z3.Select(live.val, k) == z3.Select(clone.val, k))))
                if conds:
                    out.append(('symbolic dict %r' % (live,), z3.And(conds)))
            elif isinstance(live, ByteArray):
                if (lid, '*') in allowed:
                    continue
                r = same_value(clone.val, live.val)
                if r is not True:
                    out.append(('bytearray', r))
        # class attributes mutated at run time
        st = self.ip.state
        keys = set(st.class_over) | set(snap.class_over)
        for k in sorted(keys):
            if (('class', k[0]), k[1]) in allowed or (('class', k[0]), '*') in allowed:
                continue
            if k not in st.class_over or k not in snap.class_over:
                out.append(('class attribute %s.%s' % k, False))
                continue
            r = self.same_ref(snap.class_over[k], st.class_over[k])
            if r is not True:
                out.append(('class attribute %s.%s' % k, r))
        # field maps of symbolic objects
        for k in sorted(set(st.fields) | set(snap.fields)):
            if (('field', k[0]), k[1]) in allowed:
                continue
            if k in st.fields and k in snap.fields and st.fields[k][0].eq(snap.fields[k][0]):
                continue
            if k in st.fields and k in snap.fields:
                # pointwise frame: entries of objects named by the frame, and of objects allocated since, may change
                at = [r for (tag, r) in allowed if isinstance(tag, tuple) and len(tag) == 3 and tag[0] == 'fieldat' and (tag[1], tag[2]) == k]
                a0 = snap.ghost.get('alloc')
                if at or a0 is not None:
                    r = z3.Int('r!frame')
                    alts = [r == x for x in at]
                    if a0 is not None and isinstance(a0, z3.ExprRef):
                        alts.append(r >= a0)
                    alts.append(z3.Select(st.fields[k][0], r) == z3.Select(snap.fields[k][0], r))
                    out.append(('field map %s.%s' % k, z3.ForAll([r], z3.Or(alts))))
                else:
                    out.append(('field map %s.%s' % k, st.fields[k][0] == snap.fields[k][0]))
            else:
                out.append(('field map %s.%s' % k, False))
        return out

    def same_ref(self, old_v, new_v):
        """old_v is a clone-side value, new_v a live value"""
        if isinstance(new_v, tuple) and isinstance(old_v, tuple):
            # tuples are immutable values; heap objects inside them are compared by identity (clone <-> live)
            if len(new_v) != len(old_v):
                return False
            out = []
            for x, y in zip(old_v, new_v):
                r = self.same_ref(x, y)
                if r is False:
                    return False
                if r is not True:
                    out.append(r)
            return True if not out else z3.And(out)
        if isinstance(new_v, (Obj, PyList, PyDict, PySet, SymSeq, SymMap, ByteArray)):
            c = self.snap.memo.get(id(new_v))
            if c is None:
                return False          # a new object stored in an old location
            return True if c is old_v else False
        if isinstance(old_v, (Obj, PyList, PyDict, PySet, SymSeq, SymMap, ByteArray)):
            return False
        return same_value(old_v, new_v)


def fresh_like(ip, v, name, kind=None):
    """a fresh unconstrained value of the same kind as v"""
    ctx = ip.ctx
    if kind is not None:
        if callable(kind):
            return kind(ip, v, name)
        if kind == 'bitset':
            f = z3.Function('%s!%d' % (name, ctx.counter + 1), IntSort, BoolSort)
            ctx.counter += 1
            return BitSet(lambda j, f=f: f(j), None)
        if kind in ('int', 'bool', 'real', 'bytes', 'str'):
            return Sym(ctx.fresh(name, Kind(kind).sort()), kind)
    if isinstance(v, Sym):
        return Sym(ctx.fresh(name, v.t.sort()), v.ty, v.cls)
    if isinstance(v, z3.ExprRef):
        return ctx.fresh(name, v.sort())
    if isinstance(v, bool):
        return Sym(ctx.fresh(name, BoolSort), 'bool')
    if isinstance(v, int):
        return Sym(ctx.fresh(name, IntSort), 'int')
    if isinstance(v, Fraction):
        return Sym(ctx.fresh(name, RealSort), 'real')
    if isinstance(v, bytes):
        return Sym(ctx.fresh(name, BytesSort), 'bytes')
    if isinstance(v, BitSet):
        f = z3.Function('%s!%d' % (name, ctx.counter + 1), IntSort, BoolSort)
        ctx.counter += 1
        return BitSet(lambda j, f=f: f(j), None)
    if isinstance(v, SymSeq):
        arr = ctx.fresh(name, v.arr.sort())
        n = ctx.fresh(name + '_len', IntSort)
        ctx.assume(n >= 0)
        r = SymSeq(arr, n, v.elem, None, v.tag)
        from .lib import MEASURES
        for mn in v.meas:
            m = MEASURES[mn]
            t = ctx.fresh(name + '_' + mn, m.sort)
            if m.sort == IntSort and m.nonneg:
                ctx.assume(t >= 0)
                ctx.assume(z3.Implies(n == 0, t == 0))
            r.meas[mn] = t
            m.link(ctx, r)
        return r
    if isinstance(v, SymMap):
        m = SymMap(ctx.fresh(name + '_dom', v.dom.sort()), ctx.fresh(name + '_val', v.val.sort()), v.kkind, v.vkind,
                   ctx.fresh(name + '_size', IntSort) if v.size is not None else None, v.key_inv)
        if m.size is not None:
            ctx.assume(m.size >= 0)
        return m
    raise Unsupported('cannot havoc a location holding %r (declare a havoc kind)' % (v,))


def havoc_path(ip, roots, path, kinds=None):
    loc = resolve(ip, roots, path)
    if loc is None:
        raise Unsupported('cannot resolve location %s' % path)
    holder, attr = loc
    kind = (kinds or {}).get(path)
    if isinstance(holder, Obj):
        cur = holder.attrs.get(attr)
        if isinstance(cur, PyDict) and kind is None and all(isinstance(x, (SymSeq, SymMap)) for x in cur.vals):
            # a dict of concrete keys holding symbolic containers: havoc each container in place
            for i, x in enumerate(cur.vals):
                n = fresh_like(ip, x, '%s_%d' % (path.replace('.', '_'), i))
                if isinstance(x, SymSeq):
                    x.arr, x.n, x.meas, x.facts = n.arr, n.n, n.meas, None
                else:
                    x.dom, x.val, x.size = n.dom, n.val, n.size
            return
        if isinstance(cur, (SymSeq, SymMap)) and kind is None:
            # mutable symbolic container: havoc in place (aliases see it)
            n = fresh_like(ip, cur, path.replace('.', '_'))
            if isinstance(cur, SymSeq):
                cur.arr, cur.n, cur.meas = n.arr, n.n, n.meas
                cur.facts = None
            else:
                cur.dom, cur.val, cur.size = n.dom, n.val, n.size
            return
        holder.attrs[attr] = fresh_like(ip, cur, path.replace('.', '_'), kind)
        return
    if isinstance(holder, SymObj):
        # a field of a symbolic object: only this object's entry of the field map changes
        key = (holder.cls.name, attr)
        if key not in ip.state.fields:
            raise Unsupported('field %s.%s of a symbolic object is not declared in the sidecar' % key)
        arr, fk = ip.state.fields[key]
        if callable(kind):
            v = kind(ip, ip.state.read_field(holder, attr), path.replace('.', '_'))
            ip.state.write_field(holder, attr, v)
            return
        t = ip.ctx.fresh(path.replace('.', '_'), fk.sort())
        ip.state.fields[key] = (z3.Store(arr, holder.ref, t), fk)
        la = ip.state.field_len.get(key)
        if la is not None:
            ip.state.field_len[key] = z3.Store(la, holder.ref, ip.ctx.fresh(path.replace('.', '_') + '_len', IntSort))
        inv = ip.state.field_inv.get(key)
        if inv is not None:
            ip.ctx.assume(inv(t))
        return
    raise Unsupported('havoc of %s' % path)
