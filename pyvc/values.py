"""Symbolic values of the pyvc executor.

Everything the interpreted program can hold is one of
  * a plain Python immutable (int, bool, str, bytes, float->Fraction, None, tuple of values)
  * Sym      : a z3-backed scalar (int / bool / real / bytes / str), optionally tagged with the
               repo class it is an instance of (int subclasses such as SeqNum)
  * BitSet   : a non-negative Python int used as a set of bit positions (closure j -> Bool)
  * Obj      : a heap object with concrete identity and an attribute dictionary
  * SymObj   : an element of a symbolic collection: z3 Int reference + class, fields in field maps
  * PyList / PyDict / PySet : containers of concrete shape holding values
  * SymSeq / SymMap         : containers of symbolic shape (z3 Seq / Array)
  * callables: FuncVal (repo function), Bound, Closure, Builtin, Opaque
"""
import z3
from fractions import Fraction

BV8 = z3.BitVecSort(8)
BytesSort = z3.SeqSort(BV8)
IntSort = z3.IntSort()
BoolSort = z3.BoolSort()
RealSort = z3.RealSort()
StrSort = z3.StringSort()


class Unsupported(Exception):
    """construct outside the supported subset -> the function is UNDECIDED, never silently skipped"""


class NeedFork(Exception):
    """raised during speculative pure evaluation when a fork/obligation would be needed"""


def is_sym(v):
    return isinstance(v, Sym)


class Sym:
    __slots__ = ('t', 'ty', 'cls')

    def __init__(self, t, ty, cls=None):
        self.t = t
        self.ty = ty        # 'int' | 'bool' | 'real' | 'bytes' | 'str'
        self.cls = cls      # ClassInfo of an int/bytes subclass instance, or None

    def __repr__(self):
        c = ':' + self.cls.name if self.cls is not None else ''
        return 'Sym<%s%s %s>' % (self.ty, c, self.t)

    __hash__ = object.__hash__

    # operator overloading (used by contract lambdas); semantic functions live in ops.py
    def _b(self, op, o, rev=False):
        from . import ops
        return ops.spec_binop(op, o, self) if rev else ops.spec_binop(op, self, o)

    def _c(self, op, o):
        from . import ops
        return ops.spec_compare(op, self, o)

    def __add__(self, o): return self._b('Add', o)
    def __radd__(self, o): return self._b('Add', o, True)
    def __sub__(self, o): return self._b('Sub', o)
    def __rsub__(self, o): return self._b('Sub', o, True)
    def __mul__(self, o): return self._b('Mult', o)
    def __rmul__(self, o): return self._b('Mult', o, True)
    def __floordiv__(self, o): return self._b('FloorDiv', o)
    def __rfloordiv__(self, o): return self._b('FloorDiv', o, True)
    def __truediv__(self, o): return self._b('Div', o)
    def __rtruediv__(self, o): return self._b('Div', o, True)
    def __mod__(self, o): return self._b('Mod', o)
    def __rmod__(self, o): return self._b('Mod', o, True)
    def __neg__(self):
        from . import ops
        return ops.spec_binop('Sub', 0, self)
    def __lt__(self, o): return self._c('Lt', o)
    def __le__(self, o): return self._c('LtE', o)
    def __gt__(self, o): return self._c('Gt', o)
    def __ge__(self, o): return self._c('GtE', o)
    def __eq__(self, o): return self._c('Eq', o)
    def __ne__(self, o): return self._c('NotEq', o)

    def __and__(self, o):
        from . import ops
        return ops.spec_and(self, o)
    __rand__ = __and__

    def __or__(self, o):
        from . import ops
        return ops.spec_or(self, o)
    __ror__ = __or__

    def __invert__(self):
        from . import ops
        return ops.spec_not(self)

    def __getitem__(self, k):
        from . import ops
        return ops.spec_getitem(self, k)

    def __bool__(self):
        s = z3.simplify(self.t) if self.ty == 'bool' else None
        if s is not None and z3.is_true(s):
            return True
        if s is not None and z3.is_false(s):
            return False
        raise TypeError('symbolic value used as a Python bool in a contract: use & | ~ and S.implies/S.ite (%r)' % (self,))


class BitSet:
    """A non-negative int seen as the set of its one-bits: fn(j) for a z3 Int j.
    support: None (unknown) or a list of z3 Int terms p such that fn(j) => j in support."""
    __slots__ = ('fn', 'support')

    def __init__(self, fn, support=None):
        self.fn = fn
        self.support = support

    def __repr__(self):
        return 'BitSet<%s>' % ('?' if self.support is None else self.support)

    def has(self, j):
        if isinstance(j, Sym):
            j = j.t
        elif isinstance(j, int):
            j = z3.IntVal(j)
        return Sym(z3.And(j >= 0, self.fn(j)), 'bool')

    @staticmethod
    def from_int(n):
        assert n >= 0
        pos = [i for i in range(n.bit_length()) if (n >> i) & 1]
        terms = [z3.IntVal(p) for p in pos]
        if not pos:
            return BitSet(lambda j: z3.BoolVal(False), [])
        return BitSet(lambda j, pos=pos: z3.Or([j == p for p in pos]), terms)

    @staticmethod
    def single(p):
        # bit p only (p a z3 Int term); empty when p < 0
        return BitSet(lambda j, p=p: z3.And(j == p, p >= 0), [p])

    @staticmethod
    def below(n):
        # bits 0..n-1
        return BitSet(lambda j, n=n: z3.And(j >= 0, j < n), None)


class Obj:
    """heap object of concrete identity"""
    _next = [0]
    __slots__ = ('cls', 'attrs', 'oid', 'tag', 'frozen', 'fwd')

    def __init__(self, cls, attrs=None, tag=None):
        self.cls = cls
        self.attrs = attrs if attrs is not None else {}
        Obj._next[0] += 1
        self.oid = Obj._next[0]
        self.tag = tag
        self.frozen = False
        self.fwd = None       # SymObj this object was moved to when stored into a symbolic container

    def __repr__(self):
        return '<Obj %s#%d%s>' % (self.cls.name if self.cls is not None else '?', self.oid, ' ' + self.tag if self.tag else '')

    # attribute access for contract lambdas (spec mode: no implicit exceptions)
    def __getattr__(self, name):
        if name.startswith('__'):
            raise AttributeError(name)
        attrs = object.__getattribute__(self, 'attrs')
        if name in attrs:
            return attrs[name]
        cls = object.__getattribute__(self, 'cls')
        if cls is not None:
            found, v = cls.lookup(name)
            if found:
                return v
        raise AttributeError('spec access to missing attribute %s.%s' % (cls.name if cls else '?', name))


class SymObj:
    """reference (z3 Int) to an object of a known class whose fields live in field maps of the state"""
    __slots__ = ('ref', 'cls', 'st')

    def __init__(self, ref, cls, st):
        self.ref = ref
        self.cls = cls
        self.st = st      # the State holding the field maps (for spec access)

    def __repr__(self):
        return '<SymObj %s %s>' % (self.cls.name, self.ref)

    def __getattr__(self, name):
        if name.startswith('__') or name.startswith('pv_'):
            raise AttributeError(name)
        st = object.__getattribute__(self, 'st')
        return st.read_field(self, name)


class Box:
    """reference to an arbitrary value kept in the state's box table"""
    __slots__ = ('ref',)

    def __init__(self, ref):
        self.ref = ref


class PyList:
    __slots__ = ('items',)

    def __init__(self, items=None):
        self.items = list(items) if items is not None else []

    def __repr__(self):
        return 'PyList%r' % (self.items,)


class PyDict:
    """dict of concrete shape: insertion-ordered list of (key, value); keys compared structurally (concrete)"""
    __slots__ = ('keys', 'vals')

    def __init__(self):
        self.keys = []
        self.vals = []

    def __repr__(self):
        return 'PyDict%r' % (list(zip(self.keys, self.vals)),)


class PySet:
    __slots__ = ('items',)

    def __init__(self, items=None):
        self.items = list(items) if items is not None else []


class SymSeq:
    """list/tuple of symbolic length: arr: z3 Array(Int -> elem sort), n: z3 Int length (>= 0).
    Arrays + length instead of z3 Seq: index reasoning stays in LIA+arrays and models of long lists are cheap.
    The object is a mutable cell (append/pop rebind arr, n) so that aliases see updates."""
    __slots__ = ('arr', 'n', 'elem', 'facts', 'tag', 'meas')

    def __init__(self, arr, n, elem, facts=None, tag=None, meas=None):
        self.arr = arr
        self.n = n
        self.elem = elem     # Kind
        self.facts = facts   # optional enumeration facts (see lib.symmap_keys)
        self.tag = tag       # 'bytearray' for a bytearray (elements 0..255)
        self.meas = dict(meas) if meas else {}    # ghost measures: name -> z3 term (homomorphic in the elements)

    def __repr__(self):
        return 'SymSeq<n=%s>' % (self.n,)

    def copy(self):
        return SymSeq(self.arr, self.n, self.elem, self.facts, self.tag, self.meas)

    def assign(self, other):
        self.arr, self.n, self.facts, self.meas = other.arr, other.n, other.facts, dict(other.meas)


class SymMap:
    """dict of symbolic shape: dom: Array(K,Bool), val: Array(K,V)"""
    __slots__ = ('dom', 'val', 'kkind', 'vkind', 'size', 'key_inv')

    def __init__(self, dom, val, kkind, vkind, size=None, key_inv=None):
        self.dom = dom
        self.val = val
        self.kkind = kkind
        self.vkind = vkind
        self.size = size     # optional z3 Int: number of keys
        self.key_inv = key_inv   # optional fn(key term) -> z3 Bool: invariant of the keys (instantiated where keys are read)

    def __repr__(self):
        return 'SymMap<%s>' % (self.dom,)


_TUPLE_SORTS = {}


_PAIR_SORTS = {}


def pair_sort(*sorts):
    k = tuple(str(s) for s in sorts)
    if k not in _PAIR_SORTS:
        name = ('Pair_' if len(sorts) == 2 else 'Tuple%d_' % len(sorts)) + ''.join(c if c.isalnum() else '_' for c in '_'.join(k))
        _PAIR_SORTS[k] = z3.TupleSort(name, list(sorts))
    return _PAIR_SORTS[k]


def list_sort(inner_sort):
    """z3 tuple sort (arr: Array(Int->inner), n: Int) for list values stored inside symbolic maps"""
    k = str(inner_sort)
    if k not in _TUPLE_SORTS:
        name = 'List_' + ''.join(c if c.isalnum() else '_' for c in k)
        _TUPLE_SORTS[k] = z3.TupleSort(name, [z3.ArraySort(IntSort, inner_sort), IntSort])
    return _TUPLE_SORTS[k]


class Kind:
    """how a z3 term is wrapped into a value: ('int', cls) ('bool') ('real') ('bytes') ('str') ('obj', cls) ('fn')
    ('enum', cls) ('box': any value, kept in a side table) ('seq', inner Kind: a list value)"""
    __slots__ = ('ty', 'cls', 'inner', 'truthy', 'join')

    def __init__(self, ty, cls=None, inner=None):
        self.ty = ty
        self.cls = cls
        self.inner = inner
        self.truthy = None      # custom kinds: fn(term) -> z3 Bool, the truthiness of an element
        self.join = None        # custom kinds: (prefix function, is-bytes test, bytes accessor) for b''.join over a list of this kind

    def sort(self):
        if self.ty == 'seq':
            return list_sort(self.inner.sort())[0]
        if self.ty == 'pair':
            return pair_sort(*[k.sort() for k in self.inner])[0]
        if self.ty == 'custom':
            return self.inner[0]
        return {'int': IntSort, 'bool': BoolSort, 'real': RealSort, 'bytes': BytesSort,
                'str': StrSort, 'obj': IntSort, 'fn': IntSort, 'enum': IntSort, 'box': IntSort}[self.ty]

    def __repr__(self):
        return 'Kind(%s%s)' % (self.ty, ',' + self.cls.name if self.cls is not None else '')


# ---- callables -------------------------------------------------------------------------------

class FuncVal:
    __slots__ = ('info',)

    def __init__(self, info):
        self.info = info

    def __repr__(self):
        return '<FuncVal %s>' % self.info.qualname


class Bound:
    __slots__ = ('recv', 'func')

    def __init__(self, recv, func):
        self.recv = recv
        self.func = func

    def __repr__(self):
        return '<Bound %r of %r>' % (self.func, self.recv)


class Closure:
    __slots__ = ('node', 'env', 'module', 'defaults', 'name', 'cls', 'kw_defaults', 'attrs')

    def __init__(self, node, env, module, defaults, name='<lambda>', cls=None):
        self.node = node
        self.env = env
        self.module = module
        self.defaults = defaults
        self.name = name
        self.cls = cls
        self.kw_defaults = None
        self.attrs = {}


class Builtin:
    __slots__ = ('name', 'fn')

    def __init__(self, name, fn):
        self.name = name
        self.fn = fn

    def __repr__(self):
        return '<Builtin %s>' % self.name


class Opaque:
    """an unknown callable (user callback, handler method): calls are recorded as events"""
    __slots__ = ('name', 'spec')

    def __init__(self, name, spec=None):
        self.name = name
        self.spec = spec or {}

    def __repr__(self):
        return '<Opaque %s>' % self.name


class SymFn:
    """a callable (or None when ref = 0) known only by a z3 Int reference: calls are recorded as events"""
    __slots__ = ('ref',)

    def __init__(self, ref):
        self.ref = ref

    def __repr__(self):
        return '<SymFn %s>' % (self.ref,)


class ClassVal:
    """a repo class used as a value"""
    __slots__ = ('info',)

    def __init__(self, info):
        self.info = info

    def __repr__(self):
        return '<ClassVal %s>' % self.info.name

    def __getattr__(self, name):
        if name.startswith('__'):
            raise AttributeError(name)
        info = object.__getattribute__(self, 'info')
        found, v = info.lookup(name)
        if found:
            return v
        raise AttributeError(name)


class BuiltinType:
    """int, bytes, str, ... used as values (isinstance targets / constructors)"""
    __slots__ = ('name',)
    _cache = {}

    def __init__(self, name):
        self.name = name

    def __repr__(self):
        return '<type %s>' % self.name

    @staticmethod
    def get(name):
        if name not in BuiltinType._cache:
            BuiltinType._cache[name] = BuiltinType(name)
        return BuiltinType._cache[name]


class GenericAlias:
    """typing.List[int] etc."""
    __slots__ = ('origin', 'args')

    def __init__(self, origin, args):
        self.origin = origin      # BuiltinType
        self.args = args          # tuple of values

    def __repr__(self):
        return '<GenericAlias %s%r>' % (self.origin, self.args)


class ModuleVal:
    __slots__ = ('name', 'attrs')

    def __init__(self, name, attrs=None):
        self.name = name
        self.attrs = attrs or {}

    def __repr__(self):
        return '<module %s>' % self.name


class SuperProxy:
    __slots__ = ('start', 'recv', 'recv_cls')

    def __init__(self, start, recv, recv_cls):
        self.start = start        # ClassInfo after which the MRO search starts
        self.recv = recv
        self.recv_cls = recv_cls


class OpaqueStr:
    """a string whose content nobody looks at (log / exception messages)"""
    def __repr__(self):
        return '<OpaqueStr>'


OPAQUE_STR = OpaqueStr()


def frac(x):
    if isinstance(x, float):
        return Fraction(repr(x))
    return Fraction(x)
