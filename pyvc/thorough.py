"""Thorough tier, on top of the quick tier's full obligation set:
  * mutation self-test: every seed edit (mutants/seed_mutants.json) and every kept sub-agent change (seeded/<id>/patch.diff)
    registered for this property is applied to a scratch copy of /repo under /var/tmp (removed afterwards) and must be
    reported by a named obligation;  a miss is a weakness of the machinery (reported, never a property violation);
  * cross-solver agreement (done inside the workers, switched on by the runner for this tier through PYVC_CROSS): for every
    contract the first 60 queries z3 discharges are exported as SMT-LIB and re-checked by cvc5 (15 s each); agreement is
    recorded in the back end of the clause ('z3+cvc5-agree'), no answer as 'z3 (cvc5: no answer)', and a cvc5 `sat` where z3
    said `unsat` turns the clause UNDECIDED (exit 2), never into a violation.
The mutation self-test is not counted in obligations/discharged."""
import glob
import json
import os
import shutil
import subprocess
import tempfile

HERE = os.path.dirname(os.path.dirname(os.path.abspath(__file__)))


def _apply_seed(dst, m):
    p = os.path.join(dst, m['file'])
    raw = open(p, 'rb').read().decode('utf-8')
    crlf = '\r\n' in raw
    txt = raw.replace('\r\n', '\n')
    if txt.count(m['old']) != 1:
        return False
    txt = txt.replace(m['old'], m['new'])
    if crlf:
        txt = txt.replace('\n', '\r\n')
    open(p, 'wb').write(txt.encode('utf-8'))
    return True


def _run_on(dst, prop):
    env = dict(os.environ, PYVC_REPO=dst)
    env.pop('VERIF_TIER', None)
    r = subprocess.run([os.path.join(HERE, 'check'), prop, '--tier', 'quick', '--only', '.'], env=env, capture_output=True, text=True)
    lines = [l for l in r.stdout.split('\n') if l.startswith('VIOLATION') or l.startswith('UNDECIDED') or l.startswith('CHECKER')]
    return r.returncode, lines


def run(prop, dsl, reports, seed, jobs):
    out = {'mutation_selftest': []}
    muts = []
    sp = os.path.join(HERE, 'mutants', 'seed_mutants.json')
    if os.path.exists(sp):
        for m in json.load(open(sp))['mutants']:
            props = [x.strip() for x in m['property'].replace('/', ',').split(',')]
            if prop in props and m.get('status_on_pinned_suite') not in ('not_property_breaking', 'equivalent'):
                muts.append(('seed:' + m['id'], m, None))
    for meta in sorted(glob.glob(os.path.join(HERE, 'seeded', '*', 'meta.json'))):
        md = json.load(open(meta))
        if prop in md.get('properties', [md.get('property')]):
            muts.append(('seeded:' + os.path.basename(os.path.dirname(meta)), None, os.path.join(os.path.dirname(meta), 'patch.diff')))
    for name, m, patch in muts:
        scratch = tempfile.mkdtemp(prefix='pyvc_mut_', dir='/var/tmp')
        try:
            dst = os.path.join(scratch, 'repo')
            shutil.copytree(os.path.join(os.environ.get('PYVC_REPO', '/repo'), 'mpgameserver'), os.path.join(dst, 'mpgameserver'))
            ok = True
            if m is not None:
                ok = _apply_seed(dst, m)
            else:
                subprocess.run(['git', 'init', '-q'], cwd=dst)
                ok = subprocess.run(['git', 'apply', '--whitespace=nowarn', patch], cwd=dst).returncode == 0
            if not ok:
                out['mutation_selftest'].append({'mutant': name, 'result': 'not-applicable-to-current-tree'})
                continue
            rc, lines = _run_on(dst, prop)
            out['mutation_selftest'].append({'mutant': name, 'exit': rc, 'detected': rc == 1,
                                             'obligations': [l.split('obligation=')[1].split(' ')[0] for l in lines if 'obligation=' in l][:6]})
        finally:
            shutil.rmtree(scratch, ignore_errors=True)
    det = sum(1 for x in out['mutation_selftest'] if x.get('detected'))
    out['mutation_summary'] = '%d of %d applicable edits reported by a named obligation' % (
        det, sum(1 for x in out['mutation_selftest'] if 'detected' in x))
    for x in out['mutation_selftest']:
        if 'detected' in x and not x['detected']:
            print('SELFTEST-MISS: %s is not reported by any obligation of %s (machinery weakness, not a violation)' % (x['mutant'], prop))
    return out
