"""Native half of a replay: runs under /venv/bin/python (no z3), builds REAL objects of the real classes from a
JSON description, calls the REAL function, and prints the outcome (result / exception / post-state / callback events) as JSON.
Usage (from a generated replay file):  replay_native.run(SPEC)"""
import importlib
import json
import sys
import types
from fractions import Fraction

PKG = 'mpgameserver'


class Builder:
    def __init__(self):
        self.objs = {}
        self.events = []
        self.clock_values = {}

    def cls(self, qual):
        mod, name = qual.split('.')
        m = importlib.import_module(PKG + '.' + mod)
        return getattr(m, name)

    def build(self, d):
        if d is None or isinstance(d, (bool, int, str)):
            return d
        k = d['k']
        if k == 'int':
            v = d['v']
            if d.get('cls'):
                return self.cls(d['cls'])(v)
            return v
        if k == 'real':
            f = Fraction(d['v'])
            return float(f) if f.denominator != 1 else float(f.numerator)
        if k == 'bytes':
            return bytes.fromhex(d['hex'])
        if k == 'bytearray':
            return bytearray(bytes.fromhex(d['hex']))
        if k == 'str':
            return d['v']
        if k == 'list':
            if d.get('id') in self.objs:
                return self.objs[d['id']]
            l = []
            if 'id' in d:
                self.objs[d['id']] = l
            l.extend(self.build(x) for x in d['items'])
            return l
        if k == 'tuple':
            return tuple(self.build(x) for x in d['items'])
        if k == 'set':
            return set(self.build(x) for x in d['items'])
        if k == 'dict':
            if d.get('id') in self.objs:
                return self.objs[d['id']]
            m = {}
            if 'id' in d:
                self.objs[d['id']] = m
            for kk, vv in d['items']:
                m[self.build(kk)] = self.build(vv)
            return m
        if k == 'enum':
            return self.cls(d['cls'])(self.build(d['value']))
        if k == 'class':
            return self.cls(d['qual'])
        if k == 'obj':
            if d['id'] in self.objs:
                return self.objs[d['id']]
            if d.get('cls'):
                c = self.cls(d['cls'])
                o = c.__new__(c)
            else:
                o = types.SimpleNamespace()
            self.objs[d['id']] = o
            for a, v in d['attrs'].items():
                setattr(o, a, self.build(v))
            return o
        if k == 'logger':
            import logging
            lg = logging.getLogger('replay')
            lg.disabled = True
            return lg
        if k == 'callback':
            name = d['name']
            raises = d.get('raises')

            def cb(*a, **kw):
                self.events.append({'callee': name, 'args': [dump(x, self) for x in a]})
                if raises:
                    raise Exception('raised by callback ' + name)
                return None
            cb._replay_name = name
            return cb
        if k == 'clock':
            vals = [float(Fraction(v)) for v in d['values']]
            state = {'i': 0}

            def clock():
                i = state['i']
                state['i'] += 1
                if i < len(vals):
                    return vals[i]
                return vals[-1] if vals else 0.0
            clock._replay_name = 'clock'
            return clock
        raise ValueError('cannot build %r' % (d,))


def dump(v, b, depth=0, ids=None):
    ids = ids if ids is not None else {}
    if depth > 8:
        return {'k': 'unknown', 'repr': '...'}
    if v is None or isinstance(v, bool):
        return v
    if isinstance(v, int):
        c = type(v)
        if c is not int and c.__module__.startswith(PKG):
            return {'k': 'int', 'v': int(v), 'cls': c.__module__[len(PKG) + 1:] + '.' + c.__name__}
        return {'k': 'int', 'v': int(v), 'cls': None}
    if isinstance(v, float):
        if v != v or v in (float('inf'), float('-inf')):
            return {'k': 'unknown', 'repr': repr(v)}
        f = Fraction(v)
        return {'k': 'real', 'v': '%d/%d' % (f.numerator, f.denominator)}
    if isinstance(v, bytearray):
        return {'k': 'bytearray', 'hex': bytes(v).hex()}
    if isinstance(v, bytes):
        return {'k': 'bytes', 'hex': v.hex()}
    if isinstance(v, str):
        return {'k': 'str', 'v': v}
    for oid, o in b.objs.items():
        if o is v:
            if id(v) in ids:
                return {'k': 'ref', 'id': oid}
            break
    if isinstance(v, list):
        oid = _oid(v, b)
        if id(v) in ids:
            return {'k': 'ref', 'id': oid}
        ids[id(v)] = True
        return {'k': 'list', 'id': oid, 'items': [dump(x, b, depth + 1, ids) for x in v]}
    if isinstance(v, tuple):
        return {'k': 'tuple', 'items': [dump(x, b, depth + 1, ids) for x in v]}
    if isinstance(v, (set, frozenset)):
        return {'k': 'set', 'items': [dump(x, b, depth + 1, ids) for x in v]}
    if isinstance(v, dict):
        oid = _oid(v, b)
        if id(v) in ids:
            return {'k': 'ref', 'id': oid}
        ids[id(v)] = True
        return {'k': 'dict', 'id': oid, 'items': [[dump(kk, b, depth + 1, ids), dump(vv, b, depth + 1, ids)] for kk, vv in v.items()]}
    if callable(v) and hasattr(v, '_replay_name'):
        return {'k': 'callback', 'name': v._replay_name}
    import logging
    if isinstance(v, (logging.Logger, logging.LoggerAdapter)):
        return {'k': 'logger'}
    c = type(v)
    if isinstance(v, type):
        if v.__module__.startswith(PKG):
            return {'k': 'class', 'qual': v.__module__[len(PKG) + 1:] + '.' + v.__name__}
        return {'k': 'unknown', 'repr': repr(v)}
    if c.__module__.startswith(PKG) and hasattr(c, '_value2name') and hasattr(v, 'value'):
        return {'k': 'enum', 'cls': c.__module__[len(PKG) + 1:] + '.' + c.__name__, 'value': dump(v.value, b, depth + 1, ids)}
    if hasattr(v, '__dict__') and (c.__module__.startswith(PKG) or isinstance(v, types.SimpleNamespace)):
        oid = _oid(v, b)
        if id(v) in ids:
            return {'k': 'ref', 'id': oid}
        ids[id(v)] = True
        qual = (c.__module__[len(PKG) + 1:] + '.' + c.__name__) if c.__module__.startswith(PKG) else None
        return {'k': 'obj', 'id': oid, 'cls': qual, 'attrs': {a: dump(x, b, depth + 1, ids) for a, x in vars(v).items()}}
    return {'k': 'unknown', 'repr': repr(v)[:200]}


def _oid(v, b):
    for oid, o in b.objs.items():
        if o is v:
            return oid
    oid = 'n%d' % (len(b.objs) + 1)
    b.objs[oid] = v
    return oid


def exc_names(e):
    return [c.__module__.split('.')[0] + '.' + c.__name__ if c.__module__ not in ('builtins',) else c.__name__ for c in type(e).__mro__]


def run(spec, quiet=False):
    b = Builder()
    for q, a, v in spec.get('class_attrs', []):
        setattr(b.cls(q), a, b.build(v))
    args = {k: b.build(v) for k, v in spec['args'].items()}
    kwargs = {k: b.build(v) for k, v in spec.get('kwargs', {}).items()}
    parts = spec['function'].split('.')
    mod = importlib.import_module(PKG + '.' + parts[0])
    target = mod
    for p in parts[1:]:
        target = target.__dict__[p] if isinstance(target, type) else getattr(target, p)
    if isinstance(target, (staticmethod, classmethod)):
        target = target.__func__
    out = {'function': spec['function']}
    order = spec['order']
    try:
        r = target(*[args[n] for n in order], **kwargs)
        if isinstance(r, types.GeneratorType):
            r = list(r)
        out['outcome'] = 'return'
        out['result'] = dump(r, b)
    except Exception as e:      # the real code raised: that is an outcome, not a failure of the replay
        out['outcome'] = 'raise'
        out['exception'] = exc_names(e)
        out['message'] = str(e)[:300]
    ids = {}
    out['post'] = {k: dump(v, b, 0, ids) for k, v in args.items()}
    out['events'] = b.events
    out['class_attrs_post'] = [[q, a, dump(getattr(b.cls(q), a), b)] for q, a, v in spec.get('class_attrs', [])]
    if not quiet:
        print('REPLAY-OUTCOME ' + json.dumps(out))
    return out
