"""Per-property orchestration: run contracts and lemmas, compare with the ledger and the known findings,
replay refutations on the real code, write evidence, print VIOLATION / KNOWN-FINDING lines, exit code."""
import glob
import importlib
import json
import multiprocessing as mp
import os
import re
import subprocess
import sys
import time

HERE = os.path.dirname(os.path.dirname(os.path.abspath(__file__)))
REPO = os.environ.get('PYVC_REPO', '/repo')
NATIVE_PY = '/venv/bin/python'


def load_contracts():
    sys.path.insert(0, HERE)
    mods = []
    for f in sorted(glob.glob(os.path.join(HERE, 'contracts', '*.py'))):
        name = os.path.basename(f)[:-3]
        if name == '__init__':
            continue
        mods.append(importlib.import_module('contracts.' + name))
    from pyvc import dsl
    return dsl


def _verify(key):
    from pyvc import verify, dsl
    if key.startswith('lemma:'):
        rep = verify.verify_lemma(key[6:])
    else:
        rep = verify.verify_contract(key)
    d = rep.to_dict()
    return json.loads(json.dumps(d, default=str))


JOB_TIMEOUT_S = {'quick': 900, 'thorough': 3600}


def _job(key, conn):
    try:
        conn.send(_verify(key))
    except BaseException as e:      # never let a worker die silently
        import traceback
        conn.send({'__crash__': '%s: %s\n%s' % (e.__class__.__name__, e, traceback.format_exc())})
    finally:
        conn.close()


def _empty_report(key, undecided=None, crash=None):
    return {'key': key, 'qualname': key, 'clauses': {}, 'paths': 0, 'normal_paths': 0, 'exc_paths': 0, 'queries': 0,
            'solver_time': 0.0, 'wall': 0.0, 'undecided': [undecided] if undecided else [], 'crash': crash, 'inlined': [],
            'contracts_used': [], 'lib_used': [], 'reachable_exit': False, 'requires_sat': None, 'exc_kinds': {}, 'source': {}}


def run_jobs(jobs, nproc, timeout_s):
    """one forked process per contract, at most nproc at a time, each under a hard wall-clock limit
    (a solver call that ignores its own timeout must not hang the check: the function is then UNDECIDED)"""
    ctx = mp.get_context('fork')
    pending = list(jobs)
    running = {}
    reports = {}
    retried = set()

    def died(k, why):
        # a worker that disappears without a result (killed by the kernel under memory pressure, a native crash of a solver) says
        # nothing about the code: run that contract once more, alone, before reporting a checker problem
        if k not in retried:
            retried.add(k)
            pending.append(k)
            return None
        return _empty_report(k, crash=why)

    while pending or running:
        while pending and len(running) < nproc:
            k = pending.pop(0)
            pc, cc = ctx.Pipe(duplex=False)
            p = ctx.Process(target=_job, args=(k, cc))
            p.start()
            cc.close()
            running[k] = (p, pc, time.time())
        done = []
        for k, (p, pc, t0) in running.items():
            if pc.poll(0.02):
                try:
                    r = pc.recv()
                except EOFError:
                    r = died(k, 'worker died without a result (twice)')
                    if r is None:
                        p.join(5)
                        done.append(k)
                        continue
                if '__crash__' in r:
                    r = _empty_report(k, crash=r['__crash__'])
                reports[k] = r
                p.join(5)
                done.append(k)
            elif not p.is_alive():
                r = died(k, 'worker exited with code %s without a result (twice)' % p.exitcode)
                if r is not None:
                    reports[k] = r
                done.append(k)
            elif time.time() - t0 > timeout_s:
                p.kill()
                p.join(5)
                reports[k] = _empty_report(k, undecided='verification of this function exceeded the hard limit of %d s' % timeout_s)
                done.append(k)
        for k in done:
            running.pop(k)
    return {k: reports[k] for k in jobs}


def closure_of(dsl, prop):
    """contracts of the property + the contracts they use modularly (assume-guarantee closure)"""
    keys = [k for k in dsl.ORDER if prop in dsl.REGISTRY[k].props]
    seen = set(keys)
    todo = list(keys)
    while todo:
        k = todo.pop()
        c = dsl.REGISTRY[k]
        uses = c.uses if (c.uses and c.uses != 'all') else []
        for u in uses:
            if u not in seen and not dsl.REGISTRY[u].trusted:
                seen.add(u)
                keys.append(u)
                todo.append(u)
    lemmas = ['lemma:' + n for n, l in dsl.LEMMAS.items() if prop in l.props]
    return keys, lemmas


def known_findings():
    p = os.path.join(HERE, 'known_findings.json')
    if not os.path.exists(p):
        return {'findings': [], 'fixed': []}
    return json.load(open(p))


def load_ledger(prop):
    p = os.path.join(HERE, 'ledger', prop + '.json')
    if os.path.exists(p):
        return json.load(open(p))
    return None


def sidecar_hash():
    import hashlib
    h = hashlib.sha256()
    for f in sorted(glob.glob(os.path.join(HERE, 'contracts', '*.py')) + glob.glob(os.path.join(HERE, 'pyvc', '*.py'))):
        h.update(open(f, 'rb').read())
    return h.hexdigest()


def write_replay(prop, clause, creport, contract, replay_src, why=''):
    d = os.path.join(HERE, 'replays', prop)
    os.makedirs(d, exist_ok=True)
    safe = re.sub(r'[^A-Za-z0-9_.@-]+', '_', clause)[:150]
    path = os.path.join(d, safe + '.py')
    with open(path, 'w') as f:
        f.write('# replay of a refuted obligation\n# property: %s\n# obligation: %s\n' % (prop, clause))
        f.write('# verifier output (counter-model restricted to the inputs; solver: %s):\n' % ','.join(creport.get('backend', [])))
        f.write('#   detail: %s\n' % creport.get('detail', ''))
        for line in json.dumps(creport.get('model'), indent=1, default=str).split('\n'):
            f.write('#   ' + line + '\n')
        f.write('# run:  cd %s && %s %s   (exit 1 = the real code violates the clause on this input)\n' % (REPO, NATIVE_PY, path))
        if replay_src:
            f.write(replay_src)
        else:
            f.write('# no native replay: %s\n' % why)
            f.write('import sys\nprint("no native replay is available for this obligation: no-failing-input-found")\nsys.exit(2)\n')
    return path


def run_replay(path):
    try:
        env = dict(os.environ)
        env['PYTHONPATH'] = REPO
        r = subprocess.run([NATIVE_PY, path], cwd=REPO, capture_output=True, text=True, timeout=120, env=env)
        return r.returncode, (r.stdout + r.stderr)[-2000:]
    except Exception as e:
        return 3, str(e)


def main(argv=None):
    import argparse
    ap = argparse.ArgumentParser()
    ap.add_argument('prop')
    ap.add_argument('--tier', default=os.environ.get('VERIF_TIER', 'quick'))
    ap.add_argument('--replay', default=None)
    ap.add_argument('--jobs', type=int, default=min(16, os.cpu_count() or 4))
    ap.add_argument('--update-ledger', action='store_true')
    ap.add_argument('--only', default=None, help='regex on contract keys (debugging)')
    ap.add_argument('-v', action='store_true')
    a = ap.parse_args(argv)
    if a.replay:
        load_contracts()
        from pyvc import replay as _rp
        return _rp.replay_file(a.replay, REPO)
    t0 = time.time()
    prop = a.prop
    seed = int(os.environ.get('VERIF_SEED', '0') or 0)
    dsl = load_contracts()
    keys, lemmas = closure_of(dsl, prop)
    if a.only:
        keys = [k for k in keys if re.search(a.only, k)]
        lemmas = [k for k in lemmas if re.search(a.only, k)]
    jobs = keys + lemmas
    if not jobs:
        print('no contracts registered for %s' % prop)
        return 3
    if a.tier == 'thorough' and 'PYVC_CROSS' not in os.environ:
        os.environ['PYVC_CROSS'] = '60'      # per contract: the first 60 discharged queries are re-checked by cvc5 (inherited by the workers)
    reports = run_jobs(jobs, min(a.jobs, len(jobs)), JOB_TIMEOUT_S[a.tier if a.tier in JOB_TIMEOUT_S else 'quick'])
    if a.tier == 'thorough':
        from pyvc import thorough
        extra = thorough.run(prop, dsl, reports, seed, a.jobs)
    else:
        extra = None
    return finish(prop, a, dsl, reports, t0, seed, extra)


def finish(prop, a, dsl, reports, t0, seed, extra):
    kf = known_findings()
    known = [f for f in kf.get('findings', []) if prop in [x.strip() for x in f['property'].split(',')]]
    ledger = load_ledger(prop)
    obligations = 0
    discharged = 0
    refuted = []
    undecided = []
    crashed = []
    vacuous = []
    samples = []
    per_function = []
    solver_time = 0.0
    backends = {}
    lib_used = set()
    inlined = set()
    sources = {}
    for key in reports:
        c = dsl.REGISTRY.get(key)
        if c is not None and c.uses and c.uses != 'all':
            for u in c.uses:
                cu = dsl.REGISTRY.get(u)
                if cu is not None and cu.trusted:
                    lib_used.add('TRUSTED contract %s (assumed at its call sites in %s, never verified): %s' % (u, key, ' '.join(cu.doc.split())[:400]))
    for key, rep in reports.items():
        solver_time += rep['solver_time']
        lib_used |= set(rep['lib_used'])
        inlined |= set(rep['inlined'])
        sources.update(rep.get('source') or {})
        if rep['crash']:
            crashed.append((key, rep['crash']))
        for u in rep['undecided']:
            undecided.append((key, u))
        if rep['requires_sat'] is False:
            vacuous.append((key, 'requires unsatisfiable'))
        if not rep['reachable_exit'] and not rep['crash'] and not rep['undecided']:
            vacuous.append((key, 'no reachable exit (canary `ensures False` would pass)'))
        if not rep['clauses'] and not rep['crash'] and not rep['undecided']:
            vacuous.append((key, 'zero obligations'))
        per_function.append({'contract': key, 'function': rep['qualname'], 'paths': rep['paths'],
                             'normal_exits': rep['normal_paths'], 'exceptional_exits': rep['exc_paths'],
                             'exception_classes': rep['exc_kinds'], 'clauses': len(rep['clauses']),
                             'queries': rep['queries'], 'solver_s': round(rep['solver_time'], 3), 'wall_s': round(rep['wall'], 3),
                             'canary_refuted': bool(rep['reachable_exit']), 'requires_satisfiable': rep['requires_sat'],
                             'inlined_callees': rep['inlined'], 'callee_contracts_used': rep['contracts_used']})
        for label, c in rep['clauses'].items():
            obligations += 1
            for b in c['backend']:
                backends[b] = backends.get(b, 0) + 1
            if c['status'] == 'unsat':
                discharged += 1
            elif c['status'] == 'sat':
                refuted.append((key, label, c))
            if len(samples) < 12 or c['status'] != 'unsat':
                samples.append({'obligation': label, 'verdict': {'unsat': 'discharged', 'sat': 'refuted', 'unknown': 'undecided'}[c['status']],
                                'paths': c['paths'], 'backend': c['backend'], 'formula_chars': c['size'],
                                'solver_s': round(c['time'], 4)})
    # ---- classify refutations
    violations = []
    known_hits = []
    for key, label, c in refuted:
        contract = dsl.REGISTRY.get(key)
        kmatch = None
        for f in known:
            if f['clause'] == label and _sig_matches(f.get('signature'), c.get('model')):
                kmatch = f
                break
        if kmatch is not None:
            known_hits.append((label, kmatch))
            continue
        src = None
        why = ''
        from pyvc import replay as _rp
        if contract is not None:
            try:
                src = _rp.replay_source(contract, label, c.get('model') or {})
            except _rp.NoReplay as e:
                why = str(e)
            except Exception as e:
                why = 'replay construction failed: %s: %s' % (e.__class__.__name__, e)
        lem = dsl.LEMMAS.get(key[6:]) if key.startswith('lemma:') else None
        lemma_replay = False
        if lem is not None and lem.replay is not None:
            try:
                src = lem.replay(label, c.get('model') or {})
                lemma_replay = src is not None
            except Exception as e:
                why = 'lemma replay construction failed: %s' % e
        if contract is not None and callable(getattr(contract, 'replay', None)):
            # contract-specific replay script (symbolic heaps that the generic replay cannot rebuild): exit 1 = the real code violates
            try:
                s2 = contract.replay(label, c.get('model') or {})
                if s2 is not None:
                    src, lemma_replay = s2, True
            except Exception as e:
                why = 'contract replay construction failed: %s' % e
        path = write_replay(prop, label, c, contract, src, why)
        reproduced = None
        out = ''
        if lemma_replay:
            rc, out = run_replay(path)
            reproduced = (rc == 1)
            with open(path, 'a') as f:
                f.write('\n# native run on %s exited %d: %s\n' % (REPO, rc, out[-600:].replace('\n', ' | ')))
            violations.append((label, path, reproduced, c, out))
            continue
        if src:
            try:
                outcome, out = _rp.run_native(path, REPO)
                if outcome is not None:
                    holds = _rp.evaluate(contract, label, c.get('model') or {}, outcome)
                    reproduced = (holds is False)
                    with open(path, 'a') as f:
                        f.write('\n# native outcome on %s: %s\n# clause %s on the real code\n' % (
                            REPO, json.dumps(outcome)[:1500], {True: 'HOLDS', False: 'IS VIOLATED', None: 'could not be evaluated'}[holds]))
            except Exception as e:
                out = 'replay failed: %s: %s' % (e.__class__.__name__, e)
                with open(path, 'a') as f:
                    f.write('\n# %s\n' % out)
        violations.append((label, path, reproduced, c, out))
    # ---- ledger comparison
    ledger_missing = []
    if ledger is not None and not a.only:
        have = set()
        for key, rep in reports.items():
            have |= set(rep['clauses'])
        for cl in ledger.get('clauses', {}):
            if cl not in have:
                ledger_missing.append(cl)
    wall = time.time() - t0
    known_count = len(known_hits)
    ev = {
        'property_id': prop, 'tier': a.tier, 'seed': seed, 'level': 'proof',
        'coverage': {
            'obligations': obligations - known_count,
            'discharged': discharged,
            'checker_cmd': './check %s --tier %s' % (prop, a.tier),
            'trusted_base': trusted_base(lib_used),
            'samples': samples[:40],
            'functions_under_contract': per_function,
            'backends': backends,
            'solver_time_s': round(solver_time, 3),
            'known_findings_reported': [{'clause': l, 'what': f['what']} for l, f in known_hits],
            'refuted': [l for l, *_ in violations],
            'undecided': ['%s: %s' % u for u in undecided][:40],
            'vacuity': {'canaries_refuted': sum(1 for f in per_function if f['canary_refuted']), 'functions': len(per_function),
                        'problems': ['%s: %s' % v for v in vacuous]},
            'inlined_callees': sorted(inlined),
            'sources': sources,
            'sidecar_sha256': sidecar_hash(),
            'ledger_clauses_missing': ledger_missing,
            'explanation': 'Obligations are generated from the AST of the current working tree of /repo by the pyvc symbolic '
                           'executor, one query per path x clause, and discharged by z3 (rlimit) with cvc5 as second back end.',
        },
        'assumptions': sorted(lib_used) + ENGINE_ASSUMPTIONS,
        'wall_s': round(wall, 2),
        'violations': len(violations),
    }
    if extra:
        ev['coverage']['thorough'] = extra
    os.makedirs(os.path.join(HERE, 'evidence'), exist_ok=True)
    if not a.only and not os.environ.get('PYVC_NO_EVIDENCE'):      # (probes against scratch copies of the repository set PYVC_NO_EVIDENCE)
        with open(os.path.join(HERE, 'evidence', prop + '.json'), 'w') as f:
            json.dump(ev, f, indent=1, default=str)
    if a.update_ledger and not violations and not undecided and not crashed:
        led = {'property': prop, 'clauses': {}}
        for key, rep in reports.items():
            for label, c in rep['clauses'].items():
                led['clauses'][label] = 'discharged' if c['status'] == 'unsat' else 'known-finding'
        os.makedirs(os.path.join(HERE, 'ledger'), exist_ok=True)
        with open(os.path.join(HERE, 'ledger', prop + '.json'), 'w') as f:
            json.dump(led, f, indent=1, sort_keys=True)
    # ---- output
    print('%s tier=%s: %d obligations, %d discharged, %d refuted, %d known, %d undecided reasons, %.1fs (solver %.1fs)' % (
        prop, a.tier, obligations, discharged, len(violations), known_count, len(undecided), wall, solver_time))
    for l, f in known_hits:
        print('KNOWN-FINDING: property=%s %s [%s]' % (prop, f['what'], l))
    if a.v or violations or undecided or crashed or vacuous:
        for key, rep in reports.items():
            for label, c in rep['clauses'].items():
                if c['status'] != 'unsat' or a.v:
                    mdl = c['model']
                    show = os.environ.get('PYVC_SHOW')
                    if show and isinstance(mdl, dict):
                        mdl = {k: v for k, v in mdl.items() if re.search(show, k)}
                    print('  %-9s %s  paths=%d %s' % ({'unsat': 'ok', 'sat': 'REFUTED', 'unknown': 'UNKNOWN'}[c['status']], label, c['paths'],
                                                    (json.dumps(mdl, default=str)[:900] + ' | ' + c['detail'][:300] + ' | path=' + str(c.get('path'))) if c['status'] == 'sat' else ''))
    for label, path, reproduced, c, out in violations:
        rel = os.path.relpath(path, HERE)
        if reproduced:
            print('VIOLATION property=%s replay=%s obligation=%s reproduced-on-real-code' % (prop, rel, label))
        else:
            print('VIOLATION property=%s replay=%s obligation=%s no-failing-input-found' % (prop, rel, label))
    for k, u in undecided:
        print('UNDECIDED %s: %s' % (k, u))
    for k, c in crashed:
        print('CHECKER-CRASH %s: %s' % (k, c))
    for k, v in vacuous:
        print('VACUOUS %s: %s' % (k, v))
    for cl in ledger_missing:
        print('LEDGER-MISMATCH: clause %s is in the ledger but was not generated on this run' % cl)
    if violations:
        return 1
    if crashed or vacuous or obligations == 0:
        return 3
    if undecided or ledger_missing:
        return 2
    return 0


def _sig_matches(sig, model):
    """a known finding covers a *region* of inputs: {var: [lo, hi]} or {var: value}"""
    if not sig:
        return True
    if model is None:
        return False
    for k, v in sig.items():
        mv = model
        for part in k.split('.'):
            if isinstance(mv, dict) and part in mv:
                mv = mv[part]
            elif isinstance(mv, dict) and 'attrs' in mv and part in mv['attrs']:
                mv = mv['attrs'][part]
            else:
                return False
        if isinstance(v, list) and len(v) == 2:
            if not (isinstance(mv, (int, float)) and v[0] <= mv <= v[1]):
                return False
        elif mv != v:
            return False
    return True


ENGINE_ASSUMPTIONS = [
    'the pyvc engine itself (symbolic executor, encodings), z3 5.1.0, cvc5 1.0.3',
    'Python ints are mathematical integers (exact); floats are treated as reals (IEEE rounding ignored)',
    'attribute lookup follows the MRO as written in the source; no monkey-patching of instances other than what the code does',
    'MemoryError, KeyboardInterrupt, signals and RecursionError are not modelled',
]


def trusted_base(lib_used):
    return ['pyvc symbolic executor and its encodings of Python values (/verif/pyvc)',
            'z3-solver 5.1.0 (primary), /usr/bin/cvc5 1.0.3 (second back end)',
            'assumed library contracts in /verif/pyvc/libspec.py: ' + ('; '.join(sorted(lib_used)) if lib_used else 'none used')]


if __name__ == '__main__':
    sys.exit(main())
