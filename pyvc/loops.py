"""Loops cut at invariants: establish, havoc the write set, assume invariant, run one arbitrary
iteration, re-establish (and decrease the variant); separately continue after the loop."""
import ast
import z3
from .values import *
from . import ops
from .ctx import PathEnd, PyExc
from .dsl import call_clause, NS, S
from .heap import Snapshot, FrameDiff, havoc_path, fresh_like, resolve
from . import interp as I
from . import lib


def body_assigned(node):
    names = set()
    for st in node.body:
        wrap = ast.Module(body=[st], type_ignores=[])
        names |= I.assigned_names(wrap)
        if isinstance(st, (ast.Assign,)):
            for t in st.targets:
                _tgt(t, names)
        elif isinstance(st, (ast.AugAssign, ast.AnnAssign)):
            _tgt(st.target, names)
        elif isinstance(st, ast.For):
            _tgt(st.target, names)
    if isinstance(node, ast.For):
        _tgt(node.target, names)
    return names


MUTATORS = {'append', 'pop', 'extend', 'insert', 'remove', 'clear', 'update', 'add', 'discard', 'setdefault', 'sort', 'reverse'}


def body_mutated_locals(node):
    """local names whose (container) value is mutated in place by the loop body: x[i] = .., x[i] op= .., del x[i], x.append(..)"""
    out = set()
    for n in ast.walk(ast.Module(body=node.body, type_ignores=[])):
        if isinstance(n, (ast.Assign, ast.AugAssign, ast.Delete)):
            tgts = n.targets if isinstance(n, (ast.Assign, ast.Delete)) else [n.target]
            for t in tgts:
                if isinstance(t, ast.Subscript) and isinstance(t.value, ast.Name):
                    out.add(t.value.id)
        elif isinstance(n, ast.Call) and isinstance(n.func, ast.Attribute) and isinstance(n.func.value, ast.Name) \
                and n.func.attr in MUTATORS:
            out.add(n.func.value.id)
    return out


def _tgt(t, out):
    if isinstance(t, ast.Name):
        out.add(t.id)
    elif isinstance(t, (ast.Tuple, ast.List)):
        for e in t.elts:
            _tgt(e, out)


def _env(ip, frame, extra):
    env = {}
    f = frame
    chain = []
    while f is not None:
        chain.append(f)
        f = f.parent
    for f in reversed(chain):
        env.update(f.locals)
    from .envb import Env
    env.update({'S': S, 'ghost': NS(ip.state.ghost), 'old': ip.entry_old, 'E': Env(ip)})
    gf = gen_frame(frame)
    if gf is not None:
        env['_yields'] = gf.yields if isinstance(gf.yields, SymSeq) else PyList(gf.yields)
    env.update(ip.ctx.skolems)
    env.update(extra)
    return env


def _roots(frame):
    roots = {}
    f = frame
    chain = []
    while f is not None:
        chain.append(f)
        f = f.parent
    for f in reversed(chain):
        roots.update(f.locals)
    return roots


def check_inv(ip, spec, frame, extra, phase, node):
    env = _env(ip, frame, extra)
    for label, fn in spec.invariant.items():
        g = call_clause(fn, env)
        from .dsl import _b
        ip.ctx.oblige('%s/loop@%s:%s/%s' % (ip.verifying_key, spec.label or node.lineno_label, phase, label), ops.bterm(_b(g)))


def assume_inv(ip, spec, frame, extra):
    env = _env(ip, frame, extra)
    from .dsl import _b
    for label, fn in spec.invariant.items():
        ip.ctx.assume(ops.bterm(_b(call_clause(fn, env))))
    if spec.instances is not None:
        # the invariant clauses are proved for arbitrary Skolem values, so the induction hypothesis may be used at
        # other instances too (only clauses whose hypotheses do not depend on facts assumed about the Skolem itself)
        import inspect
        for inst in spec.instances(env):
            env2 = dict(env)
            env2.update(inst)
            for label, fn in spec.invariant.items():
                if set(inst) & set(inspect.signature(fn).parameters):
                    ip.ctx.assume(ops.bterm(_b(call_clause(fn, env2))))


def gen_frame(frame):
    f = frame
    while f is not None and f.yields is None:
        f = f.parent
    return f


def havoc(ip, node, frame, spec):
    if spec.yields_kind is not None:
        gf = gen_frame(frame)
        cur = gf.yields
        if not isinstance(cur, SymSeq):
            base = SymSeq(z3.K(IntSort, I._default_of(spec.yields_kind.sort())), z3.IntVal(0), spec.yields_kind)
            cur = base
        gf.yields = fresh_like(ip, cur, 'yields')
    for name in sorted(body_assigned(node)):
        if name in frame.locals:
            cur = frame.locals[name]
            kind = spec.havoc_kinds.get(name)
            if kind is None and (cur is None or isinstance(cur, (Obj, PyList, PyDict, tuple, FuncVal, Closure, Bound, str, OpaqueStr))):
                # a local of non-scalar kind assigned in the loop: its value inside an arbitrary iteration is unknown;
                # drop it (any read before assignment raises UnboundLocalError -> would surface as an obligation failure)
                if kind is None and isinstance(cur, (PyList, PyDict)) and name in spec.havoc_kinds:
                    pass
                del frame.locals[name]
                frame.locals_dropped = getattr(frame, 'locals_dropped', set()) | {name}
                continue
            frame.locals[name] = fresh_like(ip, cur, name, kind)
    for name in sorted(body_mutated_locals(node)):
        cur = frame.locals.get(name)
        if isinstance(cur, SymSeq):
            n = fresh_like(ip, cur, name)
            cur.arr, cur.n, cur.facts, cur.meas = n.arr, n.n, None, n.meas
        elif isinstance(cur, SymMap):
            n = fresh_like(ip, cur, name)
            cur.dom, cur.val, cur.size = n.dom, n.val, n.size
        elif isinstance(cur, (PyList, PyDict, PySet)):
            k = spec.havoc_kinds.get(name)
            if k is None and isinstance(cur, PyList) and len(cur.items) == 0:
                # a list that is empty at the loop head and only grows inside a loop the sidecar cuts (a local the sidecar
                # does not know): inside / after an arbitrary iteration it is SOME list of arbitrary values
                bk = Kind('box')
                base = SymSeq(z3.K(IntSort, I._default_of(bk.sort())), z3.IntVal(0), bk)
                frame.locals[name] = fresh_like(ip, base, name)
                continue
            if k is None:
                raise Unsupported('local container %s of concrete shape is mutated in a loop cut by an invariant: '
                                  'declare havoc_kinds[%r]' % (name, name))
            frame.locals[name] = fresh_like(ip, cur, name, k)
    roots = _roots(frame)
    for p in spec.havoc:
        if p.startswith('ghost.'):
            g = p[6:]
            ip.state.ghost[g] = fresh_like(ip, ip.state.ghost[g], 'g_' + g, spec.havoc_kinds.get(p))
        elif p.startswith('field:'):
            cn, a = p[6:].rsplit('.', 1)
            arr, kind = ip.state.fields[(cn, a)]
            ip.state.fields[(cn, a)] = (ip.ctx.fresh('fld_%s_%s' % (cn, a), arr.sort()), kind)
            if (cn, a) in ip.state.field_len:
                ip.state.field_len[(cn, a)] = ip.ctx.fresh('fldlen_%s_%s' % (cn, a), ip.state.field_len[(cn, a)].sort())
        else:
            havoc_path(ip, roots, p, spec.havoc_kinds)


def _allowed(ip, frame, spec, node=None):
    roots = _roots(frame)
    allowed = set()
    if node is not None:
        for name in body_mutated_locals(node):
            cur = frame.locals.get(name)
            if isinstance(cur, (SymSeq, SymMap, PyList, PyDict, PySet)):
                allowed.add((id(cur), '*'))
    for p in spec.havoc:
        if p.startswith('ghost.'):
            continue
        if p.startswith('field:'):
            cn, a = p[6:].rsplit('.', 1)
            allowed.add((('field', cn), a))
            continue
        loc = resolve(ip, roots, p)
        if loc is None:
            continue
        holder, attr = loc
        if isinstance(holder, SymObj):
            allowed.add((('fieldat', holder.cls.name, attr), holder.ref))
            continue
        allowed.add((id(holder), attr))
        cur = holder.attrs.get(attr) if isinstance(holder, Obj) else None
        if isinstance(cur, (PyList, PyDict, PySet, SymSeq, SymMap)):
            allowed.add((id(cur), '*'))
            if isinstance(cur, PyDict):
                for x in cur.vals:
                    if isinstance(x, (PyList, PyDict, PySet, SymSeq, SymMap)):
                        allowed.add((id(x), '*'))
    return allowed


def end_of_iteration(ip, node, frame, spec, extra, head_snap, variant0, allowed0=frozenset()):
    if spec.ghost_post is not None:
        spec.ghost_post(ip, frame, _env(ip, frame, extra))
    check_inv(ip, spec, frame, extra, 'preserved', node)
    if spec.variant is not None:
        v1 = call_clause(spec.variant, _env(ip, frame, extra))
        ip.ctx.oblige('%s/loop@%s:variant-decreases' % (ip.verifying_key, spec.label or node.lineno_label),
                      z3.And(ops.term(v1, 'int') < variant0, variant0 >= 0))
    # loop frame: everything the body changed must be in the declared havoc set
    fd = FrameDiff(ip, head_snap)
    # (the frame paths are resolved at the loop head and at the end of the iteration: a declared location may be re-bound)
    for desc, cond in fd.diffs(set(allowed0) | _allowed(ip, frame, spec, node)):
        ip.ctx.oblige('%s/loop@%s:frame/%s' % (ip.verifying_key, spec.label or node.lineno_label, desc),
                      z3.BoolVal(False) if cond is False else cond,
                      detail='location written by the loop body but not in the declared havoc set')
    raise PathEnd()


def _label(node):
    if not hasattr(node, 'lineno_label'):
        node.lineno_label = 'L%d' % node.lineno
    return node.lineno_label


def while_with_invariant(ip, node, frame, spec):
    _label(node)
    extra = {}
    if spec.ghost_init is not None:
        spec.ghost_init(ip, frame, _env(ip, frame, extra))
    check_inv(ip, spec, frame, extra, 'init', node)
    havoc(ip, node, frame, spec)
    assume_inv(ip, spec, frame, extra)
    head_snap = Snapshot(ip, _roots(frame))
    allowed0 = _allowed(ip, frame, spec, node)
    if ip.branch_on(ip.eval(node.test, frame)):
        variant0 = None
        if spec.variant is not None:
            variant0 = ops.term(call_clause(spec.variant, _env(ip, frame, extra)), 'int')
        if spec.ghost_pre is not None:
            spec.ghost_pre(ip, frame, _env(ip, frame, extra))
        try:
            ip.exec_block(node.body, frame)
        except I._Break:
            return
        except I._Continue:
            pass
        end_of_iteration(ip, node, frame, spec, extra, head_snap, variant0, allowed0)
    else:
        ip.exec_block(node.orelse, frame)


def for_with_invariant(ip, node, frame, spec, it):
    _label(node)
    ctx = ip.ctx
    # the iterated sequence is evaluated once, before the loop
    if isinstance(it, lib.DictView) and isinstance(it.d, SymMap):
        it = lib.dictview_list(ip, it)      # iteration over a dict view: the enumeration contract of list(view)
    elif isinstance(it, SymMap):
        it = lib.symmap_keys(ip, it)
    if isinstance(it, lib.SymRange):
        lo, hi = ops.term(it.lo, 'int'), ops.term(it.hi, 'int')
        n = z3.If(hi > lo, hi - lo, z3.IntVal(0))
        elem = lambda i: ops.concretize(Sym(lo + i, 'int'))
    elif isinstance(it, SymSeq):
        seq = it.copy()          # iteration over a list mutated in the body is not modelled
        n = seq.n
        elem = lambda i: lib.getitem(ip, seq, Sym(i, 'int'))
    elif isinstance(it, lib.Enumerate) and isinstance(it.inner, SymSeq):
        seq = it.inner.copy()
        n = seq.n
        st = it.start
        elem = lambda i: (ops.binop('Add', st, Sym(i, 'int')), lib.getitem(ip, seq, Sym(i, 'int')))
    elif isinstance(it, PyList) or isinstance(it, tuple):
        items = list(it.items) if isinstance(it, PyList) else list(it)
        n = z3.IntVal(len(items))

        def elem(i):
            c = ops.const_int(Sym(i, 'int'))
            if c is not None:
                return items[c]
            for k in range(len(items)):
                if ctx.branch(ops.sbool(i == k)):
                    return items[k]
            raise PathEnd()
    else:
        raise Unsupported('for-loop with invariant over %r' % (it,))
    extra = {'_i': 0, '_n': ops.concretize(Sym(n, 'int')), '_it': it}
    if spec.ghost_init is not None:
        spec.ghost_init(ip, frame, _env(ip, frame, extra))
    check_inv(ip, spec, frame, extra, 'init', node)
    if spec.skip_when_empty and not ctx.branch(ops.sbool(n > 0)):
        # a loop over an empty sequence does nothing at all (no havoc): decided by a fork instead of the cut
        ip.exec_block(node.orelse, frame)
        return
    havoc(ip, node, frame, spec)
    i = ctx.fresh('_i', IntSort)
    ctx.assume(z3.And(i >= 0, i <= n))
    extra['_i'] = Sym(i, 'int')
    assume_inv(ip, spec, frame, extra)
    head_snap = Snapshot(ip, _roots(frame))
    allowed0 = _allowed(ip, frame, spec, node)
    if ctx.branch(ops.sbool(i < n)):
        variant0 = None
        if spec.ghost_pre is not None:
            spec.ghost_pre(ip, frame, _env(ip, frame, extra))
        x = elem(i)
        ip.assign(node.target, x, frame)
        try:
            ip.exec_block(node.body, frame)
        except I._Break:
            return
        except I._Continue:
            pass
        extra['_i'] = Sym(i + 1, 'int')
        end_of_iteration(ip, node, frame, spec, extra, head_snap, None, allowed0)
    else:
        ip.exec_block(node.orelse, frame)
