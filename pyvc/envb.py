"""E: the builder handed to contract setup() functions to create symbolic inputs."""
import z3
from .values import *
from . import ops
from .dsl import S


class Env:
    def __init__(self, ip):
        self.ip = ip
        self.ctx = ip.ctx
        self.S = S

    # ---- scalars
    def _reg(self, name, v):
        self.ctx.inputs[name] = v
        return v

    def int(self, name, cls=None, lo=None, hi=None):
        t = z3.Int(name)
        if lo is not None:
            self.ctx.assume(t >= ops.term(lo, 'int'))
        if hi is not None:
            self.ctx.assume(t <= ops.term(hi, 'int'))
        if isinstance(lo, int) and isinstance(hi, int):
            ops.declare_bounds(t, lo, hi)
        ci = self.cls(cls) if isinstance(cls, str) else cls
        return self._reg(name, Sym(t, 'int', ci))

    def bool(self, name):
        return self._reg(name, Sym(z3.Bool(name), 'bool'))

    def real(self, name, lo=None, hi=None):
        t = z3.Real(name)
        if lo is not None:
            self.ctx.assume(t >= ops.term(lo, 'real'))
        if hi is not None:
            self.ctx.assume(t <= ops.term(hi, 'real'))
        return self._reg(name, Sym(t, 'real'))

    def bytes(self, name, length=None, maxlen=None):
        t = z3.Const(name, BytesSort)
        if length is not None:
            c = ops.const_int(length)
            if c is not None:
                ops.set_len(t, c)
                self.ctx.assume(z3.Length(t) == c)
            else:
                ops.set_len_term(t, ops.term(length, 'int'))
        else:
            n = z3.Int(name + '!len')
            self.ctx.assume(n >= 0)
            ops.set_len_term(t, n)
        if maxlen is not None:
            self.ctx.assume(ops.blen(t) <= ops.term(maxlen, 'int'))
        return self._reg(name, Sym(t, 'bytes'))

    def str(self, name):
        return self._reg(name, Sym(z3.String(name), 'str'))

    def bitset(self, name, fn=None, support=None):
        if fn is None:
            f = z3.Function(name, IntSort, BoolSort)
            fn = lambda j, f=f: f(j)
        return self._reg(name, BitSet(fn, support))

    def pred(self, name, *sorts):
        return z3.Function(name, *sorts)

    def skolem(self, name, ty='int'):
        if isinstance(ty, Kind):
            # a Skolem constant of a structured kind (e.g. an address pair): handed to clauses as its z3 term
            return z3.Const(name, ty.sort())
        t = z3.Const(name, Kind(ty).sort())
        return self._reg(name, Sym(t, ty))

    # ---- objects
    def cls(self, qual):
        return self.ip.repo.cls(qual)

    def classval(self, qual):
        return ClassVal(self.cls(qual))

    def obj(self, qual, tag=None, **attrs):
        info = self.cls(qual) if isinstance(qual, str) else qual
        o = Obj(info, dict(attrs), tag)
        if tag:
            self.ctx.inputs[tag] = o
        self.ip.fill_unknown_attrs(o)
        return o

    def plain_obj(self, tag=None, **attrs):
        return Obj(None, dict(attrs), tag)

    def enum(self, qual, name, among=None):
        """a symbolic member of the enum class"""
        info = self.cls(qual)
        info.ensure_evaluated()
        members = info.enum_members
        v = z3.Int(name)
        vals = [val for (n, val) in members if among is None or n in among]
        self.ctx.assume(z3.Or([v == x for x in vals]))
        if all(isinstance(x, int) for x in vals):
            ops.declare_bounds(v, min(vals), max(vals))
        o = Obj(info, {'value': Sym(v, 'int')}, tag=name)
        self.ctx.inputs[name] = o
        return o

    def member(self, qual, name):
        info = self.cls(qual)
        info.ensure_evaluated()
        return info.class_attrs[name]

    def elem(self, seq, i, old=None):
        """element i of a symbolic list as a value (fields of objects are read in the live state, or in the
        pre-state when `old` (the old namespace) is given)"""
        if isinstance(seq, PyList):
            c = ops.const_int(i)
            v = seq.items[c]
            return v.fwd if isinstance(v, Obj) and v.fwd is not None else v
        it = ops.term(i, 'int')
        v = self.ip.wrap(z3.Select(seq.arr, it), seq.elem)
        if old is not None and isinstance(v, SymObj):
            from .heap import SnapState
            v.st = SnapState(old._snap)
        return v

    def member_logger(self):
        from . import libspec
        return libspec._LOGGER

    def list(self, items=()):
        return PyList(list(items))

    def dict(self, pairs=()):
        d = PyDict()
        for k, v in pairs:
            d.keys.append(k)
            d.vals.append(v)
        return d

    def symseq(self, name, kind):
        arr = z3.Const(name, z3.ArraySort(IntSort, kind.sort()))
        n = z3.Int(name + '_len')
        self.ctx.assume(n >= 0)
        s = SymSeq(arr, n, kind)
        self.ctx.inputs[name] = s
        return s

    def symmap(self, name, kkind, vkind, with_size=True, key_inv=None):
        dom = z3.Const(name + '_dom', z3.ArraySort(kkind.sort(), BoolSort))
        val = z3.Const(name + '_val', z3.ArraySort(kkind.sort(), vkind.sort()))
        size = None
        if with_size:
            size = z3.Int(name + '_size')
            self.ctx.assume(size >= 0)
        m = SymMap(dom, val, kkind, vkind, size, key_inv)
        self.ctx.inputs[name] = m
        return m

    def kind(self, ty, cls=None, inner=None):
        return Kind(ty, self.cls(cls) if isinstance(cls, str) else cls, inner)

    def alloc(self):
        """allocation ghost: every object reference reachable in the pre-state is below alloc0"""
        a0 = z3.Int('alloc0')
        self.ctx.assume(a0 > 0)
        self.ip.state.ghost['alloc0'] = a0
        self.ip.state.ghost['alloc'] = a0
        return a0

    def measure(self, seq, name, value=None):
        """attach a ghost measure (homomorphic in the elements; weights in lib.MEASURES) to a symbolic list"""
        from . import lib
        m = lib.MEASURES[name]
        t = value if value is not None else z3.Const('%s_of_%d' % (name, id(seq) % 100000), m.sort)
        seq.meas[name] = t
        if m.sort == IntSort and m.nonneg:
            self.ctx.assume(t >= 0)
            self.ctx.assume(z3.Implies(seq.n == 0, t == 0))
        m.link(self.ctx, seq)
        return Sym(t, 'int' if m.sort == IntSort else 'bytes')

    def field(self, clsqual, attr, kind, inv=None):
        """declare a field map for symbolic objects of the class (inv: invariant of the field, instantiated at every read)"""
        info = self.cls(clsqual)
        arr = z3.Const('fld_%s_%s' % (info.name, attr), z3.ArraySort(IntSort, kind.sort()))
        self.ip.state.fields[(info.name, attr)] = (arr, kind)
        if kind.ty == 'bytes':
            self.ip.state.field_len[(info.name, attr)] = z3.Const('fldlen_%s_%s' % (info.name, attr), z3.ArraySort(IntSort, IntSort))
        if inv is not None:
            self.ip.state.field_inv[(info.name, attr)] = inv

    def symobj(self, name, clsqual):
        info = self.cls(clsqual)
        return SymObj(z3.Int(name), info, self.ip.state)

    def opaque(self, name, **spec):
        if not spec:
            spec = {'returns': None}
        return Opaque(name, spec)

    def set_class_attr(self, clsqual, attr, value):
        info = self.cls(clsqual)
        self.ip.state.class_over[(info.qualname, attr)] = value

    def pack(self, fmt, *vals):
        """struct.pack through the same library contract the code uses (spec encodings share its pk_* functions)"""
        from . import libspec
        return libspec.struct_pack(self.ip, fmt, *vals)

    def instance(self, name, value):
        """callee postconditions quantified over the Skolem `name` are also instantiated at `value`"""
        self.ctx.instances.setdefault(name, []).append(value)

    def assume(self, c):
        if isinstance(c, Sym):
            self.ctx.assume(c.t)
        else:
            self.ctx.assume(c)

    def ghost(self, name, value):
        self.ip.state.ghost[name] = value
        return value
