"""Verification of one function against its contract: path enumeration by re-execution."""
import time
import traceback
import z3
from .values import *
from . import ops
from .ctx import Ctx, PyExc, PathEnd, ObligationResult
from .interp import Interp, Frame, _Return
from .dsl import call_clause, NS, S, REGISTRY, LEMMAS, _b
from .heap import Snapshot, FrameDiff, resolve
from .envb import Env
from . import loader
from . import libspec


class FunctionReport:
    def __init__(self, key, qualname):
        self.key = key
        self.qualname = qualname
        self.clauses = {}           # label -> dict(status, model, backend, time, paths, detail)
        self.paths = 0
        self.normal_paths = 0
        self.exc_paths = 0
        self.queries = 0
        self.solver_time = 0.0
        self.wall = 0.0
        self.undecided = []         # reasons (Unsupported / unknown)
        self.crash = None
        self.inlined = set()
        self.contracts_used = set()
        self.lib_used = set()
        self.reachable_exit = False
        self.requires_sat = None
        self.exc_kinds = {}
        self.source = None

    def add(self, r):
        c = self.clauses.setdefault(r.label, {'status': 'unsat', 'model': None, 'backend': set(), 'time': 0.0, 'paths': 0,
                                              'detail': '', 'size': 0, 'path': None})
        c['paths'] += 1
        c['time'] += r.time
        c['backend'].add(r.backend)
        c['size'] = max(c['size'], r.size)
        if r.status == 'sat' and c['status'] != 'sat':
            c['status'] = 'sat'
            c['model'] = r.model
            c['detail'] = r.detail
            c['path'] = r.path
        elif r.status == 'unknown' and c['status'] == 'unsat':
            c['status'] = 'unknown'
            c['detail'] = r.detail

    def to_dict(self):
        d = dict(self.__dict__)
        d['clauses'] = {k: dict(v, backend=sorted(v['backend'])) for k, v in self.clauses.items()}
        d['inlined'] = sorted(self.inlined)
        d['contracts_used'] = sorted(self.contracts_used)
        d['lib_used'] = sorted(self.lib_used)
        return d


def setup_interp(ctx, contract, registry):
    ip = Interp(ctx)
    libspec.install_logger_globals(ip.repo)
    ip.verifying = contract.qualname
    ip.verifying_key = contract.key
    uses = contract.uses
    if uses == 'all':
        ip.contracts = {c.qualname: c for c in registry.values() if c.variant_name is None}
    elif uses:
        ip.contracts = {}
        for u in uses:
            c = registry[u]
            ip.contracts[c.qualname] = c
    ip.hooks.update(contract.hooks)
    ctx.cvc5_first = list(getattr(contract, 'cvc5_first', []) or [])
    return ip


def run_path(contract, decisions, registry, first):
    ctx = Ctx(decisions, new_path=True)
    ip = setup_interp(ctx, contract, registry)
    info = ip.repo.func(contract.qualname)
    E = Env(ip)
    out = {'kind': None}
    try:
        contract.bind_loops(info.node)
        args = contract.setup(E)
        kwargs = args.pop('__kwargs__', {}) if isinstance(args, dict) else {}
        for name, ty in contract.skolems.items():
            ctx.skolems[name] = E.skolem('sk_' + name, ty)
        if contract.ghost_init is not None:
            contract.ghost_init(E)
        env = dict(args)
        if info.node.args.kwarg is not None and info.node.args.kwarg.arg not in env:
            d = PyDict()
            for _k, _v in kwargs.items():
                d.keys.append(_k)
                d.vals.append(_v)
            env[info.node.args.kwarg.arg] = d       # clauses may name the **kwargs parameter
        env.update({'S': S, 'E': E, 'ghost': NS(ip.state.ghost)})
        env.update(ctx.skolems)
        for label, fn in contract.requires.items():
            ctx.assume(ops.bterm(_b(call_clause(fn, env))))
        if first:
            out['requires_sat'] = ctx.feasible(z3.BoolVal(True))
        old = Snapshot(ip, args)
        for _n, _v in list(ctx.inputs.items()):
            ctx.inputs[_n] = old.clone(_v)      # counter-models describe the pre-state
        ip.entry_old = NS(dict(old.roots, ghost=NS(old.ghost), _snap=old))
        env['old'] = ip.entry_old
        # resolve the frame against the entry heap
        allowed = None
        if contract.modifies is not None:
            allowed = set()
            for p in contract.modifies:
                if p.startswith('ghost.') and p.count('.') == 1:
                    continue
                if p.startswith('class:'):
                    q, a = p[6:].rsplit('.', 1)
                    allowed.add((('class', q), a))
                    continue
                if p.startswith('field:'):
                    q, a = p[6:].rsplit('.', 1)
                    allowed.add((('field', q), a))
                    continue
                roots = args
                if p.startswith('ghost.'):
                    # a heap location reached through a ghost reference (e.g. the server context a pooled client belongs to)
                    roots = {'ghost': Obj(None, dict(ip.state.ghost))}
                loc = resolve(ip, roots, p)
                if loc is None:
                    raise Unsupported('modifies path %s does not resolve' % p)
                holder, attr = loc
                if isinstance(holder, SymObj):
                    allowed.add((('fieldat', holder.cls.name, attr), holder.ref))
                    continue
                allowed.add((id(holder), attr))
                cur = holder.attrs.get(attr) if isinstance(holder, Obj) else None
                if isinstance(cur, (PyList, PyDict, PySet, SymSeq, SymMap)):
                    allowed.add((id(cur), '*'))
                    if isinstance(cur, PyDict):
                        for x in cur.vals:
                            if isinstance(x, (PyList, PyDict, PySet, SymSeq, SymMap)):
                                allowed.add((id(x), '*'))

        def frame_cb(fr):
            fr.contract = contract
            ip.in_body = True

        outcome = None
        try:
            pos_params = [a.arg for a in info.node.args.posonlyargs + info.node.args.args]
            call_args = []
            call_kwargs = dict(kwargs)
            for p in pos_params:
                if p in args:
                    call_args.append(args[p])
                else:
                    break
            for k, v in args.items():
                if k not in pos_params[:len(call_args)]:
                    call_kwargs[k] = v
            result = ip.run_body(info, call_args, call_kwargs, frame_cb)
            outcome = ('return', result)
        except PyExc as e:
            outcome = ('raise', e)
        out['reachable'] = ctx.feasible(z3.BoolVal(True))
        env['new'] = NS(dict(args, ghost=NS(ip.state.ghost)))
        env['ghost'] = NS(ip.state.ghost)
        env['events'] = ip.state.events
        if contract.finish is not None:
            contract.finish(ip, env)
        pre = contract.key
        if outcome[0] == 'return':
            env['result'] = outcome[1]
            out['kind'] = 'return'
            for label, fn in contract.ensures.items():
                ctx.oblige('%s/ensures/%s' % (pre, label), ops.bterm(_b(call_clause(fn, env))))
            for label, (excname, cond) in contract.raises.items():
                ctx.oblige('%s/raises/%s' % (pre, label), ops.bterm(ops.neg(_b(call_clause(cond, env)))),
                           detail='returned normally although the condition for %s holds' % excname)
        else:
            e = outcome[1]
            out['kind'] = 'raise:' + e.name
            env['exc'] = e
            anc = e.ancestors()
            matched = False
            for label, (excname, cond) in contract.raises.items():
                if excname in anc:
                    matched = True
                    ctx.oblige('%s/raises/%s' % (pre, label), ops.bterm(_b(call_clause(cond, env))),
                               detail='raised %s (%s) although the condition does not hold' % (e.name, e.msg))
            if not matched and not any(x in anc for x in contract.may_raise):
                ctx.oblige('%s/raises/no-other-exception' % pre, z3.BoolVal(False),
                           detail='unexpected %s: %s' % (e.name, e.msg))
            for label, fn in contract.ensures_exc.items():
                ctx.oblige('%s/ensures_exc/%s' % (pre, label), ops.bterm(_b(call_clause(fn, env))))
        if allowed is not None:
            fd = FrameDiff(ip, old)
            bad = fd.diffs(allowed)
            conds = []
            descs = []
            for desc, cond in bad:
                descs.append(desc)
                conds.append(z3.BoolVal(False) if cond is False else (z3.BoolVal(True) if cond is True else cond))
            ctx.oblige('%s/modifies/frame' % pre, z3.And(conds) if conds else z3.BoolVal(True),
                       detail='locations outside the frame that may change: ' + '; '.join(descs[:8]))
    except PathEnd:
        out['kind'] = out['kind'] or 'cut'
    except Unsupported as e:
        out['kind'] = 'unsupported'
        out['reason'] = str(e)
    out['results'] = ctx.results
    out['forks'] = ctx.forks
    out['queries'] = ctx.queries
    out['solver_time'] = ctx.solver_time
    out['inlined'] = ip.inline_log
    out['contracts_used'] = ip.contract_log
    out['lib_used'] = ctx.lib_used
    return out


def verify_contract(key, registry=None):
    registry = registry or REGISTRY
    contract = registry[key]
    rep = FunctionReport(key, contract.qualname)
    t0 = time.time()
    try:
        work = [[]]
        first = True
        while work:
            dec = work.pop()
            rep.paths += 1
            if rep.paths > contract.max_paths:
                rep.undecided.append('path limit %d exceeded' % contract.max_paths)
                break
            try:
                o = run_path(contract, dec, registry, first)
            except z3.Z3Exception:
                # z3 occasionally fails with an internal error ('unreachable') on a query it answers when asked again:
                # the path is re-run once from scratch (fresh context); a second failure is reported as a checker crash
                o = run_path(contract, dec, registry, first)
            if first:
                rep.requires_sat = o.get('requires_sat')
            first = False
            for r in o['results']:
                rep.add(r)
            work.extend(o['forks'])
            rep.queries += o['queries']
            rep.solver_time += o['solver_time']
            rep.inlined |= o['inlined']
            rep.contracts_used |= o['contracts_used']
            rep.lib_used |= o['lib_used']
            k = o['kind']
            if k == 'return':
                rep.normal_paths += 1
                if o.get('reachable'):
                    rep.reachable_exit = True
            elif k and k.startswith('raise:'):
                rep.exc_paths += 1
                rep.exc_kinds[k[6:]] = rep.exc_kinds.get(k[6:], 0) + 1
                if o.get('reachable'):
                    rep.reachable_exit = True
            elif k == 'unsupported':
                rep.undecided.append(o['reason'])
        for label, c in rep.clauses.items():
            if c['status'] == 'unknown':
                rep.undecided.append('solver unknown on %s %s' % (label, c['detail']))
    except Exception as e:       # engine crash: never a violation
        rep.crash = '%s: %s\n%s' % (e.__class__.__name__, e, traceback.format_exc())
    rep.wall = time.time() - t0
    try:
        rep.source = loader.repo().sources_used()
    except Exception:
        rep.source = {}
    return rep


def verify_lemma(name):
    lem = LEMMAS[name]
    rep = FunctionReport('lemma:' + name, 'lemma:' + name)
    t0 = time.time()
    try:
        ctx = Ctx(new_path=True)
        ip = Interp(ctx)
        E = Env(ip)
        goals = lem.fn(E)
        rep.requires_sat = ctx.feasible(z3.BoolVal(True))
        for label, g in goals.items():
            try:
                ctx.oblige('lemma:%s/%s' % (name, label), ops.bterm(_b(g)))
            except PathEnd:
                break
        for r in ctx.results:
            rep.add(r)
        rep.paths = 1
        rep.normal_paths = 1
        rep.reachable_exit = ctx.feasible(z3.BoolVal(True))
        rep.queries = ctx.queries
        rep.solver_time = ctx.solver_time
        rep.lib_used = ctx.lib_used
        for label, c in rep.clauses.items():
            if c['status'] == 'unknown':
                rep.undecided.append('solver unknown on %s %s' % (label, c['detail']))
    except Unsupported as e:
        rep.undecided.append(str(e))
    except Exception as e:
        rep.crash = '%s: %s\n%s' % (e.__class__.__name__, e, traceback.format_exc())
    rep.wall = time.time() - t0
    return rep
