"""Contract language of the sidecar files (/verif/contracts/*.py).

A contract is a class decorated with @contract(<qualified function name>, props=[...]) holding
  setup(E)      builds the symbolic inputs / pre-state (the shape and type invariants of the inputs)
  requires      {label: lambda args...}           assumed at entry, proved at modular call sites
  ensures       {label: lambda ...}               proved at every normal exit
  raises        {label: (ExcName, lambda ...)}    raised  <=>  condition (over the pre-state)
  may_raise     [ExcName, ...]                    allowed without a condition
  ensures_exc   {label: lambda ...}               proved at every exceptional exit
  modifies      [path, ...]                       frame: everything else reachable from the inputs is proved unchanged
  loops         {ordinal: LoopSpec}               invariants (source order of while/for statements in the function)
  skolems       {name: 'int'|...}                 universally quantified spec variables (fresh constants)
  returns       kind of the result for modular use ('int','bool','bytes','none',... or callable)
Clause lambdas receive by parameter name: the function's parameters (values at entry for `requires`, current for others),
old, new, result, exc, ghost, S, E and the skolems.
"""
import inspect
import z3
from .values import *
from . import ops

REGISTRY = {}          # qualname -> Contract
LEMMAS = {}            # name -> Lemma
ORDER = []


class LoopSpec:
    def __init__(self, invariant=None, havoc=(), variant=None, ghost_pre=None, ghost_post=None, havoc_kinds=None, label=None, instances=None, ghost_init=None, yields_kind=None, skip_when_empty=False):
        self.invariant = invariant or {}        # {label: lambda}
        self.havoc = list(havoc)                # heap paths written by the loop (locals are found syntactically)
        self.variant = variant                  # lambda -> int term, must decrease and be >= 0
        self.ghost_pre = ghost_pre              # fn(ip, frame, env) run at the start of each iteration (ghost code)
        self.ghost_post = ghost_post            # fn(ip, frame, env) run at the end of each iteration
        self.havoc_kinds = havoc_kinds or {}
        self.label = label
        self.yields_kind = yields_kind          # generator functions: kind of the yielded values (the yield list becomes symbolic in the loop)
        self.ghost_init = ghost_init            # fn(ip, frame, env) run once before the invariant is first checked (library-contract instantiations)
        self.skip_when_empty = skip_when_empty  # for-loops: fork on an empty sequence instead of cutting (no havoc then)
        self.instances = instances              # fn(env) -> [ {skolem name: value} ]: further instances of the (universally valid) invariant assumed at the loop head


class Contract:
    def __init__(self, qualname, props, cls, variant=None):
        self.qualname = qualname
        self.props = props
        self.variant_name = variant             # several contracts (views) may exist for one function
        self.key = qualname if variant is None else '%s@%s' % (qualname, variant)
        d = cls.__dict__
        self.setup = d.get('setup')
        self.requires = d.get('requires', {})
        self.ensures = d.get('ensures', {})
        self.raises = d.get('raises', {})
        self.may_raise = d.get('may_raise', [])
        self.ensures_exc = d.get('ensures_exc', {})
        self.modifies = d.get('modifies', None)       # None = frame not claimed
        self.loops = d.get('loops', {})
        self.skolems = d.get('skolems', {})
        self.returns = d.get('returns', None)
        self.havoc_kinds = d.get('havoc_kinds', {})
        self.uses = d.get('uses', None)               # contracts applied modularly at call sites (None: none; 'all')
        self.hooks = d.get('hooks', {})
        self.ghost_init = d.get('ghost_init')
        self.note = d.get('note', '')
        self.replay = d.get('replay')
        self.known = d.get('known', {})
        self.trusted = d.get('trusted', False)        # contract only assumed (never verified): listed as such
        self.max_paths = d.get('max_paths', 4000)
        self.constructs = d.get('constructs', False)  # __init__ contracts: at modular call sites the new object is a fresh symbolic object
        self.effect = d.get('effect')                 # trusted summaries only: fn(ip, argmap) ghost/event code run at modular call sites after the havoc
        self.loops_optional = d.get('loops_optional', False)
        self.cvc5_first = d.get('cvc5_first', [])      # label regexes of clauses to hand to cvc5 before z3
        self.finish = d.get('finish')                 # fn(ip, env) ghost code run at exit before clauses
        self.doc = (cls.__doc__ or '').strip()
        self._loop_nodes = None

    def loop_spec_for(self, node):
        return self._loop_map.get(id(node)) if getattr(self, '_loop_map', None) else None

    def bind_loops(self, fnode):
        """key invariants by loop ordinal (source order); a mismatch is UNDECIDED, not a violation"""
        import ast
        loops = [n for n in ast.walk(fnode) if isinstance(n, (ast.While, ast.For))]
        loops.sort(key=lambda n: (n.lineno, n.col_offset))
        self._loop_map = {}
        for k, spec in self.loops.items():
            if k >= len(loops):
                if self.loops_optional:
                    continue        # the function may have lost its loop: the remaining clauses are still checked
                raise Unsupported('loop ordinal %d of %s does not exist (source changed?)' % (k, self.qualname))
            self._loop_map[id(loops[k])] = spec
        self.n_loops = len(loops)


def contract(qualname, props=(), variant=None):
    def deco(cls):
        c = Contract(qualname, list(props), cls, variant)
        REGISTRY[c.key] = c
        ORDER.append(c.key)
        return cls
    return deco


class Lemma:
    def __init__(self, name, props, fn, doc='', replay=None):
        self.name = name
        self.props = props
        self.fn = fn
        self.doc = doc
        self.replay = replay        # fn(label, model) -> python source of a native replay (exit 1 = the real code violates it)


def lemma(name, props=(), replay=None):
    """a pure implication between contract predicates: fn(E) returns {label: goal} after building its own symbols"""
    def deco(fn):
        LEMMAS[name] = Lemma(name, list(props), fn, (fn.__doc__ or '').strip(), replay)
        return fn
    return deco


def call_clause(fn, env):
    sig = inspect.signature(fn)
    args = []
    for p in sig.parameters.values():
        if p.name in env:
            args.append(env[p.name])
        elif p.default is not inspect._empty:
            args.append(p.default)
        else:
            raise Unsupported('clause parameter %s is not available' % p.name)
    return fn(*args)


class NS:
    """attribute namespace"""
    def __init__(self, d):
        self.__dict__.update(d)


# ---------------------------------------------------------------------------------------------
# S: specification helpers usable inside clause lambdas

class _S:
    M = 65535
    T = 32767

    @staticmethod
    def implies(a, b):
        return ops.implies(_b(a), _b(b))

    @staticmethod
    def And(*xs):
        r = True
        for x in xs:
            r = ops.and_(r, _b(x))
        return r

    @staticmethod
    def Or(*xs):
        r = False
        for x in xs:
            r = ops.or_(r, _b(x))
        return r

    @staticmethod
    def Not(a):
        return ops.neg(_b(a))

    @staticmethod
    def iff(a, b):
        a, b = _b(a), _b(b)
        if isinstance(a, bool) and isinstance(b, bool):
            return a == b
        return ops.sbool(ops.bterm(a) == ops.bterm(b))

    @staticmethod
    def ite(c, a, b):
        return ops.ite(_b(c), a, b)

    @staticmethod
    def eq(a, b):
        return ops.equal(a, b)

    @staticmethod
    def is_none(a):
        return a is None

    @staticmethod
    def len(x):
        if isinstance(x, (bytes, str, tuple)):
            return len(x)
        if isinstance(x, PyList):
            return len(x.items)
        if isinstance(x, SymSeq):
            return Sym(x.n, 'int')
        if isinstance(x, Sym) and x.ty == 'bytes':
            return ops.bytes_len(x)
        if isinstance(x, Sym):
            return Sym(z3.Length(x.t), 'int')
        raise Unsupported('S.len')

    @staticmethod
    def bit(x, j):
        """bit j of a non-negative int / bit set"""
        B = ops.as_bitset(x) if not isinstance(x, Sym) else None
        if B is None:
            t = x.t
            jt = ops.term(j, 'int')
            c = ops.const_int(j)
            if c is None:
                raise Unsupported('S.bit of a plain int at a symbolic position')
            return ops.sbool((t / z3.IntVal(2 ** c)) % 2 == 1)
        return B.has(j)

    @staticmethod
    def same_bits(a, b, k):
        return ops.bitset_eq(a, b, k)

    # ring arithmetic on 1..M (spec functions written from the property statement)
    @staticmethod
    def radd(a, k):
        """a (+) k on the ring 1..M for -M < k < M"""
        at, kt = ops.term(a, 'int'), ops.term(k, 'int')
        r = at + kt
        return Sym(z3.If(r < 1, r + _S.M, z3.If(r > _S.M, r - _S.M, r)), 'int')

    @staticmethod
    def rsub(a, k):
        at, kt = ops.term(a, 'int'), ops.term(k, 'int')
        r = at - kt
        return Sym(z3.If(r < 1, r + _S.M, z3.If(r > _S.M, r - _S.M, r)), 'int')

    @staticmethod
    def rdist(c, x):
        """how many steps x is behind c on the ring: (c - x) mod M, in 0..M-1"""
        ct, xt = ops.term(c, 'int'), ops.term(x, 'int')
        return Sym((ct - xt) % _S.M, 'int')

    @staticmethod
    def in_window(x, c, w):
        """x in {c (-) k | 0 <= k <= w}; empty when c = 0"""
        ct, xt, wt = ops.term(c, 'int'), ops.term(x, 'int'), ops.term(w, 'int')
        return ops.sbool(z3.And(ct != 0, xt >= 1, xt <= _S.M, (ct - xt) % _S.M <= wt))

    @staticmethod
    def congruent(a, b):
        at, bt = ops.term(a, 'int'), ops.term(b, 'int')
        return ops.sbool((at - bt) % _S.M == 0)

    @staticmethod
    def ival(x):
        """the plain integer value of an int-like value (drops the class tag)"""
        return Sym(ops.term(x, 'int'), 'int')

    @staticmethod
    def enum_is(x, member):
        return ops.equal(x.value if isinstance(x, Obj) else x, member.value if isinstance(member, Obj) else member)

    @staticmethod
    def same(a, b):
        return ops.identical(a, b)

    @staticmethod
    def term(x, want=None):
        return ops.term(x, want)

    @staticmethod
    def wrap(t, ty='int'):
        return ops.concretize(Sym(t, ty))

    @staticmethod
    def bool(t):
        return ops.sbool(t)

    @staticmethod
    def bytes_eq(a, b):
        return ops.equal(a, b)

    @staticmethod
    def concat(*xs):
        return ops.bytes_concat(list(xs))

    @staticmethod
    def pk(code, v):
        """the packed big-endian field (same uninterpreted pk_* function the struct contract uses)"""
        from . import libspec
        if code in 'B?':
            c = ops.const_int(v)
            if c is not None:
                return bytes([c])
            return Sym(z3.Unit(z3.Int2BV(ops.term(v, 'int'), 8)), 'bytes')
        x = ops.term(v, 'int')
        t = libspec.pk_fn(code)(x)
        ops.set_len(t, libspec.FIELD[code][0])
        # the instantiated axioms of the struct contract for this term (the specification has no path context: queued)
        ops.XOR8_FACTS.append((t, z3.And(z3.Length(t) == libspec.FIELD[code][0], libspec.upk_fn(code)(t) == x)))
        return Sym(t, 'bytes')

    @staticmethod
    def upk(code, b):
        from . import libspec
        if code == 'B':
            return Sym(z3.BV2Int(ops.term(b)[0]), 'int')
        bt = z3.simplify(ops.term(b))
        r = libspec.upk_fn(code)(bt)
        size, lo, hi = libspec.FIELD[code]
        ops.XOR8_FACTS.append((r, z3.And(r >= lo, r <= hi, z3.Implies(z3.Length(bt) == size, libspec.pk_fn(code)(r) == bt))))
        return Sym(r, 'int')

    @staticmethod
    def slice(b, lo, hi):
        return ops.getitem(b if isinstance(b, Sym) else Sym(ops.term(b), 'bytes'), slice(lo, hi), None)

    @staticmethod
    def meas(lst, name):
        """ghost measure of a list (concrete lists: computed from the items)"""
        from . import lib
        m = lib.MEASURES[name]
        if isinstance(lst, SymSeq):
            t = lst.meas[name]
        else:
            t = m.zero()
            for x in lst.items:
                t = m.combine(t, m.weight(None, x))
        return ops.concretize(Sym(z3.simplify(t), 'int' if m.sort == IntSort else 'bytes'))

    @staticmethod
    def byte_at(x, j):
        """element j of a bytes value or bytearray, as an int"""
        jt = ops.term(j, 'int')
        if isinstance(x, SymSeq):
            return Sym(z3.Select(x.arr, jt), 'int')
        src = ops.ba_source(ops.term(x))
        if src is not None:
            return Sym(z3.Select(src[0], jt), 'int')
        return Sym(z3.BV2Int(ops.term(x)[jt]), 'int')

    @staticmethod
    def xor8(a, b):
        return Sym(ops.int_bitop('BitXor', ops.term(a, 'int'), ops.term(b, 'int')), 'int')

    @staticmethod
    def is_slice(x, base, lo, hi):
        """x was computed as the python slice base[lo:hi] (decided on the slice bounds: integer reasoning only)"""
        info = ops.SLICE_INFO.get(ops.term(x).get_id())
        if info is None:
            return False
        b, lo_c, n = info[:3]
        if not b.eq(ops.term(base)):
            return False
        L = ops.blen(b)
        lo_t, hi_t = ops.term(lo, 'int'), ops.term(hi, 'int')
        lo_w = z3.If(lo_t > L, L, lo_t)
        hi_w = z3.If(hi_t > L, L, hi_t)
        n_w = z3.If(hi_w > lo_w, hi_w - lo_w, z3.IntVal(0))
        return ops.sbool(z3.And(n == n_w, z3.Or(n_w == 0, lo_c == lo_w)))

    @staticmethod
    def toint(x):
        """floor of a non-negative real (python int() on non-negative floats)"""
        return Sym(z3.ToInt(ops.term(x, 'real')), 'int')


def _b(x):
    if isinstance(x, bool):
        return x
    if isinstance(x, Sym) and x.ty == 'bool':
        return ops.concretize(x)
    if isinstance(x, z3.BoolRef):
        return ops.sbool(x)
    raise Unsupported('boolean expected in a clause, got %r' % (x,))


S = _S
