"""Loads the real source of /repo on every run: module ASTs, classes, functions, constants.
Nothing is copied or transliterated: the interpreter walks these ASTs."""
import ast
import hashlib
import os

REPO = os.environ.get('PYVC_REPO', '/repo')
PKG = 'mpgameserver'


class FuncInfo:
    def __init__(self, name, qualname, module, node, cls=None, kind='function'):
        self.name = name
        self.qualname = qualname      # e.g. connection.BitField.insert
        self.module = module
        self.node = node
        self.cls = cls
        self.kind = kind              # function | method | staticmethod | classmethod
        self.is_generator = any(isinstance(n, (ast.Yield, ast.YieldFrom)) for n in ast.walk(node)) \
            if not isinstance(node, ast.Lambda) else False

    def __repr__(self):
        return '<FuncInfo %s>' % self.qualname


class ClassInfo:
    def __init__(self, name, module, node):
        self.name = name
        self.module = module
        self.node = node
        self.qualname = module.name + '.' + name
        self.base_names = []
        self.methods = {}
        self.class_attrs = {}        # evaluated lazily by the interpreter (name -> value)
        self.attr_nodes = []         # (name, value-node) in source order
        self.annotations = {}        # name -> annotation node
        self._mro = None
        self._evaluated = False
        for b in node.bases:
            self.base_names.append(ast.unparse(b))
        for st in node.body:
            if isinstance(st, (ast.FunctionDef,)):
                kind = 'method'
                for d in st.decorator_list:
                    dn = ast.unparse(d)
                    if dn == 'staticmethod':
                        kind = 'staticmethod'
                    elif dn == 'classmethod':
                        kind = 'classmethod'
                self.methods[st.name] = FuncInfo(st.name, '%s.%s.%s' % (module.name, name, st.name), module, st, self, kind)
            elif isinstance(st, ast.Assign) and len(st.targets) == 1 and isinstance(st.targets[0], ast.Name):
                self.attr_nodes.append((st.targets[0].id, st.value))
            elif isinstance(st, ast.AnnAssign) and isinstance(st.target, ast.Name):
                self.annotations[st.target.id] = st.annotation
                if st.value is not None:
                    self.attr_nodes.append((st.target.id, st.value))

    def __repr__(self):
        return '<ClassInfo %s>' % self.qualname

    def bases(self):
        out = []
        for bn in self.base_names:
            b = self.module.resolve_class(bn)
            out.append(b if b is not None else bn)     # unresolved -> keep the name (builtin / external)
        return out

    def mro(self):
        if self._mro is None:
            # simple linearisation (single inheritance chains in this repo)
            out = [self]
            for b in self.bases():
                if isinstance(b, ClassInfo):
                    for c in b.mro():
                        if c not in out:
                            out.append(c)
            self._mro = out
        return self._mro

    def builtin_base_names(self):
        out = []
        for c in self.mro():
            for b in c.bases():
                if not isinstance(b, ClassInfo):
                    out.append(b)
        return out

    def is_subclass_of(self, other):
        if isinstance(other, ClassInfo):
            return other in self.mro()
        return other in self.builtin_base_names() or (other == 'object')

    def find_method(self, name, after=None):
        mro = self.mro()
        if after is not None:
            mro = mro[mro.index(after) + 1:]
        for c in mro:
            if name in c.methods:
                return c.methods[name]
        return None

    def lookup(self, name):
        """class-level attribute through the MRO -> (found, value). Methods are returned as FuncInfo."""
        for c in self.mro():
            c.ensure_evaluated()
            if name in c.class_attrs:
                return True, c.class_attrs[name]
            if name in c.methods:
                return True, c.methods[name]
        return False, None

    def ensure_evaluated(self):
        if not self._evaluated:
            self._evaluated = True
            from . import interp
            interp.evaluate_class_body(self)

    def is_enum(self):
        return any(isinstance(c, ClassInfo) and c.name == 'SerializableEnum' for c in self.mro()[1:])

    def is_exception(self):
        return any(b in ('Exception', 'BaseException') or b.endswith('Error') for b in self.builtin_base_names())


class ModuleInfo:
    def __init__(self, repo, name, path):
        self.repo = repo
        self.name = name
        self.path = path
        raw = open(path, 'rb').read()
        self.sha256 = hashlib.sha256(raw).hexdigest()
        src = raw.decode('utf-8').replace('\r\n', '\n')
        self.source = src
        self.tree = ast.parse(src, filename=path)
        self.functions = {}
        self.classes = {}
        self.global_nodes = {}       # name -> list of ('assign', value-node) | ('item', key-node, value-node) in order
        self.imports = {}            # local name -> ('module', modname) | ('from', modname, attr)
        self.globals = {}            # evaluated lazily
        self._scan(self.tree.body)

    def _scan(self, body):
        for st in body:
            if isinstance(st, ast.FunctionDef):
                self.functions[st.name] = FuncInfo(st.name, self.name + '.' + st.name, self, st)
            elif isinstance(st, ast.ClassDef):
                self.classes[st.name] = ClassInfo(st.name, self, st)
            elif isinstance(st, ast.Assign):
                for tgt in st.targets:
                    if isinstance(tgt, ast.Name):
                        self.global_nodes.setdefault(tgt.id, []).append(('assign', st.value))
                    elif isinstance(tgt, ast.Subscript) and isinstance(tgt.value, ast.Name):
                        self.global_nodes.setdefault(tgt.value.id, []).append(('item', tgt.slice, st.value))
            elif isinstance(st, ast.AnnAssign) and isinstance(st.target, ast.Name) and st.value is not None:
                self.global_nodes.setdefault(st.target.id, []).append(('assign', st.value))
            elif isinstance(st, ast.Import):
                for a in st.names:
                    self.imports[a.asname or a.name.split('.')[0]] = ('module', a.name)
            elif isinstance(st, ast.ImportFrom):
                mod = ('.' * st.level) + (st.module or '')
                for a in st.names:
                    self.imports[a.asname or a.name] = ('from', mod, a.name)
            elif isinstance(st, ast.Try):
                self._scan(st.body)
            elif isinstance(st, ast.If):
                # module-level ifs (e.g. __main__ guard): ignore bodies that only run as a script
                pass

    def resolve_class(self, name):
        if name in self.classes:
            return self.classes[name]
        head = name.split('.')[0]
        imp = self.imports.get(head)
        if imp is None:
            return None
        if imp[0] == 'from':
            m = self.repo.module_for_import(self, imp[1])
            if m is None:
                return None
            if '.' in name:
                return None
            return m.resolve_class(imp[2])
        if imp[0] == 'module':
            m = self.repo.module_for_import(self, imp[1])
            if m is not None and '.' in name:
                return m.resolve_class(name.split('.', 1)[1])
        return None


class Repo:
    def __init__(self, root=None):
        self.root = root or REPO
        self.modules = {}

    def module(self, name):
        if name not in self.modules:
            path = os.path.join(self.root, PKG, name + '.py')
            if not os.path.exists(path) and name.startswith('shapes_'):
                # user classes for properties quantified over "every Serializable class of the documented shapes": sidecar source
                path = os.path.join(os.path.dirname(os.path.dirname(os.path.abspath(__file__))), 'contracts', 'shapes', name + '.py')
            if not os.path.exists(path):
                return None
            self.modules[name] = ModuleInfo(self, name, path)
        return self.modules[name]

    def module_for_import(self, frm, modname):
        # '.connection' / 'mpgameserver' / 'mpgameserver.connection' / '.' (package)
        if modname.startswith('.'):
            short = modname.lstrip('.')
            if short == '':
                return None
            return self.module(short)
        if modname == PKG:
            return self.module('__init__')
        if modname.startswith(PKG + '.'):
            return self.module(modname[len(PKG) + 1:])
        return None

    def func(self, qualname):
        parts = qualname.split('.')
        m = self.module(parts[0])
        if m is None:
            raise KeyError(qualname)
        if len(parts) == 2:
            return m.functions[parts[1]]
        if len(parts) == 3:
            return m.classes[parts[1]].methods[parts[2]]
        raise KeyError(qualname)

    def cls(self, qualname):
        mod, name = qualname.split('.')
        return self.module(mod).classes[name]

    def sources_used(self):
        return {m.path: m.sha256 for m in self.modules.values()}


_repo = None


def repo():
    global _repo
    if _repo is None:
        _repo = Repo()
    return _repo


def reset():
    global _repo
    _repo = None
