#!/usr/bin/env python3
"""Regenerates MANIFEST.json from manifest_src.json (claimed checks) + properties.jsonl (everything else -> not_applicable).
Keeps the manifest valid at all times: python3 tools_manifest.py"""
import json, os
HERE = os.path.dirname(os.path.abspath(__file__))
src = json.load(open(os.path.join(HERE, 'manifest_src.json')))
props = [json.loads(l) for l in open(os.path.join(HERE, 'properties.jsonl'))]
checks = []
na = []
for p in props:
    pid = p['id']
    c = src['checks'].get(pid)
    if c is None:
        na.append({'property_id': pid, 'reason': src['not_applicable'].get(pid, 'no contract within reach decides it yet (see DESIGN.md section 6)')})
        continue
    checks.append({
        'property_id': pid,
        'quick_cmd': './check %s --tier quick' % pid,
        'thorough_cmd': './check %s --tier thorough' % pid,
        'evidence_file': 'evidence/%s.json' % pid,
        'replay_cmd_template': './check %s --replay {path}' % pid,
        'engine': 'pyvc',
        'level_claimed': {'category': 'proof', 'text': c['text'], 'design_ref': c.get('design_ref', 'DESIGN.md section 3, ' + pid)},
        'level_note': c['note'],
        'technique': c.get('technique', 'contract-based deductive verification: VCs generated from the real AST by pyvc, discharged by z3/cvc5'),
    })
m = {
    'version': 1,
    'setup_cmd': './setup.sh',
    'hooks': {'guard': 'MPGAMESERVER_VERIF', 'enable': 'no hooks: contracts are sidecar files, /repo is read, never instrumented',
              'baseline_off_cmd': 'cd /repo && /venv/bin/python -m pytest -ra -q -p no:cacheprovider --timeout=900 --continue-on-collection-errors',
              'source_commits': [], 'add_only': True},
    'engines': [{'name': 'pyvc', 'path': 'pyvc/', 'serves_properties': [c['property_id'] for c in checks],
                 'kind_free_text': 'self-built deductive verifier for a Python subset: symbolic execution of the real AST against sidecar contracts, z3 + cvc5'}],
    'checks': checks,
    'notes': src.get('notes', ''),
    'not_applicable': na,
}
json.dump(m, open(os.path.join(HERE, 'MANIFEST.json'), 'w'), indent=1)
print('MANIFEST.json: %d checks, %d not_applicable' % (len(checks), len(na)))
