"""C12 — keep-alives and timeouts: setters (E4, E5), liveness clock (E2), client update (E3).
Real-valued clocks/intervals are z3 Reals (floats as reals: assumption)."""
import z3
from pyvc.dsl import contract, lemma, S, LoopSpec
from pyvc import ops
from pyvc.values import *
from contracts.common import *

UC = 'client.UdpClient'
CTXT = 'context.ServerContext'


def make_client(E, with_conn):
    conn = None
    if with_conn:
        conn = E.obj(CSC, tag='conn',
                     send_keep_alive_interval=E.real('c_ka'), temp_connection_timeout=E.real('c_tct'),
                     outgoing_timeout=E.real('c_ot'), send_interval=E.real('c_si'), status=status(E, 'c_status'))
    return E.obj(UC, tag='self', conn=conn, sock=None, disconnect_acked=False, server_public_key=None,
                 keep_alive_interval=E.real('u_ka'), temp_connection_timeout=E.real('u_tct'), outgoing_timeout=E.real('u_ot'))


def _arg_lambda(argname, body):
    """a clause lambda whose parameter carries the function's real parameter name"""
    if argname == 'interval':
        return lambda self, interval: body(self, interval)
    return lambda self, timeout: body(self, timeout)


def setter_contract(fname, field, conn_field, argname):
    for with_conn in (False, True):
        ens = {'stored': _arg_lambda(argname, lambda self, v: S.eq(getattr(self, field), v))}
        if with_conn:
            ens['takes-effect-on-live-connection'] = _arg_lambda(argname, lambda self, v: S.eq(getattr(self.conn, conn_field), v))
        body = {
            'setup': (lambda E, with_conn=with_conn: {'self': make_client(E, with_conn), argname: E.real('value', lo=0)}),
            # "take effect and never raise": no raises clause at all -> any exception fails `no-other-exception`
            'ensures': ens,
            # a live connection exists from connect() on, whatever its status (CONNECTING included)
            'modifies': ['self.' + field] + (['self.conn.' + conn_field] if with_conn else []),
        }
        contract('client.UdpClient.' + fname, props=['C12'],
                 variant='after-connect' if with_conn else 'before-connect')(type('_', (), body))


setter_contract('setKeepAliveInterval', 'keep_alive_interval', 'send_keep_alive_interval', 'interval')
setter_contract('setConnectionTimeout', 'temp_connection_timeout', 'temp_connection_timeout', 'timeout')
setter_contract('setMessageTimeout', 'outgoing_timeout', 'outgoing_timeout', 'timeout')


def ctxt_setter(fname, field, argname):
    def setup(E):
        self = E.obj(CTXT, tag='self', connection_timeout=E.real('ct'), temp_connection_timeout=E.real('tct'),
                     keep_alive_interval=E.real('ka'), outgoing_timeout=E.real('ot'), interval=E.real('iv'),
                     _maximum_sleep_time=E.real('mst'))
        return {'self': self, argname: E.real('value', lo=0)}
    body = {'setup': setup, 'modifies': ['self.' + field],
            'ensures': {'stored': _arg_lambda(argname, lambda self, v: S.eq(getattr(self, field), v))}}
    contract('context.ServerContext.' + fname, props=['C12'])(type('_', (), body))


ctxt_setter('setKeepAliveInterval', 'keep_alive_interval', 'interval')
ctxt_setter('setConnectionTimeout', 'connection_timeout', 'timeout')
ctxt_setter('setTempConnectionTimeout', 'temp_connection_timeout', 'timeout')
ctxt_setter('setMessageTimeout', 'outgoing_timeout', 'timeout')


# ---- E2: liveness clock
@contract('connection.ConnectionBase.timedout', props=['C12'])
class _:
    def setup(E):
        return dict(self=E.obj(CONN, tag='self', clock=clock(E), last_recv_time=E.real('last_recv')), timeout=E.real('timeout'))
    ensures = {
        # timed out  <=>  the clock value read by this call is at least `timeout` after the last accepted datagram
        'timedout-iff-silent-for-timeout': lambda self, timeout, result, ghost: S.iff(
            result, S.wrap(ghost.clock_last, 'real') - self.last_recv_time >= timeout),
    }
    modifies = []
    returns = 'bool'


# ---- E3: client side detection
def make_csc(E, callback):
    lat = E.symseq('latency_hist', E.kind('real'))
    stats = E.obj('connection.ConnectionStats', tag='stats', latency=lat)
    return E.obj(CSC, tag='self', clock=clock(E), stats=stats, latency=E.real('latency'),
                 last_latency_update_time=E.int('llut'), last_recv_time=E.real('last_recv'),
                 status=status(E), time_client_hello_sent=E.real('hello_sent', lo=0),
                 connection_callback=callback, temp_connection_timeout=E.real('tct', lo=0))


for _cb in (False, True):
    @contract('connection.ClientServerConnection.update', props=['C12'], variant='with-callback' if _cb else 'no-callback')
    class _:
        def setup(E, _cb=_cb):
            return dict(self=make_csc(E, user_callback(E, 'connect_cb', may_raise=False) if _cb else None))
        ensures = {
            # "the client reports DROPPED after 5 s" of silence (once something was received)
            'dropped-after-5s-silence': lambda old, self, ghost: S.implies(
                (old.self.last_recv_time > 0) & (S.wrap(ghost.clock_last, 'real') > old.self.last_recv_time + 5)
                & S.Not(connect_timed_out(old, ghost)),
                S.enum_is(self.status, member_of(self, 'DROPPED'))),
            # "an unanswered connect attempt ends DISCONNECTED ... after the configured timeout" - with or without a callback
            'connect-timeout-ends-disconnected': lambda old, self, ghost: S.implies(
                connect_timed_out(old, ghost),
                S.enum_is(self.status, member_of(self, 'DISCONNECTED')) & S.eq(self.time_client_hello_sent, 0)),
            'status-otherwise-unchanged': lambda old, self, ghost: S.implies(
                S.Not(connect_timed_out(old, ghost)) &
                S.Not((old.self.last_recv_time > 0) & (S.wrap(ghost.clock_last, 'real') > old.self.last_recv_time + 5)),
                S.enum_is(self.status, old.self.status)),
            'callback-once-with-False-iff-timeout': lambda old, self, ghost, events: callback_clause(old, self, ghost, events),
        }
        modifies = ['self.status', 'self.time_client_hello_sent', 'self.last_latency_update_time', 'self.stats.latency']


def member_of(self, name):
    return self.status.cls.class_attrs[name]


def connect_timed_out(old, ghost):
    now = S.wrap(ghost.clock_last, 'real')
    return S.Not(S.eq(old.self.time_client_hello_sent, 0)) & (now - old.self.time_client_hello_sent > old.self.temp_connection_timeout)


def callback_clause(old, self, ghost, events):
    calls = [e for e in events if e[0] == 'connect_cb']
    to = connect_timed_out(old, ghost)
    if old.self.connection_callback is None:
        return len(calls) == 0
    if len(calls) == 0:
        return S.Not(to)
    if len(calls) == 1:
        return to & (calls[0][1][0] is False)
    return False


# ---- E5: connect() hands the configured values to the new connection
@contract('client.UdpClient._make_socket', props=[])
class _:
    """assumed (socket library): returns a socket object, changes nothing"""
    trusted = True
    def setup(E):
        return dict(self=make_client(E, False), addr=('h', 1))
    modifies = []
    returns = lambda E, args: E.plain_obj(tag='socket')


def dumpb_client_hello(ip, self, **kwargs):
    """the client hello is serialized by the generic serializer (C13); here the bytes are opaque"""
    ip.ctx.lib_used.add('Serializable.dumpb of the client hello: opaque bytes of at most 400 bytes (model in c12_timing; the serializer itself: C13)')
    t = ip.ctx.fresh('client_hello_bytes', BytesSort)
    n = ip.ctx.fresh('client_hello_len', z3.IntSort())
    ip.ctx.assume(z3.And(n >= 0, n <= 400))
    ops.set_len_term(t, n)
    ip.state.ghost['client_hello_bytes'] = t
    return Sym(t, 'bytes')


def one_hello_queued(E, old, self, ghost):
    if isinstance(self.outgoing_messages, PyList):
        return True         # (modular use in connect(): the queue of the freshly constructed connection is a concrete list; only the frame is used there)
    last = E.elem(self.outgoing_messages, S.len(self.outgoing_messages) - 1)
    return ((S.len(self.outgoing_messages) == S.len(old.self.outgoing_messages) + 1)
            & S.enum_is(last.type, E.member(PTYPE, 'CLIENT_HELLO')) & S.enum_is(last.retry, E.member(RETRY, 'NONE'))
            & S.bool(S.term(last.payload) == ghost.client_hello_bytes))


@contract('connection.ClientServerConnection._sendClientHello', props=['C02', 'C12'])
class _:
    """the REAL _sendClientHello (it had only an assumed frame before): exactly one CLIENT_HELLO is queued, with RetryMode.NONE,
    the connection becomes CONNECTING and the hello time is the clock's; nothing else changes - in particular not the timing
    configuration connect() has just copied, nor the pinned server key (frame, proved)."""
    def setup(E):
        from pyvc import libspec
        from contracts.common import make_conn
        self = make_conn(E, CSC, key='none', token=E.int('token'), time_client_hello_sent=E.real('hello_sent'),
                         connection_callback=None, server_public_key=E.plain_obj(tag='pinned_key'), session_salt=None, version=1,
                         session_key=libspec.mk_priv(E.ip, E.int('client_kid')), last_latency_update_time=E.int('llut'))
        E.ghost('conn', self)
        return dict(self=self)
    hooks = {'model:serializable.Serializable.dumpb': dumpb_client_hello}
    uses = ['connection.ConnectionBase._send_type']
    modifies = ['self.status', 'self.time_client_hello_sent', 'self.outgoing_messages', 'self.seq_message', 'self.stats.sent'] \
        + ['field:PendingMessage.' + f for f in ('seq', 'type', 'payload', 'callback', 'retry', 'assembled_time')]
    havoc_kinds = {'self.status': lambda ip, v, name: Obj(v.cls, {'value': Sym(ip.ctx.fresh('status_after_hello', z3.IntSort()), 'int')}),
                   'self.outgoing_messages': lambda ip, v, name: v,
                   'self.seq_message': 'int', 'self.time_client_hello_sent': 'real', 'self.stats.sent': 'int'}
    ensures = {
        'one-client-hello-queued-sent-once': lambda E, old, self, ghost: one_hello_queued(E, old, self, ghost),
        'status-connecting': lambda E, self: S.enum_is(self.status, E.member(STATUS, 'CONNECTING')),
    }


@contract('client.UdpClient.connect', props=['C12'])
class _:
    def setup(E):
        declare_pending_message(E)      # (the frame of _sendClientHello names the fields of the message it queues)
        return dict(self=make_client(E, False), addr=('127.0.0.1', 1474), callback=None)
    uses = ['client.UdpClient._make_socket', 'connection.ClientServerConnection._sendClientHello']
    ensures = {
        # settings made before connect take effect on the new connection
        'keep-alive-interval-takes-effect': lambda self: S.eq(self.conn.send_keep_alive_interval, self.keep_alive_interval),
        'connect-timeout-takes-effect': lambda self: S.eq(self.conn.temp_connection_timeout, self.temp_connection_timeout),
        'message-timeout-takes-effect': lambda self: S.eq(self.conn.outgoing_timeout, self.outgoing_timeout),
        'settings-kept': lambda old, self: S.eq(self.keep_alive_interval, old.self.keep_alive_interval)
        & S.eq(self.temp_connection_timeout, old.self.temp_connection_timeout) & S.eq(self.outgoing_timeout, old.self.outgoing_timeout),
    }


# ---- the client's internal send callbacks only log: they must not touch the connection (a healthy link stays up)
for _fn in ('_ClientHelloTimeout', '_ChallengeResponseTimeout'):
    @contract('connection.ClientServerConnection.' + _fn, props=['C12', 'C02'])
    class _:
        def setup(E):
            from contracts.common import make_conn
            return dict(self=make_conn(E, CSC, token=E.int('token'), time_client_hello_sent=E.real('hello_sent'),
                                       connection_callback=None, server_public_key=None, session_salt=None, version=1,
                                       last_latency_update_time=E.int('llut')), success=E.bool('success'))
        modifies = []


# ---- the configuration of the client object (pinned server key, keep-alive interval, timeouts) outlives its connections
def make_configured_client(E, with_conn):
    c = make_client(E, with_conn)
    c.attrs['server_public_key'] = E.ghost('pinned_key', E.plain_obj(tag='pinned_key'))
    c.attrs['sock'] = Opaque('socket', {})          # (socket library: close() returns nothing and does not raise - assumed)
    return c


def config_kept(old, self, ghost):
    return (self.server_public_key is ghost.pinned_key) & S.eq(self.keep_alive_interval, old.self.keep_alive_interval) \
        & S.eq(self.temp_connection_timeout, old.self.temp_connection_timeout) & S.eq(self.outgoing_timeout, old.self.outgoing_timeout)


@contract('client.UdpClient.connect', props=['C02', 'C12'], variant='pinned-key')
class _:
    """the key the client was configured with is the key the new connection verifies the server hello against (C02: the client
    keeps insisting on its configured server key), and connecting does not change the configuration"""
    def setup(E):
        declare_pending_message(E)
        c = make_configured_client(E, False)
        c.attrs['sock'] = None
        return dict(self=c, addr=('127.0.0.1', 1474), callback=None)
    uses = ['client.UdpClient._make_socket', 'connection.ClientServerConnection._sendClientHello']
    ensures = {
        'new-connection-verifies-against-the-configured-key': lambda self, ghost: self.conn.server_public_key is ghost.pinned_key,
        'configuration-kept': lambda old, self, ghost: config_kept(old, self, ghost),
    }


def replay_config(label, model):
    return '''
import sys
from mpgameserver.client import UdpClient
bad = []
for how in ("forceDisconnect", "waitForDisconnect"):
    key = object()
    c = UdpClient(server_public_key=key)
    c.setKeepAliveInterval(0.25); c.setConnectionTimeout(0.5); c.setMessageTimeout(0.75)
    getattr(c, how)()
    got = (c.server_public_key is key, c.keep_alive_interval, c.temp_connection_timeout, c.outgoing_timeout)
    if got != (True, 0.25, 0.5, 0.75):
        bad.append("%s: pinned key kept=%s keep-alive=%s connect-timeout=%s message-timeout=%s" % ((how,) + got))
for b in bad: print(b)
sys.exit(1 if bad else 0)
'''


def socket_close(ip, fn, args, kwargs):
    """assumed (socket library): close() returns nothing, does not raise and touches no object of the program"""
    ip.ctx.lib_used.add('socket.close(): returns None, does not raise (assumed)')
    return None


for _with in (False, True):
    @contract('client.UdpClient.forceDisconnect', props=['C02', 'C12'], variant='with-connection' if _with else 'without-connection')
    class _:
        hooks = {'opaque:socket.close': socket_close}
        replay = replay_config
        """dropping the connection forgets the connection and the socket - not the pinned server key nor the configured
        intervals: the next connect() is as strict as the first"""
        def setup(E, _with=_with):
            return dict(self=make_configured_client(E, _with))
        ensures = {
            'connection-and-socket-dropped': lambda self: (self.conn is None) & (self.sock is None),
            'configuration-kept': lambda old, self, ghost: config_kept(old, self, ghost),
        }


@contract('client.UdpClient.waitForDisconnect', props=['C02', 'C12'], variant='without-connection')
class _:
    """(no live connection: nothing to wait for) the socket is closed, the configuration is kept"""
    hooks = {'opaque:socket.close': socket_close}
    replay = replay_config

    def setup(E):
        return dict(self=make_configured_client(E, False))
    ensures = {
        'connection-and-socket-dropped': lambda self: (self.conn is None) & (self.sock is None),
        'configuration-kept': lambda old, self, ghost: config_kept(old, self, ghost),
    }
