"""C19 — password hashing.  Idealisations (assumed, never proved): SHA-256 and scrypt are deterministic functions, injective in
the password / key material for digest length >= 16; base64 is an inverse pair whose output has no ':'; utf-8 encode/decode of
ASCII round-trips; os.urandom returns SOME 16 bytes (that two draws differ is the property's own assumption on the generator).
What the contracts decide: the FORMAT round trip (hash -> split -> decode -> unpack -> slice -> verify), which exceptions can
escape for an arbitrary hash string, and that a True answer needs a digest of cryptographically meaningful length."""
import z3
from pyvc.dsl import contract, lemma, S, LoopSpec
from pyvc import ops
from pyvc.values import *
from pyvc.lib import used

B = BytesSort
I = z3.IntSort()
SHA = z3.Function('sha256', B, B)
SCRYPT = z3.Function('scrypt', B, B, I, I, I, I, B)            # key material, salt, length, N, r, p
B64E = z3.Function('b64encode', B, B)
B64D = z3.Function('b64decode', B, B)
COLON = ops.bytes_lit(b':')


class HashObj:
    def __init__(self):
        self.data = None

    def pv_getattr(self, ip, name):
        if name == 'update':
            return Builtin('Hash.update', lambda ip, d: setattr(self, 'data', d))
        if name == 'finalize':
            def fin(ip):
                used(ip, 'SHA-256: deterministic function with 32-byte output, idealised injective')
                r = SHA(ops.term(self.data))
                ops.set_len(r, 32)
                ip.ctx.assume(z3.Length(r) == 32)
                return Sym(r, 'bytes')
            return Builtin('Hash.finalize', fin)
        ip.ctx.raise_exc('AttributeError', name)


class ScryptObj:
    def __init__(self, salt, length, N, r, p):
        self.a = (salt, length, N, r, p)

    def out(self, ip, km):
        salt, length, N, r, p = self.a
        t = SCRYPT(ops.term(km), ops.term(salt), ops.term(length, 'int'), ops.term(N, 'int'), ops.term(r, 'int'), ops.term(p, 'int'))
        ops.set_len_term(t, ops.term(length, 'int'))
        return t

    def pv_getattr(self, ip, name):
        if name == 'derive':
            return Builtin('Scrypt.derive', lambda ip, km: Sym(self.out(ip, km), 'bytes'))
        if name == 'verify':
            def verify(ip, km, expected):
                used(ip, 'Scrypt.verify: raises InvalidKey exactly when the derived key differs from the expected bytes')
                t = self.out(ip, km)
                if not ip.ctx.branch(ops.sbool(t == ops.term(expected))):
                    ip.ctx.raise_exc('InvalidKey', 'keys do not match')
                # ghost: what a successful verification was based on
                ln = ops.term(self.a[1], 'int')
                ann = ip.state.ghost.get('announced')
                same = True
                if ann is not None:
                    # the parameters the verification ran with are the ones the hash string announces
                    N, r, p, sl, L = ann
                    same = ops.sbool(z3.And(ops.term(self.a[2], 'int') == ops.term(N, 'int'), ops.term(self.a[3], 'int') == ops.term(r, 'int'),
                                            ops.term(self.a[4], 'int') == ops.term(p, 'int'), ln == ops.term(L, 'int'),
                                            ops.blen(ops.term(self.a[0])) == ops.term(sl, 'int')))
                else:
                    same = False
                ip.state.ghost['verified'] = ops.and_(ops.sbool(z3.And(ln >= 16, ops.blen(ops.term(expected)) == ln)), same)
                return None
            return Builtin('Scrypt.verify', verify)
        ip.ctx.raise_exc('AttributeError', name)


def hash_ctor(ip, fn, args, kwargs):
    return HashObj()


ACCEPTS = z3.Function('scrypt_accepts', I, I, I, I, I, z3.BoolSort())     # length, N, r, p, len(salt)
B64VALID = z3.Function('b64_valid', B, z3.BoolSort())


def scrypt_ctor(ip, fn, args, kwargs):
    used(ip, 'Scrypt(salt, length, N, r, p): raises ValueError/TypeError for parameters it rejects (uninterpreted predicate); '
             'accepts the library parameters (24, 16384, 16, 1, 16-byte salt); any length >= 0 may be accepted')
    salt, length, N, r, p = args[:5]
    ok = ACCEPTS(ops.term(length, 'int'), ops.term(N, 'int'), ops.term(r, 'int'), ops.term(p, 'int'), ops.blen(ops.term(salt)))
    ip.ctx.assume(ACCEPTS(z3.IntVal(24), z3.IntVal(16384), z3.IntVal(16), z3.IntVal(1), z3.IntVal(16)))
    if not ip.ctx.branch(ops.sbool(ok)):
        if ip.ctx.choose(2) == 1:
            ip.ctx.raise_exc('TypeError', 'invalid scrypt parameter types')
        ip.ctx.raise_exc('ValueError', 'invalid scrypt parameters')
    return ScryptObj(salt, length, N, r, p)


def colon_free(t):
    return z3.Not(z3.Contains(t, COLON))


def b64encode(ip, fn, args, kwargs):
    used(ip, 'base64: b64decode(b64encode(x)) = x; the encoding contains no colon')
    x = ops.term(args[0])
    r = B64E(x)
    ip.ctx.assume(z3.And(B64D(r) == x, colon_free(r), B64VALID(r)))
    ip.state.ghost.setdefault('colon_free', []).append(r)
    return Sym(r, 'bytes')


def b64decode(ip, fn, args, kwargs):
    used(ip, 'base64: b64decode may raise binascii.Error (a ValueError) on malformed input')
    if ops.pytype(args[0]) != 'bytes':
        ip.ctx.raise_exc('TypeError', 'b64decode argument')
    a = z3.simplify(ops.term(args[0]))
    if z3.is_app(a) and a.decl().name() == 'b64encode':
        return Sym(a.children()[0], 'bytes')          # decode(encode(x)) = x, applied as a rewrite
    if not ip.ctx.branch(ops.sbool(B64VALID(a))):
        ip.ctx.raise_exc('binascii.Error', 'incorrect padding')
    return Sym(B64D(a), 'bytes')


def opaque_value(ip, fn, args, kwargs):
    return Opaque(fn.name + '()', {'returns': None})


def split_hook(ip, b, sep, maxsplit):
    """bytes.split(b':'): structural when the separators are literal chunks between colon-free chunks; else SOME list of >= 1 parts"""
    if sep != b':':
        raise ops.Unsupported('split separator')
    used(ip, "bytes.split(b':'): parts between the colons (structural on terms built from colon-free chunks and literal colons)")
    t = ops.term(b)
    free = ip.state.ghost.get('colon_free', [])
    chunks = ops.flat_chunks(t)
    parts, cur, ok = [], [], True
    for c in chunks:
        if z3.is_app(c) and c.decl().kind() == z3.Z3_OP_SEQ_UNIT and z3.is_bv_value(c.children()[0]):
            if c.children()[0].as_long() == 0x3a:
                parts.append(cur)
                cur = []
            else:
                cur.append(c)
        elif any(c.eq(f) for f in free):
            cur.append(c)
        else:
            ok = False
            break
    if ok:
        parts.append(cur)
        return PyList([Sym(ops.mk_concat(p), 'bytes') for p in parts])
    arr = ip.ctx.fresh('split_parts', z3.ArraySort(I, B))
    n = ip.ctx.fresh('split_n', I)
    ip.ctx.assume(n >= 1)
    return SymSeq(arr, n, Kind('bytes'))


def utf8_round_trip(ip, s, enc, errors):
    """str.encode on the result of a decode (and vice versa): the shared uninterpreted pair utf8enc/utf8dec"""
    from pyvc import lib
    f = z3.Function('utf8dec', B, StrSort)
    g = z3.Function('utf8enc', StrSort, B)
    t = ops.term(s)
    if z3.is_app(t) and t.decl().name() == 'utf8dec':
        return Sym(t.children()[0], 'bytes')
    r = g(t)
    ip.ctx.assume(f(r) == t)
    return Sym(r, 'bytes')


HOOKS = {
    'opaque:cryptography.hazmat.primitives.hashes.Hash': hash_ctor,
    'opaque:cryptography.hazmat.primitives.hashes.SHA256': opaque_value,
    'opaque:cryptography.hazmat.backends.default_backend': opaque_value,
    'opaque:cryptography.hazmat.primitives.kdf.scrypt.Scrypt': scrypt_ctor,
    'opaque:base64.b64encode': b64encode, 'opaque:base64.b64decode': b64decode,
    'bytes.split': split_hook, 'str.encode': utf8_round_trip,
}


def after_unpack(ip, frame, args, r):
    if args and args[0] == '>HBBBB' and isinstance(r, tuple) and len(r) == 5:
        ip.state.ghost['announced'] = r


HOOKS['after-call:struct.unpack'] = after_unpack


def urandom_hook(ip, n):
    t = z3.Const('salt_drawn', B)
    ops.set_len(t, 16)
    ip.ctx.assume(z3.Length(t) == 16)
    ip.state.ghost['salt'] = t
    return Sym(t, 'bytes')


def hash_bytes(p, salt):
    """the documented format: scrypt:1:b64(params):b64(salt + digest)"""
    out = SCRYPT(SHA(p), salt, z3.IntVal(24), z3.IntVal(16384), z3.IntVal(16), z3.IntVal(1))
    return ops.mk_concat([ops.bytes_lit(b'scrypt:1:'), B64E(ops.bytes_lit(PARAMS)), COLON, B64E(ops.mk_concat([salt, out]))])


import struct as _struct
PARAMS = _struct.pack('>HBBBB', 16384, 16, 1, 16, 24)


@contract('auth.Auth.hash_password', props=['C19'])
class _:
    def setup(E):
        return dict(password=E.bytes('password'))
    hooks = dict(HOOKS, **{'os.urandom': urandom_hook})
    ensures = {
        # (c) the hash embeds the salt drawn in THIS call, in the documented format
        'format-with-this-calls-salt': lambda password, result, ghost: S.bool(
            ops.term(result) == z3.Function('utf8dec', B, StrSort)(hash_bytes(ops.term(password), ghost.salt)))
        if getattr(ghost, 'salt', None) is not None else False,       # no draw from os.urandom in this call: no fresh salt
    }
    may_raise = ['UnicodeDecodeError']      # ascii bytes always decode; the decode model cannot know (assumption listed)
    returns = 'str'


def genuine_hash(E, p):
    salt = z3.Const('salt', B)
    ops.set_len(salt, 16)
    E.assume(z3.Length(salt) == 16)
    hb = hash_bytes(ops.term(p), salt)
    out = SCRYPT(SHA(ops.term(p)), salt, z3.IntVal(24), z3.IntVal(16384), z3.IntVal(16), z3.IntVal(1))
    ops.set_len(out, 24)
    E.assume(z3.Length(out) == 24)
    for x in (ops.bytes_lit(PARAMS), ops.mk_concat([salt, out])):
        e = B64E(x)
        E.assume(z3.And(B64D(e) == x, colon_free(e), B64VALID(e)))
        E.ip.state.ghost.setdefault('colon_free', []).append(e)
    E.ghost('salt', salt)
    E.ghost('out', out)
    return Sym(z3.Function('utf8dec', B, StrSort)(hb), 'str')


@contract('auth.Auth.verify_password', props=['C19'], variant='genuine-hash')
class _:
    """(a),(b): against a hash produced by hash_password(p), verification of q answers exactly whether the derived keys agree -
    with the idealised injectivity of SHA-256 and scrypt in the password: True iff q = p.  Never raises."""
    def setup(E):
        p = E.bytes('p')
        return dict(password=E.bytes('q'), password_hash=genuine_hash(E, p))
    hooks = HOOKS
    ensures = {
        'true-iff-same-derived-key': lambda password, result, ghost, E: S.iff(result, S.bool(
            SCRYPT(SHA(ops.term(password)), ghost.salt, z3.IntVal(24), z3.IntVal(16384), z3.IntVal(16), z3.IntVal(1)) == ghost.out)),
    }
    returns = 'bool'


@contract('auth.Auth.verify_password', props=['C19'], variant='any-hash-string')
class _:
    """(d): for EVERY string: only ValueError / TypeError escape, and True is answered only when the key derived with EXACTLY the
    parameters the string announces (N, r, p, salt length, digest length >= 16) equals a digest of exactly the announced length -
    a truncated or edited hash can therefore not verify"""
    def setup(E):
        return dict(password=E.bytes('q'), password_hash=E.str('hash_string'))
    hooks = HOOKS
    may_raise = ['ValueError', 'TypeError']
    ensures = {
        'true-needs-a-real-digest': lambda result, events, E: S.implies(result, digest_ok(E)),
    }
    returns = 'bool'


def digest_ok(E):
    g = E.ip.state.ghost
    v = g.get('verified')
    if v is None:
        return False
    return v


def verify_record(ip, obj, km, expected):
    pass
