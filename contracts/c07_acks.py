"""C07 / C08 / C05 — resolution of sent datagrams: _handle_ack, _handle_timeout, _handle_ack_bits, _check_timeout.
Tables are symbolic maps; every clause is checked pointwise at Skolem keys (k: datagram seq, q: message seq) and Skolem
list positions (r), with the enumeration contract of list(dict) instantiated at the witness index of k."""
import z3
from pyvc.dsl import contract, lemma, S, LoopSpec
from pyvc import ops
from pyvc.values import *
from pyvc import lib
from contracts.common import *
from contracts.c08_bitfield import recv


def dom(m, k):
    return z3.Select(m.dom, S.term(k, 'int') if not isinstance(k, z3.ExprRef) else k)


def val(m, k):
    return z3.Select(m.val, S.term(k, 'int') if not isinstance(k, z3.ExprRef) else k)


def same_at(m1, m0, k):
    """map m1 agrees with m0 at key k"""
    return z3.And(dom(m1, k) == dom(m0, k), z3.Implies(dom(m0, k), val(m1, k) == val(m0, k)))


def setup_handle(E):
    self = make_conn(E)
    E.ghost('conn', self)
    E.ghost('ncalls', z3.IntVal(0))
    s = E.int('seqnum', cls=SEQ, lo=1, hi=S.M)
    return dict(self=self, seqnum=s)


def cb_pre(ip, frame, env):
    ip.state.ghost['ev0'] = len(ip.state.events)
    # table invariant, instantiated at the current position: only callables are registered
    # (established by _build_packet_impl: `if msg.callback: callbacks.append(msg.callback)`)
    ip.ctx.assume(z3.Select(env['_it'].arr, S.term(env['_i'], 'int')) != 0)


def cb_post_factory(flag):
    def cb_post(ip, frame, env):
        """ghost code at the end of an iteration of the callback loop: exactly one call, of THIS callback, with the flag"""
        ev = ip.state.events[ip.state.ghost['ev0']:]
        cbs = env['_it']
        i = S.term(env['_i'], 'int') - 1
        ok = len(ev) == 1 and ev[0][0] == 'symfn' and len(ev[0][2]) == 1 and ev[0][2][0] is flag and not ev[0][3]
        goal = z3.BoolVal(False) if not ok else (ev[0][1] == z3.Select(cbs.arr, i))
        ip.ctx.oblige('%s/loop@callbacks:each-callback-once-with-%s' % (ip.verifying_key, flag), goal)
        ip.state.ghost['ncalls'] = ip.state.ghost['ncalls'] + 1
    return cb_post


def handle_contract(fname, flag, counter, other_counter):
    loops = {
        0: LoopSpec(
            invariant={
                'calls-so-far': lambda ghost, _i: S.bool(ghost.ncalls == S.term(_i, 'int')),
                'seq-counters-in-ring': lambda self: (0 <= S.ival(self.seq_message)) & (S.ival(self.seq_message) <= S.M),
            },
            havoc=CALLBACK_FRAME + ['ghost.ncalls'], ghost_pre=cb_pre, ghost_post=cb_post_factory(flag), label='callbacks'),
        1: LoopSpec(
            invariant={
                'retry-table-only-shrinks': lambda old, self, q: S.bool(z3.Implies(
                    dom(self.pending_retry_msg, q), z3.And(dom(old.self.pending_retry_msg, q),
                                                           val(self.pending_retry_msg, q) == val(old.self.pending_retry_msg, q)))),
                'retries-of-this-datagram-cleared-so-far': lambda old, self, seqnum, r, _i: S.bool(z3.Implies(
                    z3.And(0 <= S.term(r), S.term(r) < S.term(_i)),
                    z3.Not(dom(self.pending_retry_msg, z3.Select(retry_list(old, seqnum).arr, S.term(r)))))),
                'other-keys-kept': lambda old, self, seqnum, q, ghost: S.bool(z3.Implies(
                    ghost.q_foreign, same_at(self.pending_retry_msg, old.self.pending_retry_msg, q))),
            },
            havoc=['self.pending_retry_msg'], ghost_pre=q_foreign_inst, label='retry-cleanup'),
    }

    def ghost_init(E):
        E.ghost('q_foreign', z3.Bool('q_foreign'))

    body = {
        'setup': setup_handle,
        'ghost_init': ghost_init,
        'hooks': {'symfn': callback_effects},
        'skolems': {'k': 'int', 'q': 'int', 'r': 'int'},
        'requires': {'datagram-is-open': lambda self, seqnum: S.bool(dom(self.pending_acks, seqnum))},
        'loops': loops,
        'ensures': {
            # "every datagram sent is resolved exactly once": resolution removes the ticket, so it cannot be resolved again
            'ticket-closed': lambda self, seqnum: S.bool(z3.Not(dom(self.pending_acks, seqnum))),
            'other-tickets-untouched': lambda old, self, seqnum, k: S.bool(z3.Implies(
                S.term(k) != S.term(seqnum, 'int'), same_at(self.pending_acks, old.self.pending_acks, k))),
            'callbacks-of-this-datagram-removed': lambda self, seqnum: S.bool(z3.Not(dom(self.pending_callbacks, seqnum))),
            'other-callbacks-untouched': lambda old, self, seqnum, k: S.bool(z3.Implies(
                S.term(k) != S.term(seqnum, 'int'), same_at(self.pending_callbacks, old.self.pending_callbacks, k))),
            'every-registered-callback-invoked': lambda old, seqnum, ghost: S.bool(
                ghost.ncalls == z3.If(dom(old.self.pending_callbacks, seqnum), callback_list(old, seqnum).n, 0)),
            'retry-entry-removed': lambda self, seqnum: S.bool(z3.Not(dom(self.pending_retry, seqnum))),
            'other-retry-entries-untouched': lambda old, self, seqnum, k: S.bool(z3.Implies(
                S.term(k) != S.term(seqnum, 'int'), same_at(self.pending_retry, old.self.pending_retry, k))),
            'retry-messages-of-this-datagram-cleared': lambda old, self, seqnum, r: S.bool(z3.Implies(
                z3.And(dom(old.self.pending_retry, seqnum), 0 <= S.term(r), S.term(r) < retry_list(old, seqnum).n),
                z3.Not(dom(self.pending_retry_msg, z3.Select(retry_list(old, seqnum).arr, S.term(r)))))),
            'retry-table-only-shrinks': lambda old, self, q: S.bool(z3.Implies(
                dom(self.pending_retry_msg, q), z3.And(dom(old.self.pending_retry_msg, q),
                                                       val(self.pending_retry_msg, q) == val(old.self.pending_retry_msg, q)))),
            'counted': lambda old, self: S.eq(getattr(self.stats, counter), getattr(old.self.stats, counter) + 1)
            & S.eq(getattr(self.stats, other_counter), getattr(old.self.stats, other_counter)),
        },
        # callback exceptions are contained: nothing may escape
        'modifies': ['self.pending_acks', 'self.pending_callbacks', 'self.pending_retry', 'self.pending_retry_msg',
                     'self.stats.' + counter, 'self.latency'] + CALLBACK_FRAME,
        'returns': 'none',
    }
    contract('connection.ConnectionBase.' + fname, props=['C07', 'C05'])(type('_', (), body))


def callback_list(old, seqnum):
    ts, mk_, (acc_arr, acc_n) = list_sort(z3.IntSort())
    v = val(old.self.pending_callbacks, seqnum)
    return NS2(arr=acc_arr(v), n=acc_n(v))


def retry_list(old, seqnum):
    ts, mk_, (acc_arr, acc_n) = list_sort(z3.IntSort())
    v = val(old.self.pending_retry, seqnum)
    return NS2(arr=acc_arr(v), n=acc_n(v))


class NS2:
    def __init__(self, **kw):
        self.__dict__.update(kw)


def q_foreign_inst(ip, frame, env):
    """q_foreign: the Skolem message seq q is not in the retry list of this datagram - instantiated at the current index"""
    lst = env['_it']
    i = S.term(env['_i'], 'int')
    ip.ctx.assume(z3.Implies(env['ghost'].q_foreign, z3.Select(lst.arr, i) != S.term(env['q'])))


handle_contract('_handle_ack', True, 'acked', 'timeouts')
handle_contract('_handle_timeout', False, 'timeouts', 'acked')


# ------------------------------------------------------------------------------------------ sweeps over list(pending_acks)
# ghost: g_ack[s], g_to[s] = how often datagram s has been resolved as acked / as timed out (maintained by the
# contracts of _handle_ack / _handle_timeout);  ack_hdr = the header whose ack fields are being processed.

def AckedBy(ack, ack_bits, s):
    """from the statement: the ack number and the 32-bit bitmap name exactly the peer datagrams received among the newest 32"""
    return recv(ack, ack_bits, 32, s)


def add_resolution_ghosts():
    from pyvc import dsl
    for fname, g in (('_handle_ack', 'g_ack'), ('_handle_timeout', 'g_to')):
        c = dsl.REGISTRY['connection.ConnectionBase.' + fname]
        c.ensures = dict(c.ensures)
        c.ensures['resolution-recorded'] = (lambda g: lambda old, ghost, seqnum: S.bool(
            getattr(ghost, g) == z3.Store(getattr(old.ghost, g), S.term(seqnum, 'int'), z3.Select(getattr(old.ghost, g), S.term(seqnum, 'int')) + 1)))(g)
        c.modifies = list(c.modifies) + ['ghost.' + g]
        prev_init = c.ghost_init

        def ghost_init(E, prev_init=prev_init):
            prev_init(E)
            E.ghost('g_ack', z3.Const('g_ack', z3.ArraySort(z3.IntSort(), z3.IntSort())))
            E.ghost('g_to', z3.Const('g_to', z3.ArraySort(z3.IntSort(), z3.IntSort())))
            E.ghost('ack_hdr', (E.int('gh_ack', lo=0, hi=S.M), E.bitset('gh_ack_bits')))
            E.ghost('clock_last', z3.Real('clock_last0'))
        c.ghost_init = ghost_init

        def finish(ip, env, g=g):
            s = S.term(env['seqnum'], 'int')
            a = ip.state.ghost[g]
            ip.state.ghost[g] = z3.Store(a, s, z3.Select(a, s) + 1)
            env['ghost'] = type(env['ghost'])(ip.state.ghost)
        c.finish = finish
    # truthfulness = call-site preconditions (C07)
    ca = dsl.REGISTRY['connection.ConnectionBase._handle_ack']
    ca.requires = dict(ca.requires)
    ca.requires['success-only-if-named-by-the-ack-fields'] = lambda ghost, seqnum: AckedBy(ghost.ack_hdr[0], ghost.ack_hdr[1], S.ival(seqnum))
    ct = dsl.REGISTRY['connection.ConnectionBase._handle_timeout']
    ct.requires = dict(ct.requires)
    ct.requires['failure-only-after-the-message-timeout'] = lambda self, ghost, seqnum: S.bool(
        ghost.clock_last - val(self.pending_acks, seqnum) >= S.term(self.outgoing_timeout, 'real'))


add_resolution_ghosts()

HANDLE_USES = ['connection.ConnectionBase._handle_ack', 'connection.ConnectionBase._handle_timeout']
SWEEP_HAVOC = ['self.pending_acks', 'self.pending_callbacks', 'self.pending_retry', 'self.pending_retry_msg',
               'self.stats.acked', 'self.stats.timeouts', 'self.latency', 'ghost.g_ack', 'ghost.g_to'] + CALLBACK_FRAME


def sweep_ghosts(E, now_ge=None):
    E.ghost('g_ack', z3.Const('g_ack', z3.ArraySort(z3.IntSort(), z3.IntSort())))
    E.ghost('g_to', z3.Const('g_to', z3.ArraySort(z3.IntSort(), z3.IntSort())))
    E.ghost('q_foreign', z3.Bool('q_foreign'))
    E.ghost('ncalls', z3.IntVal(0))


def keys_of(env):
    return env['_it']


class Base:
    """the state the sweep starts from: the tables at function entry, or (update()) at loop entry, captured in ghosts"""
    def __init__(self, old, ghost):
        if getattr(ghost, 'base_dom', None) is not None:
            self.dom_, self.val_, self.g_ack, self.g_to = ghost.base_dom, ghost.base_val, ghost.base_g_ack, ghost.base_g_to
        else:
            pa = old.self.pending_acks
            self.dom_, self.val_, self.g_ack, self.g_to = pa.dom, pa.val, old.ghost.g_ack, old.ghost.g_to

    def has(self, k):
        return z3.Select(self.dom_, k)

    def at(self, k):
        return z3.Select(self.val_, k)


def sweep_invariants(acked, timed_out):
    """invariants of `for seqnum in list(self.pending_acks)`, for the Skolem datagram s with witness index js (K[js] = s):
    acked(env) / timed_out(env): z3 Bool conditions evaluated on the ENTRY state for s (the branch conditions of the body)"""
    def handled(old, self, ghost, s, a, t):
        st = S.term(s)
        B = Base(old, ghost)
        ga, gt, ga0, gt0 = ghost.g_ack, ghost.g_to, B.g_ack, B.g_to
        return z3.And(
            z3.Implies(a, z3.And(z3.Not(dom(self.pending_acks, st)), z3.Select(ga, st) == z3.Select(ga0, st) + 1, z3.Select(gt, st) == z3.Select(gt0, st))),
            z3.Implies(z3.And(z3.Not(a), t), z3.And(z3.Not(dom(self.pending_acks, st)), z3.Select(gt, st) == z3.Select(gt0, st) + 1, z3.Select(ga, st) == z3.Select(ga0, st))),
            z3.Implies(z3.And(z3.Not(a), z3.Not(t)), untouched(old, self, ghost, st)))

    def untouched(old, self, ghost, st):
        B = Base(old, ghost)
        return z3.And(dom(self.pending_acks, st), val(self.pending_acks, st) == B.at(st),
                      z3.Select(ghost.g_ack, st) == z3.Select(B.g_ack, st), z3.Select(ghost.g_to, st) == z3.Select(B.g_to, st))

    inv = {
        'processed-keys-handled': lambda old, self, ghost, s, js, _i, _it, **kw: S.bool(z3.Implies(
            z3.And(0 <= S.term(js), S.term(js) < _it.n, z3.Select(_it.arr, S.term(js)) == S.term(s), S.term(_i, 'int') > S.term(js)),
            handled(old, self, ghost, s, acked(old, s, ghost), timed_out(old, s, ghost)))),
        'unprocessed-keys-untouched': lambda old, self, ghost, s, js, _i, _it: S.bool(z3.Implies(
            z3.And(0 <= S.term(js), S.term(js) < _it.n, z3.Select(_it.arr, S.term(js)) == S.term(s), S.term(_i, 'int') <= S.term(js)),
            untouched(old, self, ghost, S.term(s)))),
        'no-new-tickets': lambda old, self, ghost, s: S.bool(z3.Implies(z3.Not(Base(old, ghost).has(S.term(s))), z3.Not(dom(self.pending_acks, S.term(s))))),
        'times-unchanged': lambda old, self: S.eq(self.last_recv_time, old.self.last_recv_time) & S.eq(self.outgoing_timeout, old.self.outgoing_timeout),
    }
    return inv, handled, untouched


def fix_kw(inv):
    """clause lambdas cannot take **kw through call_clause: strip"""
    out = {}
    for k, f in inv.items():
        import inspect
        ps = [p for p in inspect.signature(f).parameters.values() if p.kind != p.VAR_KEYWORD]
        names = [p.name for p in ps]
        out[k] = eval('lambda %s: f(%s)' % (', '.join(names), ', '.join(names)), {'f': f})
    return out


def sweep_instances(env):
    """the induction hypothesis is also used for the key being processed: (s, js) := (K[_i], _i)"""
    K = env['_it']
    i = S.term(env['_i'], 'int')
    return [{'s': Sym(z3.Select(K.arr, i), 'int'), 'js': env['_i']}]


def sweep_ghost_init(ip, frame, env):
    """instantiate the enumeration contract of list(dict) at the Skolem position js"""
    K = env['_it']
    # js is the position of the Skolem datagram s in K (if s is a key at all): the enumeration contract at s
    j = K.facts.witness(ip, S.term(env['s'], 'int'))
    ip.ctx.assume(S.term(env['js'], 'int') == j)


def sweep_setup(E, hdr=False):
    self = make_conn(E)
    E.ghost('conn', self)
    sweep_ghosts(E)
    now = z3.Real('clock_last0')
    E.ghost('clock_last', now)
    E.assume(now >= S.term(self.last_recv_time, 'real'))
    return self


# ---- _handle_ack_bits
def hab_acked(old, s, ghost=None):
    return ops.bterm(AckedBy(old.hdr.ack, old.hdr.ack_bits, S.ival(s)))


def hab_timed_out(old, s, ghost=None):
    return S.term(old.self.last_recv_time, 'real') - val(old.self.pending_acks, S.term(s)) > S.term(old.self.outgoing_timeout, 'real')


_inv, _handled, _untouched = sweep_invariants(hab_acked, hab_timed_out)


@contract('connection.ConnectionBase._handle_ack_bits', props=['C07', 'C08', 'C05'])
class _:
    def setup(E):
        self = sweep_setup(E)
        ack = E.int('hdr_ack', cls=SEQ, lo=0, hi=S.M)
        raw = E.pred('hdr_ack_bits', z3.IntSort(), z3.BoolSort())
        bits = E.bitset('hdr_ack_bits', fn=lambda j: z3.And(j >= 0, j < 32, raw(j)))
        hdr = E.obj('connection.PacketHeader', tag='hdr', ack=ack, ack_bits=bits)
        E.ghost('ack_hdr', (ack, bits))
        # the callees' pointwise postconditions (Skolem k) are needed at the datagram of interest s
        E.instance('k', lambda env: E.ctx.skolems['s'])
        return dict(self=self, hdr=hdr)
    skolems = {'s': 'int', 'js': 'int', 'k': 'int', 'q': 'int', 'r': 'int'}
    uses = HANDLE_USES
    hooks = {'symfn': callback_effects}
    loops = {0: LoopSpec(invariant=fix_kw(_inv), havoc=SWEEP_HAVOC, instances=sweep_instances, ghost_init=sweep_ghost_init, label='sweep')}
    ensures = {
        # the statement: acked exactly when named by the ack number / bitmap; failure only after the timeout; else left open
        'each-open-datagram-resolved-as-the-ack-fields-say': lambda old, self, ghost, s: S.bool(z3.Implies(
            z3.And(dom(old.self.pending_acks, S.term(s)), 1 <= S.term(s), S.term(s) <= S.M),
            _handled(old, self, ghost, s, hab_acked(old, s), hab_timed_out(old, s)))),
        'no-new-tickets': lambda old, self, s: S.bool(z3.Implies(z3.Not(dom(old.self.pending_acks, S.term(s))), z3.Not(dom(self.pending_acks, S.term(s))))),
    }
    modifies = [p for p in SWEEP_HAVOC if not p.startswith('ghost.')]


# ---- _check_timeout(t0): every datagram open for at least outgoing_timeout is resolved as timed out (P3), nothing else
def never(old, s, ghost=None):
    return z3.BoolVal(False)


def ct_timed_out(old, s, ghost=None):
    return S.term(old.t0, 'real') - val(old.self.pending_acks, S.term(s)) >= S.term(old.self.outgoing_timeout, 'real')


_inv_ct, _handled_ct, _ = sweep_invariants(never, ct_timed_out)


@contract('connection.ConnectionBase._check_timeout', props=['C07', 'C05'])
class _:
    def setup(E):
        self = sweep_setup(E)
        E.ghost('ack_hdr', (0, 0))
        E.instance('k', lambda env: E.ctx.skolems['s'])
        return dict(self=self, t0=E.real('t0'))
    requires = {'t0-is-a-past-clock-reading': lambda t0, ghost: S.bool(S.term(t0, 'real') <= ghost.clock_last)}
    skolems = {'s': 'int', 'js': 'int', 'k': 'int', 'q': 'int', 'r': 'int'}
    uses = HANDLE_USES
    hooks = {'symfn': callback_effects}
    loops = {0: LoopSpec(invariant=fix_kw(_inv_ct), havoc=SWEEP_HAVOC, instances=sweep_instances, ghost_init=sweep_ghost_init, label='sweep')}
    ensures = {
        'expired-datagrams-time-out-others-stay-open': lambda old, self, ghost, s: S.bool(z3.Implies(
            dom(old.self.pending_acks, S.term(s)), _handled_ct(old, self, ghost, s, never(old, s), ct_timed_out(old, s)))),
        'no-new-tickets': lambda old, self, s: S.bool(z3.Implies(z3.Not(dom(old.self.pending_acks, S.term(s))), z3.Not(dom(self.pending_acks, S.term(s))))),
    }
    modifies = [p for p in SWEEP_HAVOC if not p.startswith('ghost.')]


# ---- ServerClientConnection.update: the server-side sweep (same obligations as _check_timeout, strict comparison)
def su_build_model(ip, self):
    """_build_packet as used by update(): its contract is verified separately (c09_packing); here: some packet or None,
    the timing tables are not resolved by it (it only ADDS the ticket of the new datagram, whose age is 0)"""
    from pyvc.heap import havoc_path
    t = ip.call(self.attrs['clock'], [], {})
    ip.state.ghost['t_build'] = S.term(t, 'real')
    if ip.ctx.choose(2) == 1:
        return None
    roots = {'self': self}
    for p in ('self.outgoing_messages', 'self.pending_retry_msg', 'self.seq_sending', 'self.pending_callbacks', 'self.pending_retry',
              'self.last_send_time', 'self.last_send_keep_alive_time', 'self.stats.assembled'):
        havoc_path(ip, roots, p)
    # the new ticket: keyed by the new sequence number, stamped with the build time
    pa = self.attrs['pending_acks']
    k = S.term(self.attrs['seq_sending'], 'int')
    ip.ctx.assume(z3.And(k >= 1, k <= S.M, z3.Not(z3.Select(pa.dom, k))))
    if pa.size is not None:
        pa.size = pa.size + 1
    pa.dom = z3.Store(pa.dom, k, True)
    pa.val = z3.Store(pa.val, k, ip.state.ghost['t_build'])
    ip.state.ghost['new_ticket'] = k
    pkt = Obj(ip.repo.cls('connection.Packet'), {'hdr': None, 'msg': b'', 'msgs': PyList([])})
    return pkt


def total_size_model(ip, self, key):
    return Sym(ip.ctx.fresh('total_size', z3.IntSort()), 'int')


def su_timed_out(old, s, ghost=None):
    B = Base(old, ghost)
    return ghost.t_sweep - B.at(S.term(s)) > S.term(old.self.outgoing_timeout, 'real')


_inv_su, _handled_su, _ = sweep_invariants(never, su_timed_out)


def su_ghost_init(ip, frame, env):
    """the sweep starts from the tables as they are after _build_packet (which only added the new ticket)"""
    g = ip.state.ghost
    pa = env['self'].pending_acks
    g['base_dom'], g['base_val'], g['base_g_ack'], g['base_g_to'] = pa.dom, pa.val, g['g_ack'], g['g_to']
    g['t_sweep'] = g['clock_last']
    sweep_ghost_init(ip, frame, env)


@contract('connection.ServerClientConnection.update', props=['C07', 'C05', 'C12', 'C03'])
class _:
    def setup(E):
        self = sweep_setup(E)
        self.cls = E.cls(SCC)
        self.attrs.update(ctxt=None, token=E.int('token'), session_key=None, session_salt=None, server_public_key=None, version=1)
        E.ghost('ack_hdr', (0, 0))
        for g in ('base_dom', 'base_val', 'base_g_ack', 'base_g_to', 't_sweep'):
            E.ghost(g, None)
        E.instance('k', lambda env: E.ctx.skolems['s'])
        return dict(self=self)
    skolems = {'s': 'int', 'js': 'int', 'k': 'int', 'q': 'int', 'r': 'int'}
    uses = HANDLE_USES
    hooks = {'symfn': callback_effects, 'model:connection.ConnectionBase._build_packet': su_build_model,
             'model:connection.Packet.total_size': total_size_model}
    loops = {0: LoopSpec(invariant=fix_kw(_inv_su), havoc=SWEEP_HAVOC, instances=sweep_instances, ghost_init=su_ghost_init, label='sweep')}
    ensures = {
        # truthfulness + P3: after the sweep every datagram that was open when it started is timed out iff its age exceeds the timeout
        'expired-datagrams-time-out-others-stay-open': lambda old, self, ghost, s: S.bool(z3.Implies(
            Base(old, ghost).has(S.term(s)), _handled_su(old, self, ghost, s, never(old, s, ghost), su_timed_out(old, s, ghost))))
        if ghost.base_dom is not None else True,
        # C03: what the server loop is handed to send is (the packet just built, THIS connection's session key, THIS connection's
        # address) - or nothing
        'hands-over-its-own-key-and-address-with-the-packet': lambda self, result: True if result is None else (
            isinstance(result, tuple) and len(result) == 3 and result[1] is self.session_key_bytes and result[2] is self.addr),
    }
