"""C02 — handshake: the server side promotes on proof of the issued token only (_recvChallengeResponse over the pools), the
token it issues is unused (_recvClientHello), the client adopts key and token only from a hello signed under the pinned key
(HandshakeServerHelloMessage.deserialize for every byte string, _recvServerHello), both ends derive the same key (lemma over
the idealised ECDH/HKDF), the hello round-trips (real writer then real reader)."""
import z3
from pyvc.dsl import contract, lemma, S, LoopSpec
from pyvc import ops
from pyvc.values import *
from pyvc import libspec
from contracts.common import *
from contracts.c09_packing import retry_is
from contracts.c10_server import (make_ctxt, client_ref, pool_inv, addr_of, pooled, live_fields, ADDR, SCCN, CONN_, NOTYET, DONE,
                                  one_event_for, no_client_holds)


def decoded_message(ip, *args, **kwargs):
    """ASSUMED model of Serializable.loadb on attacker-controlled bytes (C13/C14 decide the decoder itself): it raises, or
    returns some value - an object carrying an int `token` (any value), an object whose `token` is not an int, or a value
    without that attribute."""
    ip.ctx.lib_used.add('Serializable.loadb on hostile bytes: raises or returns an arbitrary decoded value (model in c02_handshake)')
    k = ip.ctx.choose(4)
    if k == 0:
        ip.ctx.raise_exc('Exception', 'decoder rejected the bytes')
    if k == 1:
        t = ip.ctx.fresh('presented_token', z3.IntSort())
        ip.state.ghost['presented'] = t
        return Obj(None, {'token': Sym(t, 'int')}, tag='decoded')
    if k == 2:
        return Obj(None, {'token': Box(ip.ctx.fresh('not_an_int', z3.IntSort()))}, tag='decoded')
    return Obj(None, {}, tag='decoded')


def ctxt_field(E, ctxt):
    E.field(SCC, 'ctxt', Kind('custom', None, (z3.IntSort(), lambda ip, t: ctxt, lambda ip, v: z3.IntVal(0))))


def promoted_only_with_the_token(E, old, self, events, ghost):
    """a connect event for this client implies: it was the connecting client registered under its address and the decoded
    message carried exactly the token stored for it (the one the server issued in its hello)"""
    ev = [e for e in events if e[0].startswith('handler.')]
    if len(ev) == 0:
        return True
    if not one_event_for(events, 'connect', self):
        return False
    if 'presented' not in ghost.__dict__:
        return False
    of = lambda attr: old._snap.fields[(SCCN, attr)][0]
    a = z3.Select(of('addr'), self.ref)
    return S.bool(z3.And(z3.Select(old.ghost.ctxt.temp_connections.dom, a), z3.Select(old.ghost.ctxt.temp_connections.val, a) == self.ref,
                         z3.Select(of('token'), self.ref) == ghost.presented))


def nothing_promoted(E, old, ghost, events, a):
    ctxt, octxt = ghost.ctxt, old.ghost.ctxt
    return S.bool(z3.And(z3.Select(ctxt.connections.dom, a) == z3.Select(octxt.connections.dom, a),
                         z3.Select(ctxt.temp_connections.dom, a) == z3.Select(octxt.temp_connections.dom, a))) \
        if len([e for e in events if e[0].startswith('handler.')]) == 0 else True


@contract('connection.ServerClientConnection._recvChallengeResponse', props=['C02', 'C10'])
class _:
    """for EVERY decoded challenge message: the client is reported connected (handler.connect, move to the connected pool) only
    if it is the connecting client registered under its address and the message carries the token stored for it; otherwise
    the pools are untouched.  PoolInv is preserved either way (also when an exception escapes)."""
    def setup(E):
        ctxt = make_ctxt(E)
        ctxt_field(E, ctxt)
        return dict(self=client_ref(E, 'self'), data=E.bytes('data'))
    skolems = {'a': ADDR, 'c': 'int'}
    hooks = {'model:serializable.Serializable.loadb': decoded_message}
    # (_onConnect / onConnect are executed inline here so that the handler event itself is seen)
    uses = ['context.ServerContext._validateChallengeResponse']
    requires = {
        'pool-invariant': lambda E, self, ghost, a, c: pool_inv(E, ghost.ctxt, ghost.life, [a, addr_of(E, self)], [S.term(c), self.ref]),
        'client-is-registered-under-its-own-address': lambda E, self, ghost: S.bool(pooled(E, ghost.ctxt, self)),
    }
    ensures = {
        'connected-only-with-the-issued-token': lambda E, old, self, events, ghost: promoted_only_with_the_token(E, old, self, events, ghost),
        'pool-invariant-preserved': lambda E, ghost, a, c: pool_inv(E, ghost.ctxt, ghost.life, [a], [S.term(c)]),
    }
    ensures_exc = {
        'no-promotion-when-the-challenge-fails': lambda E, old, ghost, events, a: nothing_promoted(E, old, ghost, events, a),
        'pool-invariant-preserved': lambda E, ghost, a, c: pool_inv(E, ghost.ctxt, ghost.life, [a], [S.term(c)]),
    }
    may_raise = ['Exception']
    modifies = ['self.status', 'ghost.life', 'ghost.ctxt.connections', 'ghost.ctxt.temp_connections', 'field:ServerClientConnection.status']


# ------------------------------------------------------------------------------------------ server hello: verify before adopting
HSH = 'connection.HandshakeServerHelloMessage'
DVB = z3.Function('decoded_bytes', BytesSort, z3.IntSort(), BytesSort)     # k-th value decoded from a byte string, when it is bytes
DVI = z3.Function('decoded_int', BytesSort, z3.IntSort(), z3.IntSort())    # ... when it is an int


def decode_next(ip, stream, **kwargs):
    """ASSUMED model of serializable.deserialize_value on a stream over (possibly attacker-controlled) bytes: the k-th call
    raises, or returns a value that is a FUNCTION of the stream's content and k (the decoder is deterministic: C13) - bytes,
    an int, or a value of another type.  What is decided here is which bytes are verified and which are believed."""
    ip.ctx.lib_used.add('serializable.deserialize_value inside the handshake messages: deterministic uninterpreted decoder of the k-th value (model in c02_handshake; the decoder itself: C13/C14)')
    if not isinstance(stream, libspec.BytesIOVal):
        raise Unsupported('deserialize_value on %r' % (stream,))
    k = getattr(stream, 'decoded', 0)
    stream.decoded = k + 1
    buf = ops.term(stream.buf)
    c = ip.ctx.choose(4)
    if c == 0:
        ip.ctx.raise_exc('Exception', 'decoder rejected the bytes')
    if c == 1:
        t = DVB(buf, k)
        n = ip.ctx.fresh('dvlen', z3.IntSort())
        ip.ctx.assume(n >= 0)
        ops.set_len_term(t, n)
        return Sym(t, 'bytes')
    if c == 2:
        return Sym(DVI(buf, k), 'int')
    return Box(ip.ctx.fresh('other_value', z3.IntSort()))


def kwarg(kwargs, name):
    return kwargs.vals[kwargs.keys.index(name)]


def pub_key(E, name):
    return libspec.mk_pub(E.ip, E.int(name))


def hello_payload(data):
    return DVB(S.term(data), 1)


def adopted_from_signed_payload(self, data, kid):
    """everything the message object now holds was decoded from the very payload bytes whose signature verified under `kid`"""
    p = hello_payload(data)
    return S.bool(z3.And(libspec.SIGNED(S.term(kid, 'int'), p),
                         S.term(self.token, 'int') == DVI(p, 2) if ops.pytype(self.token) == 'int' else z3.BoolVal(True),
                         S.term(self.salt) == DVB(p, 1) if ops.pytype(self.salt) == 'bytes' else z3.BoolVal(True),
                         S.term(self.server_pubkey.kid, 'int') == libspec.KID_OF(DVB(p, 0))))


for _pin in ('pinned-key', 'no-pinned-key'):
    @contract(HSH + '.deserialize', props=['C02'], variant=None if _pin == 'pinned-key' else 'no-pinned-key')
    class _:
        """for EVERY byte string: the hello is accepted (normal return) only if the signature verifies under the PINNED key over
        the payload bytes, and server key / salt / token are decoded from exactly those bytes; anything else raises.  Without a
        pinned key the sender's own root key is used (trust on first use, as documented)."""
        def setup(E, _pin=_pin):
            data = E.bytes('data')
            stream = libspec.BytesIOVal(E.ip, data)
            pinned = pub_key(E, 'pinned_kid') if _pin == 'pinned-key' else None
            E.ghost('data', data)
            E.ghost('pinned', pinned)
            self = E.obj(HSH, tag='self')
            return dict(self=self, stream=stream, __kwargs__={'server_public_key': pinned})
        hooks = {'model:serializable.deserialize_value': decode_next}
        ensures = {
            # (stated over the ACTUAL arguments: the stream's bytes and the key passed as server_public_key)
            'accepted-only-if-signed-under-the-pinned-key-and-adopted-from-the-signed-bytes': lambda self, stream, kwargs: adopted_from_signed_payload(
                self, stream.buf, kwarg(kwargs, 'server_public_key').attrs['kid'] if kwarg(kwargs, 'server_public_key') is not None
                else Sym(libspec.KID_OF(DVB(S.term(stream.buf), 0)), 'int')),
            'returns-the-message': lambda self, result: result is self,
        }
        may_raise = ['Exception', 'InvalidSignature']
        returns = lambda E, args: args['self']
        havoc_kinds = {'self.token': 'int', 'self.salt': 'bytes',
                       'self.server_pubkey': lambda ip, v, name: libspec.mk_pub(ip, Sym(ip.ctx.fresh('kid_' + name, z3.IntSort()), 'int')),
                       'self.server_root_pubkey': lambda ip, v, name: libspec.mk_pub(ip, Sym(ip.ctx.fresh('kid_' + name, z3.IntSort()), 'int'))}
        modifies = ['self.server_root_pubkey', 'self.server_pubkey', 'self.salt', 'self.token']


# ------------------------------------------------------------------------------------------ client: _recvServerHello
def loadb_hello(ip, data, **kwargs):
    """Serializable.loadb for the server-hello message: the generic decoder either raises, returns some other value (which lacks
    the hello's attributes - ASSUMED: no other registered type carries token, salt and server_pubkey), or builds a
    HandshakeServerHelloMessage by calling its deserialize - which is used here through its verified contract."""
    ip.ctx.lib_used.add('Serializable.loadb dispatches on the type id: raises, returns another value, or calls HandshakeServerHelloMessage.deserialize (model in c02_handshake)')
    c = ip.ctx.choose(3)
    if c == 0:
        ip.ctx.raise_exc('Exception', 'decoder rejected the bytes')
    if c == 1:
        return Obj(None, {}, tag='some-other-decoded-value')
    info = ip.repo.func(HSH + '.deserialize')
    obj = Obj(ip.repo.cls(HSH), {}, tag='hello')
    ip.state.ghost['data'] = data
    return ip.call_function(info, [obj, libspec.BytesIOVal(ip, data)], kwargs)


def dumpb_model(ip, self, **kwargs):
    ip.ctx.lib_used.add('Serializable.dumpb of the challenge response: some bytes or an exception (the serializer itself: C13)')
    if ip.ctx.choose(2) == 1:
        ip.ctx.raise_exc('Exception', 'serializer refused a value')
    t = ip.ctx.fresh('challenge_bytes', BytesSort)
    n = ip.ctx.fresh('challenge_len', z3.IntSort())
    ip.ctx.assume(z3.And(n >= 0, n <= 64))
    ops.set_len_term(t, n)
    return Sym(t, 'bytes')


def make_client_conn(E, pinned):
    self = make_conn(E, cls=CSC, key='none', isServer=False,
                     server_public_key=pub_key(E, 'pinned_kid') if pinned else None,
                     session_key=libspec.mk_priv(E.ip, E.int('client_kid')), session_salt=None, token=0, version=1,
                     last_latency_update_time=E.int('llut'), time_client_hello_sent=E.real('t_hello', lo=0),
                     connection_callback=user_callback(E, 'connection_callback'))
    E.ghost('conn', self)
    E.ghost('pinned', self.attrs['server_public_key'])
    return self


def signer(self, data):
    if self.server_public_key is not None:
        return S.term(self.server_public_key.attrs['kid'], 'int')
    return libspec.KID_OF(DVB(S.term(data), 0))


def kdf_term(own, peer, salt):
    """the idealised ECDH+HKDF result as a specification term (16 bytes: the library contract's own fact, instantiated here)"""
    t = libspec.KDF(libspec._dh(own, peer), salt)
    ops.set_len(t, 16)
    ops.XOR8_FACTS.append((t, z3.Length(t) == 16))
    return t


def key_from_signed_hello(self, data):
    """the adopted key, token and salt come from a payload signed under the pinned key, and the key is the ECDH/HKDF result
    for the client's own ephemeral key, the server key in that payload and the salt in that payload"""
    p = hello_payload(data)
    k = self.session_key_bytes
    if k is None:
        return S.bool(z3.BoolVal(False))
    own = S.term(self.session_key.attrs['kid'], 'int')
    peer = libspec.KID_OF(DVB(p, 0))
    return S.bool(z3.And(libspec.SIGNED(signer(self, data), p),
                         S.term(k) == kdf_term(own, peer, DVB(p, 1)),
                         S.term(self.token, 'int') == DVI(p, 2) if ops.pytype(self.token) == 'int' else z3.BoolVal(True)))


for _pin in (True, False):
    @contract('connection.ClientServerConnection._recvServerHello', props=['C02'], variant=None if _pin else 'no-pinned-key')
    class _:
        """for EVERY byte string received as a server hello: the client becomes CONNECTED and adopts a session key only from a
        hello whose payload is signed under the pinned key; key, token and salt are the ones in that signed payload; any other
        outcome leaves it not connected, and a key is never adopted without that signature."""
        def setup(E, _pin=_pin):
            self = make_client_conn(E, _pin)
            return dict(self=self, data=E.bytes('data'))
        hooks = {'model:serializable.Serializable.loadb': loadb_hello, 'model:serializable.Serializable.dumpb': dumpb_model,
                 'symfn': callback_effects}
        uses = [HSH + '.deserialize' + ('' if _pin else '@no-pinned-key'), 'connection.ConnectionBase._send_type']
        ensures = {
            'connected-only-from-a-hello-signed-under-the-pinned-key': lambda self, data: S.implies(
                S.enum_is(self.status, self.status.cls.class_attrs['CONNECTED']), key_from_signed_hello(self, data)),
            'normal-return-means-connected-with-a-16-byte-key': lambda self: S.enum_is(self.status, self.status.cls.class_attrs['CONNECTED'])
            & (self.session_key_bytes is not None) & (S.len(self.session_key_bytes) == 16 if self.session_key_bytes is not None else False),
            'challenge-response-is-queued': lambda old, self, E: S.len(self.outgoing_messages) == S.len(old.self.outgoing_messages) + 1,
        }
        ensures_exc = {
            # (an exception can also escape AFTER a valid hello was adopted - the user's connect callback may raise)
            'not-connected-unless-the-hello-was-signed-under-the-pinned-key': lambda old, self, data: S.implies(
                S.enum_is(self.status, self.status.cls.class_attrs['CONNECTED']) & S.Not(S.enum_is(old.self.status, self.status.cls.class_attrs['CONNECTED'])),
                key_from_signed_hello(self, data)),
            'a-key-is-never-adopted-without-the-signature': lambda self, data: True if self.session_key_bytes is None else key_from_signed_hello(self, data),
            'invalid-signature-ends-disconnected': lambda self, exc: S.enum_is(self.status, self.status.cls.class_attrs['DISCONNECTED']) if exc.name == 'InvalidSignature' else True,
        }
        may_raise = ['Exception']


# ------------------------------------------------------------------------------------------ server: _recvClientHello
def loadb_client_hello(ip, data, **kwargs):
    ip.ctx.lib_used.add('Serializable.loadb of a client hello: raises, returns another value, or a message with an int version and a public key (model in c02_handshake)')
    c = ip.ctx.choose(3)
    if c == 0:
        ip.ctx.raise_exc('Exception', 'decoder rejected the bytes')
    if c == 1:
        return Obj(None, {}, tag='some-other-decoded-value')
    v = ip.ctx.fresh('client_version', z3.IntSort())
    kid = ip.ctx.fresh('client_kid', z3.IntSort())
    ip.state.ghost['client_kid'] = kid
    return Obj(None, {'client_version': Sym(v, 'int'), 'client_pubkey': libspec.mk_pub(ip, Sym(kid, 'int'))}, tag='client-hello')


def dumpb_hello(ip, self, **kwargs):
    """the hello is serialized and signed by HandshakeServerHelloMessage.serialize (round trip verified below); here the bytes are
    opaque and what is recorded is WHICH values were put into the message and which key signs it"""
    ip.ctx.lib_used.add('Serializable.dumpb of the server hello: opaque bytes; the values and the signing key are recorded (model in c02_handshake)')
    rk = kwargs.get('server_root_key')
    ip.state.events.append(('dumpb-hello', (self.attrs.get('token'), self.attrs.get('server_pubkey'), self.attrs.get('salt'), rk), {}))
    t = ip.ctx.fresh('hello_bytes', BytesSort)
    n = ip.ctx.fresh('hello_len', z3.IntSort())
    ip.ctx.assume(z3.And(n >= 0, n <= 400))
    ops.set_len_term(t, n)
    ip.state.ghost['hello_bytes'] = t
    return Sym(t, 'bytes')


def hello_describes_the_session(E, self, events, ghost):
    ev = [e for e in events if e[0] == 'dumpb-hello']
    if len(ev) != 1:
        return False
    tok, pub, salt, rk = ev[0][1]
    if not (isinstance(pub, Obj) and isinstance(rk, Obj) and rk is ghost.ctxt.attrs['server_root_key']):
        return False
    return (S.eq(tok, self.token) & S.eq(pub.attrs['kid'], self.session_key.attrs['kid']) & S.eq(salt, self.session_salt))


def queued_hello(E, old, self, events, ghost):
    if 'hello_bytes' not in ghost.__dict__:
        return False
    last = E.elem(self.outgoing_messages, S.len(self.outgoing_messages) - 1)
    return ((S.len(self.outgoing_messages) == S.len(old.self.outgoing_messages) + 1) & hello_describes_the_session(E, self, events, ghost)
            & S.enum_is(last.type, E.member(PTYPE, 'SERVER_HELLO')) & S.bool(S.term(last.payload) == ghost.hello_bytes)
            & S.enum_is(self.status, E.member(STATUS, 'CONNECTING')))


def server_key_clause(self, ghost):
    if self.session_key_bytes is None or self.session_salt is None or 'client_kid' not in ghost.__dict__:
        return False
    return S.bool(S.term(self.session_key_bytes) == kdf_term(S.term(self.session_key.attrs['kid'], 'int'), ghost.client_kid, S.term(self.session_salt)))


@contract('connection.ServerClientConnection._recvClientHello', props=['C02', 'C10', 'C11'])
class _:
    """for EVERY decoded hello: a version mismatch changes nothing; otherwise the client gets a token no client in the pools
    holds (C10), the key is the ECDH/HKDF result for its own ephemeral key, the client's key and a fresh salt, and exactly one
    SERVER_HELLO is queued whose message carries that token, that salt and the public half of that ephemeral key, signed with
    the context's root key (C02); nothing else is queued (C11: one reply per hello)."""
    def setup(E):
        ctxt = make_ctxt(E, server_root_key=libspec.mk_priv(E.ip, E.int('root_kid')))
        self = make_conn(E, cls=SCC, key='none', isServer=True, ctxt=ctxt, server_public_key=None,
                         session_key=libspec.mk_priv(E.ip, E.int('server_kid')), session_salt=None, token=0, version=1)
        E.ghost('conn', self)
        return dict(self=self, data=E.bytes('data'))
    skolems = {'a': ADDR}
    hooks = {'model:serializable.Serializable.loadb': loadb_client_hello, 'model:serializable.Serializable.dumpb': dumpb_hello}
    uses = ['context.ServerContext.get_token', 'connection.ConnectionBase._send_type']
    ensures = {
        'version-mismatch-changes-nothing': lambda old, self: S.implies(
            S.len(self.outgoing_messages) == S.len(old.self.outgoing_messages),
            S.eq(self.token, old.self.token) & (self.session_key_bytes is None) & S.enum_is(self.status, old.self.status)),
        'issued-token-is-held-by-no-client-in-the-pools': lambda E, old, self, ghost, a: S.implies(
            S.len(self.outgoing_messages) != S.len(old.self.outgoing_messages),
            no_client_holds(E, ghost.ctxt, self.token, a) & (self.token >= 2 ** 30)),
        'key-is-the-ecdh-result-for-this-session': lambda old, self, ghost: S.implies(
            S.len(self.outgoing_messages) != S.len(old.self.outgoing_messages), server_key_clause(self, ghost)),
        'one-signed-hello-describing-this-session-is-queued': lambda E, old, self, events, ghost: S.implies(
            S.len(self.outgoing_messages) != S.len(old.self.outgoing_messages), queued_hello(E, old, self, events, ghost)),
        # C11: one reply per received hello - the hello is queued with RetryMode.NONE, so it is sent once and never re-sent to an
        # address that stays silent (the premise of the anti-amplification lemma in c11_entry)
        'the-hello-is-sent-once-never-re-sent': lambda E, old, self: S.implies(
            S.len(self.outgoing_messages) != S.len(old.self.outgoing_messages),
            retry_is(E.elem(self.outgoing_messages, S.len(self.outgoing_messages) - 1).retry, 'NONE')),
    }
    may_raise = ['Exception']


# ------------------------------------------------------------------------------------------ honest hello: real writer, then real reader
from pyvc.ctx import PyExc, PathEnd


@contract(HSH + '.deserialize', props=['C02'], variant='roundtrip-honest')
class _:
    """the REAL HandshakeServerHelloMessage.serialize (with the real serialize_value) is executed while the pre-state is built,
    signing with root key R; the REAL deserialize (with the real deserialize_value) is then verified on those bytes with the
    public half of R pinned: no exception, and the very same server key, salt and token come out - for every key pair id,
    every 16-byte salt and every 31-bit token.  With the ECDH symmetry of the idealisation this is 'both ends hold the same
    key and token after an honest handshake'."""
    def setup(E):
        ip = E.ip
        root = libspec.mk_priv(ip, E.int('root_kid'))
        msg = E.obj(HSH, tag='msg', server_pubkey=libspec.mk_pub(ip, E.int('server_kid')), salt=E.bytes('salt', length=16),
                    token=E.int('token', lo=2 ** 30, hi=2 ** 31 - 1))
        out = libspec.BytesIOVal(ip, None)
        try:
            ip.call_function(ip.repo.func(HSH + '.serialize'), [msg, out], {'server_root_key': root})
        except PyExc:
            raise PathEnd()
        E.ghost('msg', msg)
        rest = E.bytes('rest')
        data = ops.bytes_concat([out.buf, rest])
        return dict(self=E.obj(HSH, tag='self'), stream=libspec.BytesIOVal(ip, data),
                    __kwargs__={'server_public_key': libspec.mk_pub(ip, root.attrs['kid'])})
    ensures = {
        'same-server-key-salt-and-token': lambda self, ghost: S.eq(self.token, ghost.msg.token) & S.eq(self.salt, ghost.msg.salt)
        & S.eq(self.server_pubkey.attrs['kid'], ghost.msg.server_pubkey.attrs['kid']),
    }


@lemma('both-ends-derive-the-same-key', props=['C02'])
def _same_key(E):
    """server: ecdh_server(own S, client key C) -> (salt, k1);  client: ecdh_client(own C, server key S, that salt) -> k2;  k1 = k2
    (over the idealisation: DH symmetric, HKDF deterministic - both functions are the library models used by the contracts)"""
    ip = E.ip
    s, c = E.int('server_kid'), E.int('client_kid')
    salt, k1 = libspec._ecdh_server(ip, libspec.mk_priv(ip, s), libspec.mk_pub(ip, c))
    k2 = libspec._ecdh_client(ip, libspec.mk_priv(ip, c), libspec.mk_pub(ip, s), salt)
    return {'same-16-byte-key': S.eq(k1, k2) & (S.len(k1) == 16)}


# ------------------------------------------------------------------------------------------ the crypto wrappers themselves
# The contracts above use the idealised library models (pyvc/libspec.py) in place of crypto.EllipticCurvePublicKey.verify etc.
# Here the REAL wrapper bodies are verified against the `cryptography` objects they wrap (opaque library objects with their
# documented behaviour): the wrapper adds nothing and swallows nothing - which is what the idealised models assume of it.
def crypto_lib(ip, fn, args, kwargs):
    if fn.name.startswith('cryptography.') or fn.name.startswith('crypto.'):
        return Opaque('lib:' + fn.name.split('.')[-1], {'returns': None})
    return NotImplemented


def lib_verify(ip, fn, args, kwargs):
    """cryptography's public_key.verify(signature, data, algorithm): raises InvalidSignature / TypeError / ValueError, or returns None"""
    ip.state.ghost['lib_verify_calls'] = ip.state.ghost.get('lib_verify_calls', 0) + 1
    ip.state.ghost['lib_verify_args'] = args
    ip.state.ghost['lib_verify_ok'] = False
    c = ip.ctx.choose(4)
    if c == 1:
        ip.ctx.raise_exc('InvalidSignature', 'signature mismatch')
    if c == 2:
        ip.ctx.raise_exc('TypeError', 'signature must be bytes')
    if c == 3:
        ip.ctx.raise_exc('ValueError', 'malformed signature')
    ip.state.ghost['lib_verify_ok'] = True
    return None


@contract('crypto.EllipticCurvePublicKey.verify', props=['C02'])
class _:
    """returns normally ONLY when the library verified this signature over this data, once; every failure of the library
    (mismatch, malformed or non-bytes signature) propagates as an exception - nothing is swallowed or turned into a return value"""
    def setup(E):
        key = E.plain_obj(tag='libkey', verify=E.opaque('libkey.verify', effect=lib_verify))
        return dict(self=E.obj('crypto.EllipticCurvePublicKey', tag='self', key=key), signature=E.bytes('signature'), data=E.bytes('data'))
    hooks = {'opaque': crypto_lib}
    ensures = {
        'success-only-if-the-library-verified-this-signature-over-this-data': lambda ghost, signature, data: (
            ghost.__dict__.get('lib_verify_calls', 0) == 1 and ghost.lib_verify_ok is True
            and ghost.lib_verify_args[0] is signature and ghost.lib_verify_args[1] is data),
        'no-result-value': lambda result: result is None,
    }
    may_raise = ['InvalidSignature', 'TypeError', 'ValueError']
    modifies = []


LIB_EXCHANGE = z3.Function('lib_ecdh_exchange', z3.IntSort(), z3.IntSort(), BytesSort)     # library key ids -> shared secret


def lib_key(E, name):
    """a `cryptography` key object: exchange(algorithm, peer) returns the shared secret of the two key ids"""
    kid = E.int(name)

    def exchange(ip, fn, args, kwargs):
        peer = args[1] if len(args) > 1 else None
        pk = peer.attrs.get('kid') if isinstance(peer, Obj) else None
        if pk is None:
            ip.ctx.raise_exc('TypeError', 'peer key')
        t = LIB_EXCHANGE(S.term(kid, 'int'), S.term(pk, 'int'))
        ops.set_len(t, 32)
        ip.ctx.assume(z3.Length(t) == 32)
        return Sym(t, 'bytes')
    return E.plain_obj(tag=name, kid=kid, exchange=E.opaque(name + '.exchange', effect=exchange))


def hkdf_lib(ip, fn, args, kwargs):
    """HKDF(algorithm=, length=, salt=, info=, backend=) -> object whose derive(secret) is recorded with the parameters"""
    if fn.name.endswith('.HKDF'):
        params = dict(kwargs)

        def derive(ip2, fn2, a2, k2):
            ip2.state.events.append(('hkdf.params', (params.get('length'), params.get('salt'), params.get('info'), a2[0]), {}))
            t = ip2.ctx.fresh('derived', BytesSort)
            ops.set_len_term(t, S.term(params.get('length'), 'int'))
            return Sym(t, 'bytes')
        return Obj(None, {'derive': Opaque('hkdf.derive', {'effect': derive})}, tag='hkdf')
    return crypto_lib(ip, fn, args, kwargs)


INFO = b'01-secp256r1-sha256-aesgcm128-server-client'


def derived_as_agreed(events, own, peer, salt, result_key):
    ev = [e for e in events if e[0] == 'hkdf.params']
    if len(ev) != 1:
        return False
    length, s, info, secret = ev[0][1]
    return (S.eq(length, 16) & (info == INFO) & S.eq(s, salt)
            & S.bool(S.term(secret) == LIB_EXCHANGE(S.term(own.attrs['kid'], 'int'), S.term(peer.attrs['kid'], 'int')))
            & (S.len(result_key) == 16))


@contract('crypto.ecdh_server', props=['C02'])
class _:
    """the key is HKDF-SHA256(length 16, the fresh 16-byte salt that is returned, the agreed info string) of the library's ECDH
    exchange between the server's key and the client's key - the same parameters ecdh_client uses"""
    def setup(E):
        priv = E.obj('crypto.EllipticCurvePrivateKey', tag='priv', key=lib_key(E, 'own_kid'))
        pub = E.obj('crypto.EllipticCurvePublicKey', tag='pub', key=lib_key(E, 'peer_kid'))
        return dict(server_private_key=priv, client_public_key=pub)
    hooks = {'opaque': hkdf_lib}
    ensures = {
        'key-derivation-parameters': lambda events, server_private_key, client_public_key, result: derived_as_agreed(
            events, server_private_key.key, client_public_key.key, result[0], result[1]) & (S.len(result[0]) == 16),
    }


@contract('crypto.ecdh_client', props=['C02'])
class _:
    """the key is HKDF-SHA256(length 16, the salt received, the agreed info string) of the library's ECDH exchange between the
    client's key and the server's key"""
    def setup(E):
        priv = E.obj('crypto.EllipticCurvePrivateKey', tag='priv', key=lib_key(E, 'own_kid'))
        pub = E.obj('crypto.EllipticCurvePublicKey', tag='pub', key=lib_key(E, 'peer_kid'))
        return dict(client_private_key=priv, server_public_key=pub, salt=E.bytes('salt'))
    hooks = {'opaque': hkdf_lib}
    ensures = {
        'key-derivation-parameters': lambda events, client_private_key, server_public_key, salt, result: derived_as_agreed(
            events, client_private_key.key, server_public_key.key, salt, result),
    }


def aesgcm_lib(ip, fn, args, kwargs):
    """AESGCM(key) -> object whose encrypt(nonce, data, associated_data) / decrypt(nonce, data, associated_data) calls are recorded"""
    if fn.name.endswith('.AESGCM'):
        key = args[0]

        def op(which):
            def eff(ip2, fn2, a2, k2):
                ip2.state.events.append(('aesgcm.' + which + '.args', (key,) + tuple(a2), {}))
                t = ip2.ctx.fresh(which + '_out', BytesSort)
                ops.set_len_term(t, ip2.ctx.fresh(which + '_len', z3.IntSort()))
                ip2.state.ghost['lib_out'] = Sym(t, 'bytes')
                return ip2.state.ghost['lib_out']
            return eff
        return Obj(None, {'encrypt': Opaque('aesgcm.encrypt', {'effect': op('encrypt')}),
                          'decrypt': Opaque('aesgcm.decrypt', {'effect': op('decrypt'), 'may_raise': True})}, tag='aesgcm')
    return crypto_lib(ip, fn, args, kwargs)


def gcm_call(events, which, key, iv, aad, data, result, ghost):
    """the library is called once as AESGCM(key).<which>(nonce=iv, data=data, associated_data=aad) - in the library's argument
    order, which differs from the wrapper's - and its result is returned unchanged"""
    ev = [e for e in events if e[0] == 'aesgcm.%s.args' % which]
    if len(ev) != 1 or len(ev[0][1]) != 4:
        return False
    k, n, d, a = ev[0][1]
    return k is key and n is iv and d is data and a is aad and result is ghost.lib_out


for _w in ('encrypt', 'decrypt'):
    @contract('crypto.%s_gcm' % _w, props=['C01', 'C03'])
    class _:
        """the wrapper the idealised AEAD model stands for: one library call with key, nonce, data and associated data each in
        its own place; the library's result (or its InvalidTag) passes through"""
        def setup(E):
            return dict(key=E.bytes('key', length=16), iv=E.bytes('iv', length=12), aad=E.bytes('aad'), data=E.bytes('data'))
        hooks = {'opaque': aesgcm_lib}
        ensures = {'library-called-with-each-argument-in-its-place': lambda events, key, iv, aad, data, result, ghost, _w=_w: gcm_call(
            events, _w, key, iv, aad, data, result, ghost)}
        may_raise = ['Exception'] if _w == 'decrypt' else []
