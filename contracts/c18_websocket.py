"""C18 — WebSocket frames against RFC 6455 (section 5.2), for every wire opcode, mask flag, flag bits and 0 <= n < 2^63.
Spec RFC(frame): byte0 = fin<<7 | rsv1<<6 | rsv2<<5 | rsv3<<4 | opcode ; byte1 = mask<<7 | len7 ;
len7 = n (n<=125) | 126 + be16(n) (n<=65535) | 127 + be64(n) ; masking key iff mask ; payload XOR key[i mod 4] when masked.
Domain: the five wire opcodes (Open = 0xFF is the library's internal pseudo-opcode and is not encodable in 4 bits)."""
import z3
from pyvc.dsl import contract, lemma, S, LoopSpec
from pyvc import ops
from pyvc.values import *

WSF = 'http_server.WebSocketFrame'
OPC = 'http_server.WebSocketOpCode'
RING = 'http_server.WebSocketTemporaryRingBuffer'
WIRE = ['Close', 'Ping', 'Pong', 'Text', 'Binary']


def make_frame(E, name='self', n=None, payload=None, wire_only=True):
    flags = E.plain_obj(tag=name + '_flags',
                        fin=E.int(name + '_fin', lo=0, hi=1), rsv1=E.int(name + '_rsv1', lo=0, hi=1),
                        rsv2=E.int(name + '_rsv2', lo=0, hi=1), rsv3=E.int(name + '_rsv3', lo=0, hi=1),
                        opcode=E.enum(OPC, name + '_opcode', among=WIRE if wire_only else None),
                        mask=E.int(name + '_mask', lo=0, hi=1), length=E.int(name + '_len7', lo=0, hi=127))
    n = n if n is not None else E.int(name + '_n', lo=0, hi=2 ** 63 - 1)
    return E.obj(WSF, tag=name, flags=flags, payload_length=n, masking_key=E.bytes(name + '_key', length=4),
                 payload=payload if payload is not None else E.bytes(name + '_payload'))


def byte0(f):
    return f.fin * 128 + f.rsv1 * 64 + f.rsv2 * 32 + f.rsv3 * 16 + f.opcode.value


def len7(n):
    return S.ite(n <= 125, n, S.ite(n <= 65535, 126, 127))


@contract('http_server.WebSocketFrame.serializeHeader', props=['C18'])
class _:
    def setup(E):
        return dict(self=make_frame(E))
    ensures = {
        'two-bytes': lambda result: S.len(result) == 2,
        'rfc-byte0-fin-rsv-opcode': lambda self, result: S.byte_at(result, 0) == byte0(self.flags),
        'rfc-byte1-mask-len7': lambda self, result: S.byte_at(result, 1) == self.flags.mask * 128 + len7(self.payload_length),
    }
    modifies = []
    returns = 'bytes'


@contract('http_server.WebSocketFrame.serializeDataHeader', props=['C18'])
class _:
    def setup(E):
        return dict(self=make_frame(E))
    ensures = {
        # extended length field exactly as announced by len7: none / 16 bit / 64 bit, then the key iff masked
        'rfc-extended-length-and-key': lambda self, result: S.eq(result, S.concat(
            ext_len(self.payload_length),
            S.ite(self.flags.mask == 1, self.masking_key, b''))),
    }
    modifies = []
    returns = 'bytes'


def ext_len(n):
    """be16(n) for 126 <= n <= 65535, be64(n) above, nothing below; as one bytes value"""
    e16 = S.pk('H', n)
    e64 = S.pk('Q', n)
    c16 = ops.and_(ops.compare('Gt', n, 125), ops.compare('LtE', n, 65535))
    c64 = ops.compare('Gt', n, 65535)
    t = z3.If(ops.bterm(c16), ops.term(e16), z3.If(ops.bterm(c64), ops.term(e64), z3.Empty(BytesSort)))
    return Sym(t, 'bytes')


def recorder(E):
    """a socket that records what is sent"""
    return E.plain_obj(tag='socket', sendall=E.opaque('sendall', returns=None))


@contract('http_server.WebSocketFrame.writeData', props=['C18'])
class _:
    def setup(E):
        return dict(self=make_frame(E), socket=recorder(E))
    skolems = {'j': 'int'}
    loops = {0: LoopSpec(
        invariant={
            'length-kept': lambda payload, self: S.len(payload) == S.len(self.payload),
            'prefix-masked': lambda payload, self, j, _i: S.implies(
                (0 <= j) & (j < S.len(self.payload)),
                S.byte_at(payload, j) == S.ite(j < _i, S.xor8(S.byte_at(self.payload, j), S.byte_at(self.masking_key, j % 4)),
                                               S.byte_at(self.payload, j))),
        }, label='mask-loop')}
    ensures = {
        'one-send': lambda events: len([e for e in events if e[0] == 'sendall']) == 1,
        'payload-length-kept': lambda events, self: S.len(sent(events)) == S.len(self.payload),
        # RFC 6455 5.3: octet i of the transformed data is octet i of the original XOR octet (i mod 4) of the key, when masked
        'rfc-masking': lambda events, self, j: S.implies(
            (0 <= j) & (j < S.len(self.payload)),
            S.byte_at(sent(events), j) == S.ite(self.flags.mask == 1,
                                                S.xor8(S.byte_at(self.payload, j), S.byte_at(self.masking_key, j % 4)),
                                                S.byte_at(self.payload, j))),
        'frame-unchanged': lambda old, self: S.eq(self.payload, old.self.payload),
    }


def sent(events):
    ev = [e for e in events if e[0] == 'sendall']
    return ev[0][1][0]


@contract('http_server.WebSocketFrame.parseHeader', props=['C18'])
class _:
    """decode of RFC bytes: every field comes back (round trip of the 2-byte header)"""
    def setup(E):
        f = make_frame(E, 'f')
        E.ghost('f', f)
        hdr = S.concat(S.pk('B', byte0(f.flags)), S.pk('B', f.flags.mask * 128 + f.flags.length))
        return dict(self=make_frame(E, 'self'), hdr=hdr)
    ensures = {
        'flags-round-trip': lambda self, ghost: S.eq(self.flags.fin, ghost.f.flags.fin) & S.eq(self.flags.rsv1, ghost.f.flags.rsv1)
        & S.eq(self.flags.rsv2, ghost.f.flags.rsv2) & S.eq(self.flags.rsv3, ghost.f.flags.rsv3)
        & S.eq(self.flags.opcode.value, ghost.f.flags.opcode.value) & S.eq(self.flags.mask, ghost.f.flags.mask)
        & S.eq(self.flags.length, ghost.f.flags.length),
    }


@contract('http_server.WebSocketFrame.parseHeader', props=['C18', 'C11'], variant='any-bytes')
class _:
    def setup(E):
        return dict(self=make_frame(E, 'self'), hdr=E.bytes('hdr'))
    raises = {
        'struct-error-iff-not-two-bytes': ('struct.error', lambda hdr: S.len(hdr) != 2),
        'value-error-iff-unknown-opcode': ('ValueError', lambda hdr: (S.len(hdr) == 2) & S.Not(S.Or(
            *[S.byte_at(hdr, 0) % 16 == v for v in (8, 9, 10, 1, 2)]))),
    }


def ring(E, data):
    return E.obj(RING, tag='socket', request=None, buf=data)


@contract('http_server.WebSocketFrame.readDataHeader', props=['C18'])
class _:
    """reads back what serializeDataHeader writes, for the length class announced in the header"""
    cvc5_first = ['readDataHeader/ensures/consumes-exactly-the-data-header']       # one path: z3 unknown after 30 s, cvc5 seconds
    def setup(E):
        f = make_frame(E, 'f')
        E.ghost('f', f)
        rest = E.bytes('rest')
        E.assume(S.term(f.flags.length) == S.term(len7(f.payload_length)))
        self = make_frame(E, 'self')
        self.flags.attrs['length'] = f.flags.length
        self.flags.attrs['mask'] = f.flags.mask
        n = f.payload_length
        data = S.concat(ext_len_packed(E, n), S.ite(f.flags.mask == 1, f.masking_key, b''), rest)
        E.ghost('rest', rest)
        return dict(self=self, socket=ring(E, data))
    ensures = {
        'payload-length-round-trip': lambda self, ghost: S.eq(self.payload_length, ghost.f.payload_length),
        'masking-key-round-trip': lambda self, ghost: S.implies(ghost.f.flags.mask == 1, S.eq(self.masking_key, ghost.f.masking_key)),
        'consumes-exactly-the-data-header': lambda socket, ghost: S.eq(socket.buf, ghost.rest),
    }


def ext_len_packed(E, n):
    e16 = E.pack('!H', S.ite((n > 125) & (n <= 65535), n, 0))
    e64 = E.pack('!Q', n)
    c16 = ops.and_(ops.compare('Gt', n, 125), ops.compare('LtE', n, 65535))
    c64 = ops.compare('Gt', n, 65535)
    t = z3.If(ops.bterm(c16), ops.term(e16), z3.If(ops.bterm(c64), ops.term(e64), z3.Empty(BytesSort)))
    E.assume(z3.Length(t) == z3.If(ops.bterm(c16), 2, z3.If(ops.bterm(c64), 8, 0)))
    return Sym(t, 'bytes')


@contract('http_server.WebSocketFrame.readData', props=['C18'])
class _:
    def setup(E):
        self = make_frame(E, 'self')
        data = E.bytes('wire')
        E.ghost('wire', data)
        return dict(self=self, socket=ring(E, data))
    requires = {'whole-payload-buffered': lambda self, socket: S.len(socket.buf) >= self.payload_length}
    skolems = {'j': 'int'}
    loops = {0: LoopSpec(
        invariant={
            'length-kept': lambda self, old: S.len(self.payload) == old.self.payload_length,
            'prefix-unmasked': lambda self, ghost, j, _i: S.implies(
                (0 <= j) & (j < S.len(self.payload)),
                S.byte_at(self.payload, j) == S.ite(j < _i, S.xor8(S.byte_at(ghost.wire, j), S.byte_at(self.masking_key, j % 4)),
                                                    S.byte_at(ghost.wire, j))),
        },
        havoc=['self.payload'], label='xor-loop')}
    ensures = {
        'length': lambda self, old: S.len(self.payload) == old.self.payload_length,
        # "with its payload unmasked": byte j is the wire byte XOR key[j mod 4] when masked, the wire byte otherwise
        'payload-unmasked': lambda self, ghost, j: S.implies(
            (0 <= j) & (j < S.len(self.payload)),
            S.byte_at(self.payload, j) == S.ite(self.flags.mask == 1,
                                                S.xor8(S.byte_at(ghost.wire, j), S.byte_at(self.masking_key, j % 4)),
                                                S.byte_at(ghost.wire, j))),
        'consumes-exactly-the-payload': lambda socket, ghost, old: S.eq(socket.buf, S.slice(ghost.wire, old.self.payload_length, None)),
    }


# ------------------------------------------------------------------------------------------ the TCP stream: WebSocketTemporaryHandler.__call__
WSH = 'http_server.WebSocketTemporaryHandler'


def frame_size(buf):
    """specification: total size of the frame at the head of the byte string `buf`, or None when it is not complete
    (RFC 6455: 2 header bytes, 0/2/8 bytes of extended length, 4 key bytes when masked, the payload) - as a pair (complete?, size)"""
    n = S.len(buf)
    l7 = S.byte_at(buf, 1) % 128
    masked = S.byte_at(buf, 1) >= 128
    have16 = n >= 4
    have64 = n >= 10
    plen = S.ite(l7 == 126, S.upk('H', S.slice(buf, 2, 4)), S.ite(l7 == 127, S.upk('Q', S.slice(buf, 2, 10)), l7))
    hdr = S.ite(l7 == 126, 4, S.ite(l7 == 127, 10, 2)) + S.ite(masked, 4, 0)
    header_known = (n >= 2) & S.implies(l7 == 126, have16) & S.implies(l7 == 127, have64)
    size = hdr + plen
    return header_known & (n >= size), size


def make_handler(E, buf):
    ip = E.ip
    request = E.plain_obj(tag='request', chunked=1, write=E.opaque('request.write', returns=None))
    sock = E.obj(RING, tag='socket', request=request, buf=buf)
    endpt = E.plain_obj(tag='endpt', callback=E.opaque('endpt.callback', may_raise=True, returns=None))
    # the handler is built by its REAL constructor (so that whatever the constructor sets up is there), then put into an
    # arbitrary open/closed state
    h = ip.call(ClassVal(ip.repo.cls(WSH)), [None, None, None, sock, endpt], {})
    h.tag = 'self'
    h.attrs['closed'] = E.bool('closed')
    E.ctx.inputs['self'] = h
    return h


def delivered(events):
    return [e for e in events if e[0] == 'endpt.callback']


def bytearray_decode(ip, b, enc, errors):
    """utf-8 decoding of a text payload: raises or returns some string (the codec is not the subject here)"""
    if ip.ctx.choose(2) == 1:
        ip.ctx.raise_exc('UnicodeDecodeError')
    return Sym(ip.ctx.fresh('text', z3.StringSort()), 'str')


@contract(WSH + '._frameReady', props=['C18'])
class _:
    """True exactly when the frame at the head of the buffer has arrived completely (specification frame_size, from RFC 6455)"""
    def setup(E):
        return dict(self=make_handler(E, E.bytes('buffered')))
    ensures = {'true-iff-a-complete-frame-is-buffered': lambda self, result: S.iff(result, frame_size(self._buffer.buf)[0])}
    returns = 'bool'
    modifies = []


def framed_buffer(ip, v, name):
    """the buffer at the head of an arbitrary iteration, in the only two forms a byte string can have: either it does not hold
    a complete frame (opaque bytes; the loop condition decides), or it splits at the RFC's field boundaries into
    2 header bytes | 0/2/8 bytes of extended length | 0/4 key bytes | payload | rest, the header bytes announcing exactly that
    split (ASSUMED representation fact about byte strings: a string of sufficient length splits at given offsets)"""
    from pyvc import libspec
    ctx = ip.ctx
    c = ctx.choose(7)
    if c == 6:
        t = ctx.fresh(name, BytesSort)
        n = ctx.fresh(name + '_len', z3.IntSort())
        ctx.assume(n >= 0)
        ops.set_len_term(t, n)
        ctx.assume(ops.bterm(S.Not(frame_size(Sym(t, 'bytes'))[0])))       # this form: no complete frame at the head
        return Sym(t, 'bytes')
    ext_n = (0, 2, 8)[c % 3]
    key_n = (0, 4)[c // 3]
    bv0, bv1 = ctx.fresh('byte0', z3.BitVecSort(8)), ctx.fresh('byte1', z3.BitVecSort(8))
    b1 = z3.BV2Int(bv1)
    l7 = b1 % 128
    ctx.assume((b1 >= 128) == (key_n == 4))
    chunks = [z3.Unit(bv0), z3.Unit(bv1)]
    if ext_n:
        e = ctx.fresh('ext', BytesSort)
        ops.set_len(e, ext_n)
        ctx.assume(z3.Length(e) == ext_n)
        chunks.append(e)
        code = 'H' if ext_n == 2 else 'Q'
        plen = libspec.upk_fn(code)(e)
        lo, hi = libspec.FIELD[code][1], libspec.FIELD[code][2]
        ctx.assume(z3.And(plen >= lo, plen <= hi, libspec.pk_fn(code)(plen) == e))
        ops.declare_bounds(plen, lo, hi)
        ctx.assume(l7 == (126 if ext_n == 2 else 127))
    else:
        plen = l7
        ctx.assume(l7 <= 125)
    if key_n:
        k = ctx.fresh('key', BytesSort)
        ops.set_len(k, 4)
        ctx.assume(z3.Length(k) == 4)
        chunks.append(k)
    pay = ctx.fresh('payload', BytesSort)
    ops.set_len_term(pay, z3.simplify(plen))
    rest = ctx.fresh('rest', BytesSort)
    rn = ctx.fresh('rest_len', z3.IntSort())
    ctx.assume(rn >= 0)
    ops.set_len_term(rest, rn)
    chunks += [pay, rest]
    return Sym(ops.mk_concat(chunks), 'bytes')


def chunk_appended(ip, frame, env):
    """before the first frame is looked at, the buffer is the old remainder followed by the new chunk (nothing lost, nothing reordered)"""
    ip.ctx.oblige('%s/loop@frames:init/buffer-is-the-remainder-followed-by-the-new-chunk' % ip.verifying_key,
                  ops.bterm(S.eq(env['self'].attrs['_buffer'].attrs['buf'], ip.state.ghost['stream'])))


def iteration_pre(ip, frame, env):
    g = ip.state.ghost
    g['buf_start'] = env['self'].attrs['_buffer'].attrs['buf']
    g['ev_start'] = len(ip.state.events)


def iteration_post(ip, frame, env):
    """one iteration = one frame: exactly the bytes of the frame at the head of the buffer are consumed and exactly one
    endpoint callback is made, for that frame (opcode from its first byte, payload = its payload bytes unmasked)"""
    g = ip.state.ghost
    key = ip.verifying_key
    b0 = g['buf_start']
    self = env['self']
    complete, size = frame_size(b0)
    now = self.attrs['_buffer'].attrs['buf']
    ip.ctx.oblige('%s/loop@frames:iteration/consumes-exactly-the-frame-at-the-head' % key,
                  ops.bterm(S.eq(now, S.slice(b0, size, None))))
    ev = delivered(ip.state.events[g['ev_start']:])
    ok = len(ev) == 1 and len(ev[0][1]) == 3 and ev[0][1][0] is self
    ip.ctx.oblige('%s/loop@frames:iteration/one-callback-per-frame' % key, z3.BoolVal(ok))
    if ok:
        opcode, payload = ev[0][1][1], ev[0][1][2]
        ip.ctx.oblige('%s/loop@frames:iteration/callback-carries-the-opcode-of-the-frame' % key,
                      ops.bterm(S.eq(opcode.value, S.byte_at(b0, 0) % 16)))
        if ops.pytype(payload) != 'str':          # (text payloads are decoded: the codec is not the subject)
            j = env['j']
            l7 = S.byte_at(b0, 1) % 128
            hdr = S.ite(l7 == 126, 4, S.ite(l7 == 127, 10, 2))
            plen = size - hdr - 4
            pb = payload.val if hasattr(payload, 'val') else payload
            ip.ctx.oblige('%s/loop@frames:iteration/callback-carries-the-unmasked-payload' % key, ops.bterm(
                (S.len(pb) == plen) & S.implies((0 <= j) & (j < plen),
                                               S.byte_at(pb, j) == S.xor8(S.byte_at(b0, hdr + 4 + j), S.byte_at(b0, hdr + j % 4)))))


def replay_stream(label, model):
    """the counter-models say: a chunk ending inside a frame is parsed anyway / a second complete frame stays buffered.
    Natively: three masked text frames, delivered (a) in one read, (b) cut at every position into two reads"""
    return '''
import sys
from mpgameserver.http_server import WebSocketFrame, WebSocketTemporaryHandler, WebSocketTemporaryRingBuffer
def wire(msg):
    f = WebSocketFrame.Text(msg); f.flags.mask = 1; f.masking_key = b"\\x09\\x08\\x07\\x06"
    body = bytes(b ^ f.masking_key[i % 4] for i, b in enumerate(f.payload))
    return f.serializeHeader() + f.serializeDataHeader() + body
class Endpoint:
    def __init__(self): self.got = []
    def callback(self, handler, opcode, payload): self.got.append(payload)
msgs = ["one", "two", "three" * 50]
stream = b"".join(wire(m) for m in msgs)
bad = []
for cut in [None] + list(range(1, len(stream))):
    ep = Endpoint()
    h = WebSocketTemporaryHandler(("h", 1), {}, {}, WebSocketTemporaryRingBuffer(None), ep)
    try:
        if cut is None:
            h(stream)
        else:
            h(stream[:cut]); h(stream[cut:])
    except Exception as e:
        bad.append((cut, "exception %r" % (e,)))
        continue
    if ep.got != msgs:
        bad.append((cut, "delivered %r" % ([m[:12] for m in ep.got],)))
for b in bad[:5]:
    print("cut at", b[0], "->", b[1])
print("%d of %d ways of cutting the stream do not deliver the three frames exactly once, in order" % (len(bad), len(stream)))
sys.exit(1 if bad else 0)
'''


@contract(WSH + '.__call__', props=['C18'])
class _:
    replay = replay_stream
    """however the TCP stream is cut: a call with ANY buffered remainder and ANY new chunk first appends the chunk, then hands
    to the endpoint the frames that are complete, one per iteration, each consuming exactly its own bytes from the head of the
    buffer (so frames come in stream order, each once, and the buffer always holds the unconsumed suffix of the stream); it
    stops only when no complete frame is left; a partial frame is never parsed (call-site precondition of readData)."""
    def setup(E):
        buf0 = E.bytes('buffered')
        data = E.bytes('data')
        E.ghost('stream', S.concat(buf0, data))
        return dict(self=make_handler(E, buf0), data=data)
    skolems = {'j': 'int'}
    loops_optional = True
    hooks = {'bytes.decode': bytearray_decode, 'bytearray.decode': bytearray_decode}
    # (_frameReady is executed inline here - it is also verified on its own against the specification frame_size)
    uses = ['http_server.WebSocketFrame.readData']
    loops = {0: LoopSpec(label='frames', invariant={}, havoc=['self._buffer.buf', 'self.closed', 'self._buffer.request.chunked'],
                         havoc_kinds={'self._buffer.buf': framed_buffer}, ghost_init=chunk_appended,
                         ghost_pre=iteration_pre, ghost_post=iteration_post)}
    ensures = {
        'no-complete-frame-is-left-waiting': lambda self: S.Not(frame_size(self._buffer.buf)[0]),
    }
    may_raise = ['Exception']
