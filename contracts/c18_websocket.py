"""C18 — WebSocket frames against RFC 6455 (section 5.2), for every wire opcode, mask flag, flag bits and 0 <= n < 2^63.
Spec RFC(frame): byte0 = fin<<7 | rsv1<<6 | rsv2<<5 | rsv3<<4 | opcode ; byte1 = mask<<7 | len7 ;
len7 = n (n<=125) | 126 + be16(n) (n<=65535) | 127 + be64(n) ; masking key iff mask ; payload XOR key[i mod 4] when masked.
Domain: the five wire opcodes (Open = 0xFF is the library's internal pseudo-opcode and is not encodable in 4 bits)."""
import z3
from pyvc.dsl import contract, lemma, S, LoopSpec
from pyvc import ops
from pyvc.values import *

WSF = 'http_server.WebSocketFrame'
OPC = 'http_server.WebSocketOpCode'
RING = 'http_server.WebSocketTemporaryRingBuffer'
WIRE = ['Close', 'Ping', 'Pong', 'Text', 'Binary']


def make_frame(E, name='self', n=None, payload=None, wire_only=True):
    flags = E.plain_obj(tag=name + '_flags',
                        fin=E.int(name + '_fin', lo=0, hi=1), rsv1=E.int(name + '_rsv1', lo=0, hi=1),
                        rsv2=E.int(name + '_rsv2', lo=0, hi=1), rsv3=E.int(name + '_rsv3', lo=0, hi=1),
                        opcode=E.enum(OPC, name + '_opcode', among=WIRE if wire_only else None),
                        mask=E.int(name + '_mask', lo=0, hi=1), length=E.int(name + '_len7', lo=0, hi=127))
    n = n if n is not None else E.int(name + '_n', lo=0, hi=2 ** 63 - 1)
    return E.obj(WSF, tag=name, flags=flags, payload_length=n, masking_key=E.bytes(name + '_key', length=4),
                 payload=payload if payload is not None else E.bytes(name + '_payload'))


def byte0(f):
    return f.fin * 128 + f.rsv1 * 64 + f.rsv2 * 32 + f.rsv3 * 16 + f.opcode.value


def len7(n):
    return S.ite(n <= 125, n, S.ite(n <= 65535, 126, 127))


@contract('http_server.WebSocketFrame.serializeHeader', props=['C18'])
class _:
    def setup(E):
        return dict(self=make_frame(E))
    ensures = {
        'two-bytes': lambda result: S.len(result) == 2,
        'rfc-byte0-fin-rsv-opcode': lambda self, result: S.byte_at(result, 0) == byte0(self.flags),
        'rfc-byte1-mask-len7': lambda self, result: S.byte_at(result, 1) == self.flags.mask * 128 + len7(self.payload_length),
    }
    modifies = []
    returns = 'bytes'


@contract('http_server.WebSocketFrame.serializeDataHeader', props=['C18'])
class _:
    def setup(E):
        return dict(self=make_frame(E))
    ensures = {
        # extended length field exactly as announced by len7: none / 16 bit / 64 bit, then the key iff masked
        'rfc-extended-length-and-key': lambda self, result: S.eq(result, S.concat(
            ext_len(self.payload_length),
            S.ite(self.flags.mask == 1, self.masking_key, b''))),
    }
    modifies = []
    returns = 'bytes'


def ext_len(n):
    """be16(n) for 126 <= n <= 65535, be64(n) above, nothing below; as one bytes value"""
    e16 = S.pk('H', n)
    e64 = S.pk('Q', n)
    c16 = ops.and_(ops.compare('Gt', n, 125), ops.compare('LtE', n, 65535))
    c64 = ops.compare('Gt', n, 65535)
    t = z3.If(ops.bterm(c16), ops.term(e16), z3.If(ops.bterm(c64), ops.term(e64), z3.Empty(BytesSort)))
    return Sym(t, 'bytes')


def recorder(E):
    """a socket that records what is sent"""
    return E.plain_obj(tag='socket', sendall=E.opaque('sendall', returns=None))


@contract('http_server.WebSocketFrame.writeData', props=['C18'])
class _:
    def setup(E):
        return dict(self=make_frame(E), socket=recorder(E))
    skolems = {'j': 'int'}
    loops = {0: LoopSpec(
        invariant={
            'length-kept': lambda payload, self: S.len(payload) == S.len(self.payload),
            'prefix-masked': lambda payload, self, j, _i: S.implies(
                (0 <= j) & (j < S.len(self.payload)),
                S.byte_at(payload, j) == S.ite(j < _i, S.xor8(S.byte_at(self.payload, j), S.byte_at(self.masking_key, j % 4)),
                                               S.byte_at(self.payload, j))),
        }, label='mask-loop')}
    ensures = {
        'one-send': lambda events: len([e for e in events if e[0] == 'sendall']) == 1,
        'payload-length-kept': lambda events, self: S.len(sent(events)) == S.len(self.payload),
        # RFC 6455 5.3: octet i of the transformed data is octet i of the original XOR octet (i mod 4) of the key, when masked
        'rfc-masking': lambda events, self, j: S.implies(
            (0 <= j) & (j < S.len(self.payload)),
            S.byte_at(sent(events), j) == S.ite(self.flags.mask == 1,
                                                S.xor8(S.byte_at(self.payload, j), S.byte_at(self.masking_key, j % 4)),
                                                S.byte_at(self.payload, j))),
        'frame-unchanged': lambda old, self: S.eq(self.payload, old.self.payload),
    }


def sent(events):
    ev = [e for e in events if e[0] == 'sendall']
    return ev[0][1][0]


@contract('http_server.WebSocketFrame.parseHeader', props=['C18'])
class _:
    """decode of RFC bytes: every field comes back (round trip of the 2-byte header)"""
    def setup(E):
        f = make_frame(E, 'f')
        E.ghost('f', f)
        hdr = S.concat(S.pk('B', byte0(f.flags)), S.pk('B', f.flags.mask * 128 + f.flags.length))
        return dict(self=make_frame(E, 'self'), hdr=hdr)
    ensures = {
        'flags-round-trip': lambda self, ghost: S.eq(self.flags.fin, ghost.f.flags.fin) & S.eq(self.flags.rsv1, ghost.f.flags.rsv1)
        & S.eq(self.flags.rsv2, ghost.f.flags.rsv2) & S.eq(self.flags.rsv3, ghost.f.flags.rsv3)
        & S.eq(self.flags.opcode.value, ghost.f.flags.opcode.value) & S.eq(self.flags.mask, ghost.f.flags.mask)
        & S.eq(self.flags.length, ghost.f.flags.length),
    }


@contract('http_server.WebSocketFrame.parseHeader', props=['C18', 'C11'], variant='any-bytes')
class _:
    def setup(E):
        return dict(self=make_frame(E, 'self'), hdr=E.bytes('hdr'))
    raises = {
        'struct-error-iff-not-two-bytes': ('struct.error', lambda hdr: S.len(hdr) != 2),
        'value-error-iff-unknown-opcode': ('ValueError', lambda hdr: (S.len(hdr) == 2) & S.Not(S.Or(
            *[S.byte_at(hdr, 0) % 16 == v for v in (8, 9, 10, 1, 2)]))),
    }


def ring(E, data):
    return E.obj(RING, tag='socket', request=None, buf=data)


@contract('http_server.WebSocketFrame.readDataHeader', props=['C18'])
class _:
    """reads back what serializeDataHeader writes, for the length class announced in the header"""
    def setup(E):
        f = make_frame(E, 'f')
        E.ghost('f', f)
        rest = E.bytes('rest')
        E.assume(S.term(f.flags.length) == S.term(len7(f.payload_length)))
        self = make_frame(E, 'self')
        self.flags.attrs['length'] = f.flags.length
        self.flags.attrs['mask'] = f.flags.mask
        n = f.payload_length
        data = S.concat(ext_len_packed(E, n), S.ite(f.flags.mask == 1, f.masking_key, b''), rest)
        E.ghost('rest', rest)
        return dict(self=self, socket=ring(E, data))
    ensures = {
        'payload-length-round-trip': lambda self, ghost: S.eq(self.payload_length, ghost.f.payload_length),
        'masking-key-round-trip': lambda self, ghost: S.implies(ghost.f.flags.mask == 1, S.eq(self.masking_key, ghost.f.masking_key)),
        'consumes-exactly-the-data-header': lambda socket, ghost: S.eq(socket.buf, ghost.rest),
    }


def ext_len_packed(E, n):
    e16 = E.pack('!H', S.ite((n > 125) & (n <= 65535), n, 0))
    e64 = E.pack('!Q', n)
    c16 = ops.and_(ops.compare('Gt', n, 125), ops.compare('LtE', n, 65535))
    c64 = ops.compare('Gt', n, 65535)
    t = z3.If(ops.bterm(c16), ops.term(e16), z3.If(ops.bterm(c64), ops.term(e64), z3.Empty(BytesSort)))
    E.assume(z3.Length(t) == z3.If(ops.bterm(c16), 2, z3.If(ops.bterm(c64), 8, 0)))
    return Sym(t, 'bytes')


@contract('http_server.WebSocketFrame.readData', props=['C18'])
class _:
    def setup(E):
        self = make_frame(E, 'self')
        data = E.bytes('wire')
        E.ghost('wire', data)
        return dict(self=self, socket=ring(E, data))
    requires = {'whole-payload-buffered': lambda self, socket: S.len(socket.buf) >= self.payload_length}
    skolems = {'j': 'int'}
    loops = {0: LoopSpec(
        invariant={
            'length-kept': lambda self, old: S.len(self.payload) == old.self.payload_length,
            'prefix-unmasked': lambda self, ghost, j, _i: S.implies(
                (0 <= j) & (j < S.len(self.payload)),
                S.byte_at(self.payload, j) == S.ite(j < _i, S.xor8(S.byte_at(ghost.wire, j), S.byte_at(self.masking_key, j % 4)),
                                                    S.byte_at(ghost.wire, j))),
        },
        havoc=['self.payload'], label='xor-loop')}
    ensures = {
        'length': lambda self, old: S.len(self.payload) == old.self.payload_length,
        # "with its payload unmasked": byte j is the wire byte XOR key[j mod 4] when masked, the wire byte otherwise
        'payload-unmasked': lambda self, ghost, j: S.implies(
            (0 <= j) & (j < S.len(self.payload)),
            S.byte_at(self.payload, j) == S.ite(self.flags.mask == 1,
                                                S.xor8(S.byte_at(ghost.wire, j), S.byte_at(self.masking_key, j % 4)),
                                                S.byte_at(ghost.wire, j))),
        'consumes-exactly-the-payload': lambda socket, ghost, old: S.eq(socket.buf, S.slice(ghost.wire, old.self.payload_length, None)),
    }
