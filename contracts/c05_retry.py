"""C05 / C07 — guaranteed delivery plumbing: both send_guaranteed APIs (P4), RetrySender (P2, exactly-once user callback)."""
import z3
from pyvc.dsl import contract, lemma, S, LoopSpec
from pyvc import ops
from pyvc.values import *
from contracts.common import *
from contracts.c09_packing import last_msg, retry_is

RS = 'connection.RetrySender'
UC = 'client.UdpClient'


def send_model(ip, self, payload, retry=None, callback=None):
    ip.state.events.append(('conn.send', (self, payload, retry, callback)))
    return None


def guaranteed_clause(events, conn, payload, callback):
    ev = [e for e in events if e[0] == 'conn.send']
    if len(ev) != 1:
        return False
    s, p, r, cb = ev[0][1]
    if not (s is conn and p is payload and cb is callback):
        return False
    if not isinstance(r, Obj) or r.cls is None or r.cls.name != 'RetryMode':
        c = ops.const_int(r)
        return c == -1
    return S.enum_is(r, r.cls.class_attrs['RETRY_ON_TIMEOUT'])


@contract('client.UdpClient.send_guaranteed', props=['C05'])
class _:
    """P4: the client API exists, never raises for a connected client and asks the connection for RETRY_ON_TIMEOUT delivery"""
    def setup(E):
        conn = E.obj(CSC, tag='conn', status=status(E))
        return dict(self=E.obj(UC, tag='self', conn=conn, sock=None), payload=E.bytes('payload'), callback=user_callback(E, 'cb'))
    hooks = {'model:connection.ConnectionBase.send': send_model}
    ensures = {'asks-for-guaranteed-delivery': lambda events, self, payload, callback: guaranteed_clause(events, self.conn, payload, callback)}
    modifies = []


@contract('connection.ServerClientConnection.send_guaranteed', props=['C05'])
class _:
    def setup(E):
        return dict(self=E.obj(SCC, tag='self', status=status(E)), payload=E.bytes('payload'), callback=user_callback(E, 'cb'))
    hooks = {'model:connection.ConnectionBase.send': send_model}
    ensures = {'asks-for-guaranteed-delivery': lambda events, self, payload, callback: guaranteed_clause(events, self, payload, callback)}
    modifies = []


@contract('client.UdpClient.send', props=['C05'])
class _:
    def setup(E):
        conn = E.obj(CSC, tag='conn', status=status(E))
        return dict(self=E.obj(UC, tag='self', conn=conn, sock=None), msg=E.bytes('msg'), retry=E.int('retry', lo=-1, hi=1),
                    callback=user_callback(E, 'cb'))
    hooks = {'model:connection.ConnectionBase.send': send_model}
    ensures = {'forwards-to-the-connection': lambda events, self, msg, retry, callback: (
        len([e for e in events if e[0] == 'conn.send']) == 1 and events[-1][1][0] is self.conn and events[-1][1][1] is msg
        and events[-1][1][3] is callback) and S.eq(events[-1][1][2], retry)}
    modifies = []


# ------------------------------------------------------------------------------------------ RetrySender
def make_retry_sender(E, done):
    conn = make_conn(E)
    cb = user_callback(E, 'user_cb', may_raise=True)
    rs = E.obj(RS, tag='self', conn=conn, seq_message=E.int('rs_seq', cls=SEQ, lo=1, hi=S.M), pkt_type=E.enum(PTYPE, 'rs_type'),
               payload=E.bytes('rs_payload', maxlen=65535), callback=cb, done=done)
    return rs


for _done in (False, True):
    @contract('connection.RetrySender.__call__', props=['C05', 'C07', 'C04'], variant='already-delivered' if _done else 'in-flight')
    class _:
        """a guaranteed message may travel in several datagrams (it stays in the resend table until acked): the user callback
        must fire on the FIRST acknowledgement only (exactly once, with True), and a timeout re-queues the identical message"""
        def setup(E, _done=_done):
            return dict(self=make_retry_sender(E, _done), success=E.bool('success'))
        may_raise = ['Exception']          # the user callback itself may raise (contained by _handle_ack)
        skolems = {'j': 'int'}
        ensures = {
            'user-callback-exactly-on-the-first-success': (lambda old, events, success: S.implies(
                success, len([e for e in events if e[0] == 'user_cb']) == 1 and events[-1][1] == (True,)) & S.implies(
                S.Not(success), len([e for e in events if e[0] == 'user_cb']) == 0)) if not _done else (
                lambda events: len([e for e in events if e[0] == 'user_cb']) == 0),
            'marked-delivered-after-success': (lambda self, success: S.implies(success, self.done is True or S.eq(self.done, True)))
            if not _done else (lambda self: self.done is True),
            # P2: on timeout the identical message (same seq, type, payload) is queued again, guarded by this same sender
            'timeout-requeues-the-identical-message': (lambda old, self, success, E, j: requeue_clause(old, self, success, E, j))
            if not _done else (lambda old, self: S.len(self.conn.outgoing_messages) == S.len(old.self.conn.outgoing_messages)),
        }
        ensures_exc = {
            'only-the-user-callback-raises': lambda events: len([e for e in events if e[0] == 'user_cb']) == 1,
        }
        modifies = ['self.done', 'self.conn.outgoing_messages'] + ['field:PendingMessage.' + f for f in
                    ('seq', 'type', 'payload', 'callback', 'retry', 'assembled_time')]


def requeue_clause(old, self, success, E, j):
    out, out0 = self.conn.outgoing_messages, old.self.conn.outgoing_messages
    m = E.elem(out, out.n - 1)
    from contracts.c09_packing import fn_object
    cbref = m.callback.ref if isinstance(m.callback, SymFn) else z3.IntVal(0)
    is_self = fn_object(E, z3.simplify(cbref)) is self
    requeued = (S.bool(out.n == out0.n + 1) & S.eq(S.ival(m.seq), S.ival(self.seq_message)) & S.enum_is(m.type, self.pkt_type)
                & S.eq(m.payload, self.payload) & retry_is(m.retry, 'RETRY_ON_TIMEOUT') & is_self
                & S.implies((0 <= j) & (j < S.len(out0)), S.bool(z3.Select(out.arr, S.term(j)) == z3.Select(out0.arr, S.term(j)))))
    return S.ite(success, S.bool(out.n == out0.n), requeued)
