"""C09 / C05 / C07 / C03 / C12 — queueing and datagram construction:
ConnectionBase._send_type, _build_packet_impl, _build_packet, _encode_packet.
Queues are symbolic lists of PendingMessage references (fields in field maps); MTU is symbolic in 512..1500 (Limits)."""
import z3
from pyvc.dsl import contract, lemma, S, LoopSpec
from pyvc import ops
from pyvc.values import *
from pyvc import lib
from contracts.common import *
from contracts.c09_codec import set_limits, overhead, SUMLEN, FLAT, unfold_at, PKT, make_header
from contracts.c07_acks import dom, val, same_at

RS = 'connection.RetrySender'


def fn_object(E, ref_term):
    """the concrete callable object registered under a function reference (or None)"""
    for r, v in E.ip.fn_refs.values():
        if r.eq(ref_term) or z3.is_true(z3.simplify(r == ref_term)):
            return v
    return None


def last_msg(E, self):
    out = self.outgoing_messages
    return E.elem(out, out.n - 1)


def retry_is(retry, name):
    return S.enum_is(retry, retry.cls.class_attrs[name])


def callback_clause(E, old, self, pkt_type, payload, retry, callback):
    """RETRY_ON_TIMEOUT: the queued callback is a RetrySender that re-sends exactly this message; otherwise the user's callback"""
    m = last_msg(E, self)
    cbref = m.callback.ref if isinstance(m.callback, SymFn) else z3.IntVal(0)
    plain = S.bool(cbref == (callback.ref if isinstance(callback, SymFn) else 0))
    rs = fn_object(E, z3.simplify(cbref))
    if rs is None or not isinstance(rs, Obj) or rs.cls is None or rs.cls.name != 'RetrySender':
        return S.implies(S.Not(retry_is(retry, 'RETRY_ON_TIMEOUT')), plain) & S.Not(retry_is(retry, 'RETRY_ON_TIMEOUT'))
    a = rs.attrs
    good = (S.same(a['conn'], self) & S.eq(S.ival(a['seq_message']), S.ival(self.seq_message)) & S.enum_is(a['pkt_type'], pkt_type)
            & S.eq(a['payload'], payload) & S.same(a['callback'], callback))
    return retry_is(retry, 'RETRY_ON_TIMEOUT') & good


@contract('connection.ConnectionBase._send_type', props=['C05', 'C09', 'C06'])
class _:
    def setup(E):
        self = make_conn(E)
        cb = SymFn(z3.Int('user_cb'))
        E.assume(cb.ref >= 0)
        E.assume(cb.ref < E.ip.state.ghost['alloc0'] * 0 + 1000000)
        return dict(self=self, pkt_type=E.enum(PTYPE, 'pkt_type'), payload=E.bytes('payload', maxlen=65535),
                    retry=E.enum(RETRY, 'retry'), callback=cb)
    skolems = {'j': 'int'}
    ensures = {
        'message-seq-advances-on-the-ring': lambda old, self: S.ival(self.seq_message) == S.ite(
            S.ival(old.self.seq_message) < S.M, S.ival(old.self.seq_message) + 1, 1),
        'exactly-one-message-queued-at-the-end': lambda old, self, j: (S.len(self.outgoing_messages) == S.len(old.self.outgoing_messages) + 1)
        & S.implies((0 <= j) & (j < S.len(old.self.outgoing_messages)),
                    S.bool(z3.Select(self.outgoing_messages.arr, S.term(j)) == z3.Select(old.self.outgoing_messages.arr, S.term(j)))),
        'queued-message-is-what-was-sent': lambda self, pkt_type, payload, retry, E: S.eq(S.ival(last_msg(E, self).seq), S.ival(self.seq_message))
        & S.enum_is(last_msg(E, self).type, pkt_type) & S.eq(last_msg(E, self).payload, payload) & S.enum_is(last_msg(E, self).retry, retry),
        'callback-or-retry-sender': lambda E, old, self, pkt_type, payload, retry, callback: callback_clause(E, old, self, pkt_type, payload, retry, callback),
        'sent-counted': lambda old, self: S.eq(self.stats.sent, old.self.stats.sent + 1),
        'queued-object-is-new': lambda self, ghost, E: S.bool(z3.Select(self.outgoing_messages.arr, self.outgoing_messages.n - 1) >= ghost.alloc0),
    }
    modifies = ['self.outgoing_messages', 'self.seq_message', 'self.stats.sent'] + ['field:PendingMessage.' + f for f in
                ('seq', 'type', 'payload', 'callback', 'retry', 'assembled_time')]
