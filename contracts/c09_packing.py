"""C09 / C05 / C07 / C03 / C12 — queueing and datagram construction:
ConnectionBase._send_type, _build_packet_impl, _build_packet, _encode_packet.
Queues are symbolic lists of PendingMessage references (fields in field maps); MTU is symbolic in 512..1500 (Limits)."""
import z3
from pyvc.dsl import contract, lemma, S, LoopSpec
from pyvc import ops
from pyvc.values import *
from pyvc import lib
from contracts.common import *
from contracts.c09_codec import set_limits, overhead, SUMLEN, FLAT, unfold_at, PKT, make_header
from contracts.c07_acks import dom, val, same_at

RS = 'connection.RetrySender'


def fn_object(E, ref_term):
    """the concrete callable object registered under a function reference (or None)"""
    for r, v in E.ip.fn_refs.values():
        if r.eq(ref_term) or z3.is_true(z3.simplify(r == ref_term)):
            return v
    return None


def last_msg(E, self):
    out = self.outgoing_messages
    return E.elem(out, out.n - 1)


def retry_is(retry, name):
    return S.enum_is(retry, retry.cls.class_attrs[name])


def callback_clause(E, old, self, pkt_type, payload, retry, callback):
    """RETRY_ON_TIMEOUT: the queued callback is a RetrySender that re-sends exactly this message; otherwise the user's callback"""
    m = last_msg(E, self)
    cbref = m.callback.ref if isinstance(m.callback, SymFn) else z3.IntVal(0)
    plain = S.bool(cbref == (callback.ref if isinstance(callback, SymFn) else 0))
    rs = fn_object(E, z3.simplify(cbref))
    if E.ip.verifying != 'connection.ConnectionBase._send_type':
        # at a call site the RetrySender object is not materialised: only the plain-callback half of the clause is usable
        return S.implies(S.Not(retry_is(retry, 'RETRY_ON_TIMEOUT')), plain)
    if rs is None or not isinstance(rs, Obj) or rs.cls is None or rs.cls.name != 'RetrySender':
        return S.implies(S.Not(retry_is(retry, 'RETRY_ON_TIMEOUT')), plain) & S.Not(retry_is(retry, 'RETRY_ON_TIMEOUT'))
    a = rs.attrs
    good = (S.same(a['conn'], self) & S.eq(S.ival(a['seq_message']), S.ival(self.seq_message)) & S.enum_is(a['pkt_type'], pkt_type)
            & S.eq(a['payload'], payload) & S.same(a['callback'], callback))
    return retry_is(retry, 'RETRY_ON_TIMEOUT') & good


@contract('connection.ConnectionBase._send_type', props=['C05', 'C09', 'C06'])
class _:
    def setup(E):
        self = make_conn(E)
        cb = SymFn(z3.Int('user_cb'))
        E.assume(cb.ref >= 0)
        E.assume(cb.ref < E.ip.state.ghost['alloc0'] * 0 + 1000000)
        return dict(self=self, pkt_type=E.enum(PTYPE, 'pkt_type'), payload=E.bytes('payload', maxlen=65535),
                    retry=E.enum(RETRY, 'retry'), callback=cb)
    skolems = {'j': 'int'}
    ensures = {
        'message-seq-advances-on-the-ring': lambda old, self: S.ival(self.seq_message) == S.ite(
            S.ival(old.self.seq_message) < S.M, S.ival(old.self.seq_message) + 1, 1),
        'exactly-one-message-queued-at-the-end': lambda old, self, j: (S.len(self.outgoing_messages) == S.len(old.self.outgoing_messages) + 1)
        & S.implies((0 <= j) & (j < S.len(old.self.outgoing_messages)),
                    S.bool(z3.Select(self.outgoing_messages.arr, S.term(j)) == z3.Select(old.self.outgoing_messages.arr, S.term(j)))),
        'queued-message-is-what-was-sent': lambda self, pkt_type, payload, retry, E: S.eq(S.ival(last_msg(E, self).seq), S.ival(self.seq_message))
        & S.enum_is(last_msg(E, self).type, pkt_type) & S.eq(last_msg(E, self).payload, payload) & S.enum_is(last_msg(E, self).retry, retry),
        'callback-or-retry-sender': lambda E, old, self, pkt_type, payload, retry, callback: callback_clause(E, old, self, pkt_type, payload, retry, callback),
        'sent-counted': lambda old, self: S.eq(self.stats.sent, old.self.stats.sent + 1),
        'queued-object-is-new': lambda old, self, ghost, E: S.bool(z3.And(z3.Select(self.outgoing_messages.arr, self.outgoing_messages.n - 1) >= old.ghost.alloc,
                                                                        z3.Select(self.outgoing_messages.arr, self.outgoing_messages.n - 1) < ghost.alloc)),
    }
    modifies = ['self.outgoing_messages', 'self.seq_message', 'self.stats.sent'] + ['field:PendingMessage.' + f for f in
                ('seq', 'type', 'payload', 'callback', 'retry', 'assembled_time')]


# ------------------------------------------------------------------------------------------ _build_packet_impl

def ring_next(x):
    return S.ite(S.ival(x) < S.M, S.ival(x) + 1, 1)


def cattr(E, name):
    return E.ip.class_attr(E.cls(PKT), name)[1]


def msgs_kind(ip, v, name):
    """the local list `msgs` (created as []) as a symbolic list of PendingMessage references with its measures"""
    from pyvc.heap import fresh_like
    if isinstance(v, SymSeq):
        return fresh_like(ip, v, name)
    s = SymSeq(z3.K(z3.IntSort(), z3.IntVal(0)), z3.IntVal(0), Kind('obj', ip.repo.cls(PM)))
    s.meas['sumlen'] = z3.IntVal(0)
    s.meas['flat'] = z3.Empty(BytesSort)
    return fresh_like(ip, s, name)


def fn_list_kind(ip, v, name):
    from pyvc.heap import fresh_like
    if isinstance(v, SymSeq):
        return fresh_like(ip, v, name)
    return fresh_like(ip, SymSeq(z3.K(z3.IntSort(), z3.IntVal(0)), z3.IntVal(0), Kind('fn')), name)


def seq_list_kind(ip, v, name):
    from pyvc.heap import fresh_like
    if isinstance(v, SymSeq):
        return fresh_like(ip, v, name)
    return fresh_like(ip, SymSeq(z3.K(z3.IntSort(), z3.IntVal(0)), z3.IntVal(0), Kind('int', ip.repo.cls(SEQ))), name)


def n_of(lst):
    return S.len(lst)


def packed_size_ok(msgs, E):
    """the packet built from msgs, sealed, fits the datagram limit: 20 + overhead(n) + sum + 16 <= MAX_SIZE = MTU - 28"""
    return 20 + overhead(n_of(msgs)) + S.meas(msgs, 'sumlen') + 16 <= cattr(E, 'MAX_SIZE')


PACK_INV = {
    'length-counter-is-the-sum': lambda msgs, current_msg_length: S.eq(current_msg_length, S.meas(msgs, 'sumlen')),
    'selected-messages-fit-one-datagram': lambda msgs, E: packed_size_ok(msgs, E),
    'at-most-255-messages': lambda msgs: n_of(msgs) <= 255,
    'index-in-range': lambda idx: idx >= 0,
}


def pair_key(items, j):
    from pyvc.values import pair_sort
    ts, mk_, (a0, a1) = pair_sort(z3.IntSort(), z3.IntSort())
    return a0(z3.Select(items.arr, j))


def pair_val(items, j):
    from pyvc.values import pair_sort
    ts, mk_, (a0, a1) = pair_sort(z3.IntSort(), z3.IntSort())
    return a1(z3.Select(items.arr, j))


RETRY_INV = dict(PACK_INV)
RETRY_INV.update({
    # entries not yet visited are still in the retry table (so `del` cannot fail) - pointwise at j, used at j = idx
    'unvisited-retry-entries-remain': lambda self, items, idx, j: S.bool(z3.Implies(
        z3.And(S.term(idx, 'int') <= S.term(j), S.term(j) < items.n),
        z3.And(dom(self.pending_retry_msg, pair_key(items, S.term(j))),
               val(self.pending_retry_msg, pair_key(items, S.term(j))) == pair_val(items, S.term(j))))),
    'messages-only-come-from-the-retry-table': lambda msgs, idx, items: (n_of(msgs) <= idx) & S.bool(S.term(idx, 'int') <= items.n),
    'retry-table-size': lambda self, ghost, msgs: S.bool(self.pending_retry_msg.size == ghost.prm0 - S.term(n_of(msgs), 'int')),
})


def retry_init(ip, frame, env):
    items = env['items']
    items.facts.kfacts.add_index(ip, S.term(env['j'], 'int'))
    # the pair list enumerates the table: instantiate the items contract at the Skolem position too
    from pyvc.values import pair_sort
    m = env['self'].pending_retry_msg
    j = S.term(env['j'], 'int')
    ip.ctx.assume(z3.Implies(z3.And(j >= 0, j < items.n), z3.And(
        pair_key(items, j) == z3.Select(items.facts.kfacts.arr, j), pair_val(items, j) == z3.Select(m.val, pair_key(items, j)))))
    ip.state.ghost['prm0'] = m.size


def retry_instances(env):
    return [{'j': env['idx']}]


def packable(ghost, E):
    """a message that travels alone fits a datagram: every payload up to MAX_PAYLOAD_SIZE (the single-datagram limit)"""
    return ghost.head_len <= S.term(cattr(E, 'MAX_PAYLOAD_SIZE'), 'int')


QUEUE_INV = dict(PACK_INV)
QUEUE_INV.update({
    'messages-only-come-from-the-queue': lambda self, ghost, msgs: S.bool(
        S.term(n_of(msgs), 'int') - ghost.m1 == ghost.out1 - self.outgoing_messages.n),
    'before-the-first-iteration': lambda self, ghost, idx: S.bool(z3.And(ghost.iters >= 0, z3.Implies(ghost.iters == 0, z3.And(
        S.term(idx, 'int') == 0, self.outgoing_messages.n == ghost.out1,
        z3.Implies(ghost.out1 > 0, z3.Select(self.outgoing_messages.arr, 0) == ghost.head1))))),
    # P1 (C05): with nothing else selected, the message at the head of the queue is taken if it can travel alone
    'head-of-line-message-is-taken': lambda ghost, msgs, E: S.bool(z3.Implies(
        z3.And(ghost.m1 == 0, ghost.out1 > 0, packable(ghost, E), ghost.iters > 0),
        z3.And(S.term(n_of(msgs), 'int') >= 1, z3.Select(as_msgs(msgs).arr, 0) == ghost.head1))),
})


def as_msgs(msgs):
    if isinstance(msgs, SymSeq):
        return msgs
    return SymSeq(z3.K(z3.IntSort(), z3.IntVal(0)), z3.IntVal(0), None)


def queue_init(ip, frame, env):
    g = ip.state.ghost
    out = env['self'].outgoing_messages
    g['m1'] = S.term(n_of(env['msgs']), 'int')
    g['out1'] = out.n
    g['iters'] = z3.IntVal(0)
    g['head1'] = z3.Select(out.arr, 0)
    head = ip.wrap(g['head1'], out.elem)
    g['head_len'] = ops.blen(S.term(head.payload))


def queue_post(ip, frame, env):
    ip.state.ghost['iters'] = ip.state.ghost['iters'] + 1


@contract('connection.ConnectionBase._build_packet_impl', props=['C09', 'C05', 'C07', 'C03', 'C12', 'C08'])
class _:
    def setup(E):
        set_limits(E)
        self = make_conn(E)
        E.ghost('conn', self)
        return dict(self=self, current_time=E.real('current_time', lo=0), send_keep_alive=E.bool('send_keep_alive'),
                    resend_delay=E.real('resend_delay', lo=0))
    requires = {
        # A-cadence: the sequence number about to be used has no open ticket (65535 sends take >= 1092 s, tickets live <= timeout)
        'next-seq-has-no-open-ticket': lambda self: S.bool(z3.Not(dom(self.pending_acks, S.term(ring_next(self.seq_sending))))),
        # table invariant J (keys of the callback/retry tables are open tickets), instantiated at the next sequence number
        'no-stale-entries-for-the-next-seq': lambda self: S.bool(z3.And(
            z3.Not(dom(self.pending_callbacks, S.term(ring_next(self.seq_sending)))),
            z3.Not(dom(self.pending_retry, S.term(ring_next(self.seq_sending)))))),
    }
    skolems = {'s': 'int', 'c': 'int', 'j': 'int'}
    uses = ['connection.Packet.create']
    loops = {
        0: LoopSpec(invariant=RETRY_INV, havoc=['self.pending_retry_msg'], havoc_kinds={'msgs': msgs_kind}, ghost_init=retry_init,
                    instances=retry_instances, label='retry-loop'),
        1: LoopSpec(invariant=QUEUE_INV, havoc=['self.outgoing_messages', 'ghost.iters'], havoc_kinds={'msgs': msgs_kind},
                    ghost_init=queue_init, ghost_post=queue_post, label='queue-loop'),
        2: LoopSpec(
            invariant={
                'registered-callbacks-are-callable': lambda callbacks, c: S.implies(
                    (0 <= c) & (c < n_of(callbacks)), S.bool(z3.Select(as_seq(callbacks).arr, S.term(c)) != 0)),
                'lists-bounded': lambda callbacks, retries, _i: (n_of(callbacks) <= _i) & (n_of(retries) <= _i),
            },
            havoc=['self.pending_retry_msg', 'field:PendingMessage.assembled_time'],
            havoc_kinds={'callbacks': fn_list_kind, 'retries': seq_list_kind}, label='registration-loop'),
    }
    ensures = {
        'datagram-fits-the-mtu': lambda result, E: S.implies(S.Not(S.is_none(result)),
                                                             lambda_size(result, E)) if result is not None else True,
        'count-fits-the-header': lambda result: (result.hdr.count <= 255) & S.eq(result.hdr.count, n_of(result.msgs)) if result is not None else True,
        'sequence-number-advances-never-zero': lambda old, self, result: (
            S.eq(S.ival(self.seq_sending), ring_next(old.self.seq_sending)) & S.eq(S.ival(result.hdr.seq), S.ival(self.seq_sending)))
        if result is not None else S.eq(S.ival(self.seq_sending), S.ival(old.self.seq_sending)),
        # C08: "the ack number and 32-bit ack bitmap carried by every outgoing datagram" are the receive window's
        'ack-fields-are-the-receive-window': lambda self, result, j: (
            S.eq(S.ival(result.hdr.ack), S.ival(self.bitfield_pkt.current_seqnum)) & S.same_bits(result.hdr.ack_bits, self.bitfield_pkt.bits, j))
        if result is not None else True,
        'header-time-and-direction': lambda self, result, current_time: (
            S.eq(result.hdr.ctime, S.toint(current_time)) & S.eq(result.hdr.isServer, self.isServer)) if result is not None else True,
        'ticket-opened-for-this-datagram': lambda old, self, result, current_time, s: (S.bool(z3.And(
            dom(self.pending_acks, S.term(self.seq_sending, 'int')),
            val(self.pending_acks, S.term(self.seq_sending, 'int')) == S.term(current_time, 'real'),
            z3.Implies(S.term(s) != S.term(self.seq_sending, 'int'), same_at(self.pending_acks, old.self.pending_acks, S.term(s))))))
        if result is not None else S.bool(same_at(self.pending_acks, old.self.pending_acks, S.term(s))),
        'registered-callbacks-are-callable': lambda self, result, c: callable_clause(self, c) if result is not None else True,
        # P0/P1 (C05 "no payload size is silently left unsent"): the head of the queue leaves in this datagram
        # whenever it fits a datagram on its own and no retransmission was selected before it
        'head-of-line-progress': lambda old, result, E: S.implies(
            S.bool(z3.And(old.self.outgoing_messages.n > 0, old.self.pending_retry_msg.size == 0,
                          ops.blen(S.term(E.elem(old.self.outgoing_messages, 0, old).payload)) <= S.term(cattr(E, 'MAX_PAYLOAD_SIZE'), 'int'))),
            (result is not None) and S.bool(z3.And(result.msgs.n >= 1, z3.Select(result.msgs.arr, 0) == z3.Select(old.self.outgoing_messages.arr, 0)))),
        # E1 (C12): a due keep-alive on a connected link always produces a datagram
        'keep-alive-when-due': lambda old, result, send_keep_alive: S.implies(
            send_keep_alive & S.enum_is(old.self.status, old.self.status.cls.class_attrs['CONNECTED']), result is not None),
        'nothing-to-send-means-no-packet': lambda old, result, send_keep_alive: S.implies(
            S.bool(z3.And(old.self.outgoing_messages.n == 0, old.self.pending_retry_msg.size == 0)) & S.Not(
                send_keep_alive & S.enum_is(old.self.status, old.self.status.cls.class_attrs['CONNECTED'])), result is None),
    }
    modifies = ['self.pending_retry_msg', 'self.outgoing_messages', 'self.seq_sending', 'self.pending_acks', 'self.pending_callbacks',
                'self.pending_retry', 'field:PendingMessage.assembled_time']


def as_seq(v):
    if isinstance(v, SymSeq):
        return v
    s = SymSeq(z3.K(z3.IntSort(), z3.IntVal(0)), z3.IntVal(len(v.items)), Kind('fn'))
    return s


def lambda_size(result, E):
    return 20 + S.len(result.msg) + 16 <= cattr(E, 'MAX_SIZE')


def callable_clause(self, c):
    from pyvc.values import list_sort
    ts, mk_, (acc_arr, acc_n) = list_sort(z3.IntSort())
    k = S.term(self.seq_sending, 'int')
    v = val(self.pending_callbacks, k)
    return S.bool(z3.Implies(z3.And(dom(self.pending_callbacks, k), 0 <= S.term(c), S.term(c) < acc_n(v)), z3.Select(acc_arr(v), S.term(c)) != 0))


def bpi_returns(E, args):
    """result of _build_packet_impl for modular use: None or a fresh Packet"""
    if E.ctx.choose(2) == 1:
        return None
    from contracts.c09_codec import fresh_bytes
    h = E.obj('connection.PacketHeader', isServer=Sym(E.ctx.fresh('r_isServer', z3.BoolSort()), 'bool'),
              ctime=Sym(E.ctx.fresh('r_ctime', z3.IntSort()), 'int'), pkt_type=E.enum(PTYPE, 'r_type_%d' % E.ctx.counter),
              seq=Sym(E.ctx.fresh('r_seq', z3.IntSort()), 'int', E.cls(SEQ)), ack=Sym(E.ctx.fresh('r_ack', z3.IntSort()), 'int', E.cls(SEQ)),
              ack_bits=BitSet((lambda f: (lambda j: f(j)))(z3.Function('r_ack_bits_%d' % E.ctx.counter, z3.IntSort(), z3.BoolSort())), None),
              length=Sym(E.ctx.fresh('r_length', z3.IntSort()), 'int'), count=Sym(E.ctx.fresh('r_count', z3.IntSort()), 'int'))
    msgs = SymSeq(E.ctx.fresh('r_msgs', z3.ArraySort(z3.IntSort(), z3.IntSort())), E.ctx.fresh('r_nmsgs', z3.IntSort()), Kind('obj', E.cls(PM)))
    E.ctx.assume(msgs.n >= 0)
    return E.obj(PKT, hdr=h, msg=Sym(fresh_bytes(E, 'r_msg'), 'bytes'), msgs=msgs)


from pyvc import dsl as _dsl
_dsl.REGISTRY['connection.ConnectionBase._build_packet_impl'].returns = bpi_returns

SI = 1  # placeholder


def nonce_ghost(E, self):
    """ghost g_t[s] = build time of the latest datagram that used sequence number s; g_used[s]"""
    g_t = z3.Const('g_t', z3.ArraySort(z3.IntSort(), z3.RealSort()))
    g_used = z3.Const('g_used', z3.ArraySort(z3.IntSort(), z3.BoolSort()))
    E.ghost('g_t', g_t)
    E.ghost('g_used', g_used)


def rdist_t(cur, s):
    return (cur - s) % S.M


def nonce_inv(g_t, g_used, last_send, si, cur, s):
    """N(s): a sequence number used k sends ago was used at least k send intervals before the latest send"""
    return z3.Implies(z3.And(z3.Select(g_used, s), 1 <= s, s <= S.M),
                      z3.Select(g_t, s) <= last_send - si * z3.ToReal(rdist_t(cur, s)))


@contract('connection.ConnectionBase._build_packet', props=['C03', 'C12', 'C09'])
class _:
    """C03: the protocol's send-rate cap (send_interval = 1/60 s, written only by __init__) makes every (second, seq) pair - hence
    every AES-GCM nonce of one direction - unique across any number of wraps of the 16 bit sequence number; C12: E1."""
    def setup(E):
        set_limits(E)
        self = make_conn(E, send_interval=Fraction(1, 60))
        E.ghost('conn', self)
        nonce_ghost(E, self)
        g = E.ip.state.ghost
        s = z3.Int('sk_s')
        # N holds in the pre-state (pointwise at the Skolem s and at the sequence number about to be used)
        for x in (s, S.term(ring_next(self.seq_sending))):
            E.assume(nonce_inv(g['g_t'], g['g_used'], S.term(self.last_send_time, 'real'), z3.RealVal('1/60'), S.term(self.seq_sending, 'int'), x))
        E.assume(z3.Implies(S.term(self.seq_sending, 'int') != 0, z3.Select(g['g_used'], S.term(self.seq_sending, 'int'))))
        return dict(self=self)
    requires = {
        'next-seq-has-no-open-ticket': lambda self: S.bool(z3.Not(dom(self.pending_acks, S.term(ring_next(self.seq_sending))))),
        'no-stale-entries-for-the-next-seq': lambda self: S.bool(z3.And(
            z3.Not(dom(self.pending_callbacks, S.term(ring_next(self.seq_sending)))),
            z3.Not(dom(self.pending_retry, S.term(ring_next(self.seq_sending)))))),
        'last-send-is-a-past-clock-reading': lambda self: self.last_send_time >= -1,
    }
    skolems = {'s': 'int', 'c': 'int', 'j': 'int'}
    uses = ['connection.ConnectionBase._build_packet_impl']

    def finish(ip, env):
        """ghost code: record the build time of the datagram just built"""
        r = env.get('result') if 'result' in env else None
    ensures = {
        # E1 (C12): each side emits a datagram at least once per keep-alive interval plus one send tick
        'keep-alive-emitted-when-due': lambda old, result, ghost: S.implies(
            S.enum_is(old.self.status, old.self.status.cls.class_attrs['CONNECTED'])
            & S.bool(z3.And(ghost.clock_last - S.term(old.self.last_send_time, 'real') >= z3.RealVal('1/60'),
                            ghost.clock_last - S.term(old.self.last_send_keep_alive_time, 'real') > S.term(old.self.send_keep_alive_interval, 'real'))),
            result is not None),
        # send-rate cap (C03): never two datagrams within one send interval; the clocks restart on every datagram
        'rate-cap-and-clocks': lambda old, self, result, ghost: (S.bool(z3.And(
            ghost.clock_last - S.term(old.self.last_send_time, 'real') >= z3.RealVal('1/60'),
            S.term(self.last_send_time, 'real') == ghost.clock_last, S.term(self.last_send_keep_alive_time, 'real') == ghost.clock_last)))
        if result is not None else (S.eq(self.last_send_time, old.self.last_send_time) & S.eq(self.last_send_keep_alive_time, old.self.last_send_keep_alive_time)),
        'header-carries-the-clock-second-and-next-seq': lambda old, result, ghost: (
            S.bool(S.term(result.hdr.ctime, 'int') == z3.ToInt(ghost.clock_last)) & S.eq(S.ival(result.hdr.seq), ring_next(old.self.seq_sending)))
        if result is not None else True,
        # C03 freshness: the (second, seq) pair of the new datagram was never used before, even after the seq wrapped
        'nonce-is-fresh': lambda old, result, ghost: S.bool(z3.Implies(
            z3.Select(old.ghost.g_used, S.term(ring_next(old.self.seq_sending))),
            z3.ToInt(ghost.clock_last) != z3.ToInt(z3.Select(old.ghost.g_t, S.term(ring_next(old.self.seq_sending))))))
        if result is not None else True,
        # N is preserved (with g_t, g_used updated for the new datagram), pointwise at s
        'nonce-invariant-preserved': lambda old, self, result, ghost, s: S.bool(nonce_inv(
            z3.Store(old.ghost.g_t, S.term(self.seq_sending, 'int'), ghost.clock_last) if result is not None else old.ghost.g_t,
            z3.Store(old.ghost.g_used, S.term(self.seq_sending, 'int'), True) if result is not None else old.ghost.g_used,
            S.term(self.last_send_time, 'real'), z3.RealVal('1/60'), S.term(self.seq_sending, 'int'), S.term(s))),
    }
