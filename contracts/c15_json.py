"""C15 — typed JSON round trip: fromJson(toJson(x)) reproduces x field for field, and toJson produces plain data.

The REAL Serializable.toJson is executed while the pre-state is built (on an instance of a class of one of the documented
annotated shapes, contracts/shapes/shapes_json.py, with SYMBOLIC leaf values), then the REAL fromJson is verified on its output.
Leaf values (ints, floats, bools, strings, enum members, nested objects' leaves, dictionary keys) are unbounded; the container
length dimension is bounded (0..3 elements for lists and dicts, 0..2 and 4 for sets, and None; stated in the manifest), like the
C13 container round trips."""
import z3
from pyvc.dsl import contract, lemma, S, LoopSpec
from pyvc import ops
from pyvc.values import *
from pyvc.ctx import PyExc, PathEnd

MOD = 'shapes_json'


def new(E, cname, **fields):
    ip = E.ip
    o = ip.call(ClassVal(ip.repo.cls(MOD + '.' + cname)), [], {})
    for k, v in fields.items():
        ip.setattr(o, k, v, None)
    return o


def color(E, name):
    return E.enum(MOD + '.Color', name)


def leaf(E, tag):
    return new(E, 'Leaf', n=E.int(tag + '_n'), name=E.str(tag + '_name'))


def ints(E, tag, n):
    return PyList([E.int('%s%d' % (tag, i)) for i in range(n)])


def distinct(E, xs):
    for i in range(len(xs)):
        for j in range(i + 1, len(xs)):
            E.assume(ops.term(xs[i]) != ops.term(xs[j]))
    return xs


def mk_dict(pairs):
    d = PyDict()
    for k, v in pairs:
        d.keys.append(k)
        d.vals.append(v)
    return d


def make_instance(E, shape, n):
    """an instance of the class `shape` whose containers hold n elements (n = None: the container fields are None)"""
    if shape == 'Basic':
        return new(E, 'Basic', i=E.int('i'), f=E.real('f'), b=E.bool('b'), s=E.str('s'), c=color(E, 'c'), leaf=leaf(E, 'leaf'))
    if shape == 'Lists':
        if n is None:
            return new(E, 'Lists', li=None, ls=None, lc=None, ll=None)
        return new(E, 'Lists', li=ints(E, 'li', n), ls=PyList([E.str('ls%d' % i) for i in range(n)]),
                   lc=PyList([color(E, 'lc%d' % i) for i in range(n)]), ll=PyList([leaf(E, 'll%d' % i) for i in range(n)]))
    if shape == 'Maps':
        if n is None:
            return new(E, 'Maps', di=None, ds=None, dc=None)
        ki = distinct(E, [E.int('ki%d' % i) for i in range(n)])
        ks = distinct(E, [E.str('ks%d' % i) for i in range(n)])
        members = [E.member(MOD + '.Color', m) for m in ('NONE', 'RED', 'GREEN', 'BLUE')][:n]
        return new(E, 'Maps', di=mk_dict([(ki[i], E.str('vi%d' % i)) for i in range(n)]),
                   ds=mk_dict([(ks[i], E.int('vs%d' % i)) for i in range(n)]),
                   dc=mk_dict([(members[i], leaf(E, 'dc%d' % i)) for i in range(n)]))
    if shape == 'Others':
        if n is None:
            return new(E, 'Others', si=None, t=None)
        return new(E, 'Others', si=PySet(distinct(E, [E.int('si%d' % i) for i in range(n)])),
                   t=(E.int('t0'), E.str('t1'), color(E, 't2')))
    raise ValueError(shape)


def same(a, b):
    """field-for-field / element-for-element equality of two values -> python bool or symbolic bool"""
    if a is None or b is None:
        return a is None and b is None
    if isinstance(a, Obj) and isinstance(b, Obj) and a.cls is not None and b.cls is not None:
        if a.cls is not b.cls:
            return False
        if 'value' in a.attrs and len(a.attrs) == 1:            # enum member
            return S.eq(a.attrs['value'], b.attrs['value'])
        r = True
        # "field for field": the declared fields of the class (private bookkeeping attributes are not part of the value)
        fields = a.cls.class_attrs.get('_fields') if hasattr(a.cls, 'class_attrs') else None
        for f in (sorted(fields) if isinstance(fields, tuple) else sorted(set(a.attrs) | set(b.attrs))):
            if f not in a.attrs or f not in b.attrs:
                return False
            r = ops.and_(r, S.term_bool(same(a.attrs[f], b.attrs[f])) if hasattr(S, 'term_bool') else _sb(same(a.attrs[f], b.attrs[f])))
        return r
    if isinstance(a, (PyList, tuple)) and isinstance(b, (PyList, tuple)) and type(a) is type(b):
        xa = a.items if isinstance(a, PyList) else list(a)
        xb = b.items if isinstance(b, PyList) else list(b)
        if len(xa) != len(xb):
            return False
        r = True
        for x, y in zip(xa, xb):
            r = ops.and_(r, _sb(same(x, y)))
        return r
    if isinstance(a, PySet) and isinstance(b, PySet):
        if len(a.items) != len(b.items):
            return False
        r = True
        for x in a.items:                 # every element of a is some element of b (sizes equal, elements distinct)
            alt = False
            for y in b.items:
                alt = ops.or_(alt, _sb(same(x, y)))
            r = ops.and_(r, alt)
        return r
    if isinstance(a, PyDict) and isinstance(b, PyDict):
        if len(a.keys) != len(b.keys):
            return False
        r = True
        for k, v in zip(a.keys, a.vals):
            alt = False
            for k2, v2 in zip(b.keys, b.vals):
                alt = ops.or_(alt, ops.and_(_sb(same(k, k2)), _sb(same(v, v2))))
            r = ops.and_(r, alt)
        return r
    if isinstance(a, (Obj, PyList, PyDict, PySet, tuple)) or isinstance(b, (Obj, PyList, PyDict, PySet, tuple)):
        return False
    if ops.pytype(a) != ops.pytype(b):
        return False
    return ops.equal(a, b)


def _sb(x):
    return x


def plain(v, key=False):
    """what json.dumps accepts: dict with str / int / float / bool / None keys, list, str, int, float, bool, None"""
    if v is None or isinstance(v, (bool, int, str, Fraction)):
        return True
    if isinstance(v, Sym):
        return v.ty in ('int', 'bool', 'real', 'str')
    if key:
        return False
    if isinstance(v, PyList):
        return all(plain(x) for x in v.items)
    if isinstance(v, PyDict):
        return all(plain(k, key=True) for k in v.keys) and all(plain(x) for x in v.vals)
    return False


def replay_json(label, model):
    """native replay: the shape classes defined natively (same source), field values from the counter-model plus boundary
    values (ints beyond 2**53, empty / non-ascii / digit strings, every enum member, containers of 0..3 elements and None);
    both fromJson(toJson(x)) and loads(dumps(x)) are compared field for field"""
    import os
    src = open(os.path.join(os.path.dirname(os.path.abspath(__file__)), 'shapes', 'shapes_json.py')).read()
    ints = sorted({v for k, v in (model or {}).items() if isinstance(v, int) and not isinstance(v, bool)}
                  | {0, 1, -1, 2 ** 53 + 1, -(2 ** 53) - 1, 2 ** 63 - 1})
    return src + '''
import sys, json
INTS = %r
STRS = ["", "x", "7", "\\u00e9\\u4e16"]
COLORS = [Color.NONE, Color.RED, Color.GREEN, Color.BLUE]
def eq(x, y):
    if isinstance(x, SerializableEnum) or isinstance(y, SerializableEnum):
        return type(x) is type(y) and x.value == y.value
    if isinstance(x, Serializable) or isinstance(y, Serializable):
        return type(x) is type(y) and all(eq(getattr(x, f), getattr(y, f)) for f in x._fields)
    if isinstance(x, (list, tuple)) and isinstance(y, (list, tuple)):
        return type(x) is type(y) and len(x) == len(y) and all(eq(a, b) for a, b in zip(x, y))
    if isinstance(x, dict) and isinstance(y, dict):
        return len(x) == len(y) and all(any(eq(k, k2) and eq(v, v2) for k2, v2 in y.items()) for k, v in x.items())
    if isinstance(x, set) and isinstance(y, set):
        return len(x) == len(y) and all(any(eq(a, b) for b in y) for a in x)
    return type(x) is type(y) and x == y
def leaf(i): return Leaf(n=INTS[i %% len(INTS)], name=STRS[i %% len(STRS)])
values = []
for i, n in enumerate(INTS):
    values.append(Basic(i=n, f=0.5 * i, b=bool(i %% 2), s=STRS[i %% len(STRS)], c=COLORS[i %% 4], leaf=leaf(i)))
values += [Lists(li=None, ls=None, lc=None, ll=None), Maps(di=None, ds=None, dc=None), Others(si=None, t=None)]
for k in range(0, 4):
    values.append(Lists(li=INTS[:k], ls=STRS[:k], lc=COLORS[:k], ll=[leaf(j) for j in range(k)]))
    values.append(Others(si=set(INTS[:k]), t=(INTS[k], STRS[k], COLORS[k])))
    for off in range(len(INTS)):
        ks = (INTS[off:] + INTS[:off])[:k]
        values.append(Maps(di={a: STRS[j %% 4] for j, a in enumerate(ks)}, ds={STRS[j]: ks[j] for j in range(k)},
                           dc={COLORS[j]: leaf(j) for j in range(k)}))
bad = []
for x in values:
    for how, f in (("fromJson(toJson(x))", lambda x: type(x).fromJson(x.toJson())), ("loads(dumps(x))", lambda x: type(x).loads(x.dumps()))):
        try:
            y = f(x)
            if not eq(x, y): bad.append("%%s: %%r came back as %%r" %% (how, x, y))
        except Exception as e:
            bad.append("%%s: %%r raised %%r" %% (how, x, e))
x = Lists(li=[1], ls=["a"], lc=[Color.RED], ll=[leaf(0)])
x.toJson(); x.ls = ["p", "q"]; x.toJson(); x.li.append(5); x.ll[0].n = 9
try:
    y = Lists.fromJson(x.toJson())
    if not eq(x, y): bad.append("encoded, changed in place, encoded again: %%r came back as %%r" %% (x, y))
except Exception as e:
    bad.append("encoded, changed in place, encoded again: %%r raised %%r" %% (x, e))
for b in bad[:6]: print(b[:300])
print("%%d of %%d round trips do not reproduce the object" %% (len(bad), 2 * len(values)))
sys.exit(1 if bad else 0)
''' % (ints,)


for _shape, _ns in (('Basic', (0,)), ('Lists', (None, 0, 1, 2, 3)), ('Maps', (None, 0, 1, 2, 3)), ('Others', (None, 0, 1, 2, 4))):
    for _n in _ns:
        @contract('serializable.Serializable.fromJson', props=['C15'], variant='roundtrip-%s-%s' % (_shape, 'none' if _n is None else _n))
        class _:
            def setup(E, _shape=_shape, _n=_n):
                ip = E.ip
                x = make_instance(E, _shape, _n)
                try:
                    j = ip.call(ip.getattr(x, 'toJson'), [], {})
                except PyExc:
                    raise PathEnd()
                E.ghost('x', x)
                E.ghost('json', j)
                return dict(cls=ClassVal(ip.repo.cls(MOD + '.' + _shape)), record=j)
            replay = replay_json
            ensures = {
                'reproduces-the-object-field-for-field': lambda result, ghost: same(ghost.x, result),
                'toJson-produced-plain-data': lambda ghost: plain(ghost.json),
            }


# ------------------------------------------------------------------------------------------ through the JSON text: loads(dumps(x))
def through_json_text(ip, v):
    """what json.loads(json.dumps(v)) returns for plain data (ASSUMED model of the json module, the part that matters here):
    dictionary keys that are ints come back as their decimal TEXT (JSON object keys are strings); everything else comes back
    equal (floats: finite values; sets/tuples never reach json.dumps - toJson turned them into lists)"""
    ip.ctx.lib_used.add('json.loads(json.dumps(v)) for plain data: int dictionary keys become their decimal text, all else unchanged (model in c15_json)')
    from pyvc import lib
    if isinstance(v, PyList):
        return PyList([through_json_text(ip, x) for x in v.items])
    if isinstance(v, PyDict):
        d = PyDict()
        for k, x in zip(v.keys, v.vals):
            if ops.pytype(k) == 'int':
                k = lib.b_str(ip, k)
            d.keys.append(k)
            d.vals.append(through_json_text(ip, x))
        return d
    return v


for _shape, _ns in (('Basic', (0,)), ('Lists', (None, 2)), ('Maps', (None, 1, 2)), ('Others', (None, 2))):
    for _n in _ns:
        @contract('serializable.Serializable.fromJson', props=['C15'], variant='through-json-text-%s-%s' % (_shape, 'none' if _n is None else _n))
        class _:
            """loads(dumps(x)): the record handed to fromJson went through the JSON text (int keys arrive as strings)"""
            def setup(E, _shape=_shape, _n=_n):
                ip = E.ip
                x = make_instance(E, _shape, _n)
                try:
                    j = ip.call(ip.getattr(x, 'toJson'), [], {})
                except PyExc:
                    raise PathEnd()
                E.ghost('x', x)
                return dict(cls=ClassVal(ip.repo.cls(MOD + '.' + _shape)), record=through_json_text(ip, j))
            replay = replay_json
            ensures = {'reproduces-the-object-field-for-field': lambda result, ghost: same(ghost.x, result)}


# ------------------------------------------------------------------------------------------ an object that was encoded before
@contract('serializable.Serializable.fromJson', props=['C15'], variant='roundtrip-after-an-earlier-toJson-and-mutation')
class _:
    """toJson describes the CURRENT field values: an object that was already encoded once, then changed in place (an element
    appended to a list field, a field of a nested object assigned, a whole field re-assigned), round-trips like a fresh one"""
    def setup(E):
        ip = E.ip
        x = make_instance(E, 'Lists', 1)
        try:
            ip.call(ip.getattr(x, 'toJson'), [], {})
            ip.setattr(x, 'ls', PyList([E.str('re0'), E.str('re1')]), None)
            ip.call(ip.getattr(x, 'toJson'), [], {})
            ip.getattr(x, 'li').items.append(E.int('appended'))
            ip.setattr(ip.getattr(x, 'll').items[0], 'n', E.int('assigned'), None)
            j = ip.call(ip.getattr(x, 'toJson'), [], {})
        except PyExc:
            raise PathEnd()
        E.ghost('x', x)
        return dict(cls=ClassVal(ip.repo.cls(MOD + '.Lists')), record=j)
    replay = replay_json
    ensures = {'reproduces-the-object-field-for-field': lambda result, ghost: same(ghost.x, result)}
