"""User classes for the binary round trip of Serializable objects and SerializableEnum members (C13): loaded by the verifier
as an extra module next to the repository's own modules and interpreted from this source; the functions under contract are
the repository's serialize_value / deserialize_value, Serializable.serialize_header / serialize / deserialize and
SerializableEnum.serialize_header / serialize / deserialize (none of them overridden here)."""
from typing import List
from mpgameserver.serializable import Serializable, SerializableEnum, Default


class Suit(SerializableEnum):
    LOW = -3
    CLUBS = 0
    HEARTS = 1
    SPADES = 7


class F0(Serializable):
    pass


class F1(Serializable):
    a: int = 0


class F2(Serializable):
    a: int = 0
    b: str = ""


class F4(Serializable):
    a: int = 0
    b: str = ""
    c: Suit = Suit.HEARTS
    d: F2 = None


class FN(Serializable):
    """fields whose constructed default is not None (an empty list, 5) holding None"""
    e: List[int] = None
    n: int = 5


class FD(Serializable):
    """a field declared with the documented Default sentinel (the constructor replaces it by int())"""
    a: int = Default
    b: str = "dflt"
