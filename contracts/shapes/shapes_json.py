"""Classes of every annotated shape the documentation of Serializable lists (C15): loaded by the verifier as an extra module
next to the repository's own modules and interpreted from this source; the functions under contract are the repository's
Serializable.toJson / fromJson / _toJsonBasic / _fromJsonBasic, SerializableEnum.toJson / fromJson."""
from typing import List, Dict, Set, Tuple
from mpgameserver.serializable import Serializable, SerializableEnum


class Color(SerializableEnum):
    NONE = 0
    RED = 1
    GREEN = 2
    BLUE = 3


class Leaf(Serializable):
    n: int = 0
    name: str = ""


class Basic(Serializable):
    i: int = 0
    f: float = 0.0
    b: bool = False
    s: str = ""
    c: Color = Color.RED
    leaf: Leaf = None


class Lists(Serializable):
    li: List[int] = None
    ls: List[str] = None
    lc: List[Color] = None
    ll: List[Leaf] = None


class Maps(Serializable):
    di: Dict[int, str] = None
    ds: Dict[str, int] = None
    dc: Dict[Color, Leaf] = None


class Others(Serializable):
    si: Set[int] = None
    t: Tuple[int, str, Color] = None
