"""C01 / C04 / C11 / C12 — the receive path: Packet.from_bytes, ConnectionBase._recv_datagram, _recv_message, _recvApp,
_recvDisconnect, _recvKeepAlive.  AES-GCM is the ideal AEAD of pyvc/libspec.py (dec_ok / dec / enc uninterpreted)."""
import z3
from pyvc.dsl import contract, lemma, S, LoopSpec
from pyvc import ops
from pyvc.values import *
from pyvc import libspec
from contracts.common import *
from contracts.c09_codec import make_header, PKT, fresh_bytes
from contracts.c09_packing import msgs_kind
from contracts.c08_bitfield import recv
from contracts.c07_acks import dom, val, same_at, sweep_ghosts, SWEEP_HAVOC

HELLO = ('CLIENT_HELLO', 'SERVER_HELLO')


def type_in(t, names):
    return S.Or(*[S.enum_is(t, t.cls.class_attrs[n]) for n in names])


def sealed(key, datagram, length, msg):
    """the payload was produced by AES-GCM under `key` with nonce = header[:12] and the whole 20-byte header authenticated"""
    d = S.term(datagram)
    hdr20 = ops.seq_slice_term(d, 0, 20)
    iv = ops.seq_slice_term(d, 0, 12)
    ct = ops.seq_slice_term(d, 20, S.term(20 + length + 16, 'int'))
    k = S.term(key)
    return S.bool(z3.And(libspec.DEC_OK(k, iv, hdr20, ct), S.term(msg) == libspec.DEC(k, iv, hdr20, ct)))


def sealed_by_events(events, key, datagram, length, msg):
    """the decoded payload is what ONE successful AES-GCM verification returned, made with this key, nonce = datagram[:12],
    associated data = datagram[:20] (the whole header) and ciphertext+tag = datagram[20:20+length+16]"""
    ev = [e for e in events if e[0] == 'decrypt_gcm_ok']
    if len(ev) != 1:
        return False
    k, iv, aad, data = ev[0][1]
    pt = libspec.DEC(S.term(k), S.term(iv), S.term(aad), S.term(data))
    return (S.eq(k, key) & S.is_slice(iv, datagram, 0, 12) & S.is_slice(aad, datagram, 0, 20)
            & S.is_slice(data, datagram, 20, 20 + length + 16) & S.bool(S.term(msg) == pt))


FB_LOOP_HAVOC = ['field:PendingMessage.' + f for f in ('seq', 'type', 'payload', 'callback', 'retry', 'assembled_time')] + ['ghost.alloc']


def fb_returns(E, args):
    msgs = SymSeq(E.ctx.fresh('rx_msgs', z3.ArraySort(z3.IntSort(), z3.IntSort())), E.ctx.fresh('rx_nmsgs', z3.IntSort()), Kind('obj', E.cls(PM)))
    E.ctx.assume(msgs.n >= 0)
    return E.obj(PKT, hdr=args['hdr'], msg=Sym(fresh_bytes(E, 'rx_msg'), 'bytes'), msgs=msgs)


for _k in ('key', 'no-key'):
    @contract('connection.Packet.from_bytes', props=['C01', 'C11', 'C09', 'C02'], variant=None if _k == 'key' else 'no-key')
    class _:
        """for ARBITRARY datagram bytes and every header (all packet types, all counts)"""
        def setup(E, _k=_k):
            declare_pending_message(E)
            E.alloc()
            return dict(hdr=make_header(E, 'hdr'), key=E.bytes('key', length=16) if _k == 'key' else None, datagram=E.bytes('datagram'))
        loops = {0: LoopSpec(invariant={'count-bound': lambda msgs, _i: S.len(msgs) == _i,
                                        'allocation-monotone': lambda ghost: S.bool(ghost.alloc >= ghost.alloc0)},
                             havoc=FB_LOOP_HAVOC, havoc_kinds={'msgs': msgs_kind}, label='split-loop')}
        # hostile bytes: nothing but these ordinary exceptions can escape (all are caught by _recv_datagram)
        may_raise = ['PacketError', 'struct.error', 'ValueError', 'InvalidTag']
        ensures = {
            # C01, first sentence: with a key, EVERY datagram that decodes was sealed under that key - whatever its type or count
            'decodes-only-if-sealed-under-the-session-key': (lambda events, hdr, key, datagram, result: sealed_by_events(events, key, datagram, hdr.length, result.msg))
            if _k == 'key' else (lambda: True),
            # C01, second sentence: before a key exists nothing but the single handshake hello is taken from clear datagrams
            'without-a-key-only-a-single-hello': (lambda: True) if _k == 'key' else (
                lambda hdr: type_in(hdr.pkt_type, HELLO) & S.eq(hdr.count, 1)),
            'message-count-as-announced': lambda hdr, result: S.len(result.msgs) == hdr.count,
            'same-header': lambda hdr, result: S.same(result.hdr, hdr),
        }
        modifies = ['field:PendingMessage.' + f for f in ('seq', 'type', 'payload', 'callback', 'retry', 'assembled_time')]
        returns = fb_returns


# ------------------------------------------------------------------------------------------ _recvApp and the small handlers
def last_box(E, seq):
    """the value boxed at the end of a box-list"""
    ref = z3.simplify(z3.Select(seq.arr, seq.n - 1))
    for r, v in E.ip.state.boxes:
        if r.eq(ref) or z3.is_true(z3.simplify(r == ref)):
            return v
    return None


@contract('connection.ConnectionBase._recvApp', props=['C06', 'C04', 'C01'])
class _:
    def setup(E):
        return dict(self=make_conn(E), msgseq=E.int('msgseq', cls=SEQ, lo=1, hi=S.M), msg=E.bytes('msg'))
    skolems = {'j': 'int'}
    ensures = {
        # "byte-identical": exactly this (seq, payload) pair is appended to the application's queue, nothing else changes
        'delivers-exactly-this-message': lambda old, self, msgseq, msg, E, j: (S.len(self.incoming_messages) == S.len(old.self.incoming_messages) + 1)
        & S.implies((0 <= j) & (j < S.len(old.self.incoming_messages)),
                    S.bool(z3.Select(self.incoming_messages.arr, S.term(j)) == z3.Select(old.self.incoming_messages.arr, S.term(j))))
        & delivered_is(E, self, msgseq, msg),
    }
    modifies = ['self.incoming_messages']


def delivered_is(E, self, msgseq, msg):
    v = last_box(E, self.incoming_messages)
    if not isinstance(v, tuple) or len(v) != 2:
        return False
    return S.eq(S.ival(v[0]), S.ival(msgseq)) & S.eq(v[1], msg)


@contract('connection.ConnectionBase._recvDisconnect', props=['C10', 'C01'])
class _:
    def setup(E):
        return dict(self=make_conn(E), msg=E.bytes('msg'))
    ensures = {'status-disconnecting': lambda self: S.enum_is(self.status, self.status.cls.class_attrs['DISCONNECTING'])}
    modifies = ['self.status']


@contract('connection.ConnectionBase._recvKeepAlive', props=['C12', 'C01'])
class _:
    def setup(E):
        return dict(self=make_conn(E), msg=E.bytes('msg'))
    modifies = []


# ------------------------------------------------------------------------------------------ _recv_message
HANDLERS = {'CLIENT_HELLO': '_recvClientHello', 'SERVER_HELLO': '_recvServerHello', 'CHALLENGE_RESP': '_recvChallengeResponse',
            'KEEP_ALIVE': '_recvKeepAlive', 'DISCONNECT': '_recvDisconnect', 'APP_FRAGMENT': '_recvAppFragment', 'APP': '_recvApp'}


def handler_model(name):
    def model(ip, self, *args):
        ip.state.events.append(('handler', name, tuple(args)))
        return None
    return model


RM_HOOKS = {'model:connection.ConnectionBase.' + h: handler_model(h) for h in HANDLERS.values()}


@contract('connection.ConnectionBase._recv_message', props=['C04', 'C01', 'C06', 'C05'])
class _:
    """the handlers are abstracted to recorded events here (each has its own contract): what is decided is WHICH handler runs,
    with which arguments, and that a message already received inside the 256-message window reaches no handler at all"""
    def setup(E):
        return dict(self=make_conn(E), pkt_typ=E.enum(PTYPE, 'pkt_typ'), msgseq=E.int('msgseq', cls=SEQ, lo=1, hi=S.M), msg=E.bytes('msg'))
    hooks = RM_HOOKS
    uses = ['connection.BitField.insert']
    skolems = {'x': 'int', 'j': 'int'}
    ensures = {
        # O3a (C04): a message seq already received inside the window is dropped without reaching any handler
        # (a duplicate FRAGMENT may still be shown to _recvAppFragment: that handler is idempotent by its own contract - first
        # write wins in the slot, fragments of completed messages are ignored - so the application sees nothing twice; the first
        # version of this clause demanded "no handler at all" and flagged a harmless change: corrected, DESIGN.md 0.5)
        'duplicate-in-window-reaches-no-handler': lambda old, events, msgseq: S.implies(
            recv(old.self.bitfield_msg.current_seqnum, old.self.bitfield_msg.bits, 256, S.ival(msgseq)),
            len([e for e in events if e[0] == 'handler' and e[1] != '_recvAppFragment']) == 0),
        # O3b (C04): a message seq that has fallen out of the 256-message window cannot be told from a new one by this
        # protocol: it is delivered again.  Genuine, recorded as a known finding (repairing it at message level would lose
        # retransmissions whose first copy was lost: DESIGN.md section 4, F4)
        'message-older-than-the-window-reaches-no-handler': lambda old, events, msgseq: S.implies(
            stale_msg(old, msgseq), len([e for e in events if e[0] == 'handler']) == 0),
        'exactly-the-handler-of-the-message-type': lambda old, events, pkt_typ, msgseq, msg: S.implies(
            S.Not(recv(old.self.bitfield_msg.current_seqnum, old.self.bitfield_msg.bits, 256, S.ival(msgseq))),
            dispatch_clause(events, pkt_typ, msgseq, msg)),
    }
    modifies = ['self.bitfield_msg.bits', 'self.bitfield_msg.current_seqnum']


def stale_msg(old, msgseq):
    cur = old.self.bitfield_msg.current_seqnum
    d = S.rdist(cur, S.ival(msgseq))
    return (S.ival(cur) != 0) & (d > 256) & (d <= S.T)


def dispatch_clause(events, pkt_typ, msgseq, msg):
    ev = [e for e in events if e[0] == 'handler']
    goal = True
    for tname, h in HANDLERS.items():
        is_t = S.enum_is(pkt_typ, pkt_typ.cls.class_attrs[tname])
        if len(ev) == 1 and ev[0][1] == h:
            a = ev[0][2]
            if h in ('_recvApp', '_recvAppFragment'):
                ok = len(a) == 2 and a[0] is msgseq and a[1] is msg
            else:
                ok = len(a) == 1 and a[0] is msg
            goal = ops.and_(goal, ops.implies(is_t, ok))
        else:
            goal = ops.and_(goal, ops.implies(is_t, False))
    if len(ev) == 0:
        return S.enum_is(pkt_typ, pkt_typ.cls.class_attrs['UNKNOWN'])
    return goal


# ------------------------------------------------------------------------------------------ _recv_datagram
MSG_FRAME = ['self.bitfield_msg.bits', 'self.bitfield_msg.current_seqnum', 'self.incoming_messages', 'self.status',
             'self.received_fragments', 'self.outgoing_messages', 'self.seq_message', 'self.stats.sent',
             'self.bitfield_frag.bits', 'self.bitfield_frag.current_seqnum']


@contract('connection.ConnectionBase._recv_message', props=[], variant='effects')
class _:
    """frame of _recv_message for modular use: the union of the frames of the message handlers of the base class
    (the subclasses' hello handlers additionally write the key/token fields: see c02_handshake).  Assumed here, each handler
    has its own verified contract."""
    trusted = True
    def setup(E):
        return dict(self=None)
    modifies = MSG_FRAME
    havoc_kinds = {'self.status': lambda ip, v, name: Obj(v.cls, {'value': Sym(ip.ctx.fresh('status_after', z3.IntSort()), 'int')})}


def bits_same(a, b, j):
    return S.same_bits(a, b, j)


def untouched_by_a_dropped_datagram(old, self, j, k):
    """everything the statement lists: no message delivered, no send acknowledged or timed out, key / status / liveness clock
    unchanged, receive windows not moved"""
    o = old.self
    kt = S.term(k)
    return (S.eq(S.ival(self.bitfield_pkt.current_seqnum), S.ival(o.bitfield_pkt.current_seqnum)) & bits_same(self.bitfield_pkt.bits, o.bitfield_pkt.bits, j)
            & S.eq(S.ival(self.bitfield_msg.current_seqnum), S.ival(o.bitfield_msg.current_seqnum)) & bits_same(self.bitfield_msg.bits, o.bitfield_msg.bits, j)
            & S.same(self.incoming_messages, o.incoming_messages) if False else
            (S.eq(S.ival(self.bitfield_pkt.current_seqnum), S.ival(o.bitfield_pkt.current_seqnum)) & bits_same(self.bitfield_pkt.bits, o.bitfield_pkt.bits, j)
             & S.eq(S.ival(self.bitfield_msg.current_seqnum), S.ival(o.bitfield_msg.current_seqnum)) & bits_same(self.bitfield_msg.bits, o.bitfield_msg.bits, j)
             & S.bool(z3.And(self.incoming_messages.n == o.incoming_messages.n,
                             z3.Implies(z3.And(0 <= S.term(j), S.term(j) < o.incoming_messages.n),
                                        z3.Select(self.incoming_messages.arr, S.term(j)) == z3.Select(o.incoming_messages.arr, S.term(j))),
                             same_at(self.pending_acks, o.pending_acks, kt), same_at(self.pending_callbacks, o.pending_callbacks, kt),
                             same_at(self.pending_retry, o.pending_retry, kt), same_at(self.pending_retry_msg, o.pending_retry_msg, kt)))
             & S.eq(self.last_recv_time, o.last_recv_time) & S.enum_is(self.status, o.status)
             & S.eq(self.stats.received, o.stats.received) & S.eq(self.stats.acked, o.stats.acked) & S.eq(self.stats.timeouts, o.stats.timeouts)
             & (self.session_key_bytes is o.session_key_bytes or S.eq(self.session_key_bytes, o.session_key_bytes))))


def not_stale(old, hdr):
    """the datagram is new to the 32-wide receive window: newer than everything seen, or inside the window and not yet received.
    (A datagram older than the window can be a replay and can never be acknowledged: it must not be accepted.)"""
    cur = old.self.bitfield_pkt.current_seqnum
    s = S.ival(hdr.seq)
    d = S.rdist(cur, s)                # how far behind the newest
    ahead = S.rdist(s, cur)            # how far ahead of the newest
    return (S.ival(cur) == 0) | ((1 <= ahead) & (ahead <= S.T)) | ((1 <= d) & (d <= 32))


for _k in ('key', 'no-key'):
    @contract('connection.ConnectionBase._recv_datagram', props=['C01', 'C04', 'C12', 'C11'], variant=None if _k == 'key' else 'no-key')
    class _:
        def setup(E, _k=_k):
            self = make_conn(E, key='some' if _k == 'key' else 'none')
            E.ghost('conn', self)
            sweep_ghosts(E)
            E.ghost('clock_last', z3.Real('clock_last0'))
            hdr = make_header(E, 'hdr')
            hdr.attrs['seq'] = E.int('hdr_seq1', cls=SEQ, lo=1, hi=S.M)
            raw = E.pred('hdr_ack_bits_fn', z3.IntSort(), z3.BoolSort())
            hdr.attrs['ack_bits'] = E.bitset('hdr_ack_bits_bs', fn=lambda j: z3.And(j >= 0, j < 32, raw(j)))
            E.ghost('ack_hdr', (hdr.attrs['ack'], hdr.attrs['ack_bits']))
            return dict(self=self, hdr=hdr, datagram=E.bytes('datagram'))
        uses = ['connection.Packet.from_bytes' + ('' if _k == 'key' else '@no-key'), 'connection.BitField.insert',
                'connection.ConnectionBase._handle_ack_bits', 'connection.ConnectionBase._recv_message@effects']
        hooks = {'symfn': callback_effects}
        skolems = {'j': 'int', 'k': 'int', 'x': 'int', 's': 'int', 'js': 'int', 'q': 'int', 'r': 'int'}
        loops = {0: LoopSpec(invariant={'clock-kept': lambda self, ghost: S.bool(S.term(self.last_recv_time, 'real') == ghost.t_recv)},
                             havoc=MSG_FRAME, havoc_kinds={'self.status': lambda ip, v, name: Obj(v.cls, {'value': Sym(ip.ctx.fresh('status_l', z3.IntSort()), 'int')})},
                             ghost_init=lambda ip, frame, env: ip.state.ghost.__setitem__('t_recv', S.term(env['self'].last_recv_time, 'real')),
                             label='message-loop')}
        ensures = {
            # C01 / C04-O1: a datagram that does not authenticate, or that is a duplicate, is counted as dropped and has no other effect
            'dropped-datagram-has-no-other-effect': lambda old, self, result, j, k: S.implies(
                S.Not(result), S.eq(self.stats.dropped, old.self.stats.dropped + 1) & untouched_by_a_dropped_datagram(old, self, j, k)),
            # C04-O2: accepted only if new to the window (not received before, not older than the window)
            'accepted-only-if-new-to-the-window': lambda old, hdr, result: S.implies(
                result, S.Not(recv(old.self.bitfield_pkt.current_seqnum, old.self.bitfield_pkt.bits, 32, S.ival(hdr.seq))) & not_stale(old, hdr)),
            # E2 (C12): an accepted datagram restarts the liveness clock
            'accepted-datagram-restarts-the-liveness-clock': lambda self, result, ghost: S.implies(
                result, S.bool(S.term(self.last_recv_time, 'real') == ghost.clock_last)),
            'accepted-datagram-is-counted': lambda old, self, result: S.implies(result, S.eq(self.stats.received, old.self.stats.received + 1)
                                                                              & S.eq(self.stats.dropped, old.self.stats.dropped)),
        }
        # hostile bytes (C11): nothing escapes from decoding; exceptions can only come from message handlers (authenticated content)
        may_raise = ['Exception']


# ------------------------------------------------------------------------------------------ round trip (C09): decode(encode(packet))
for _form in ('sealed', 'crc'):
    @contract('connection.Packet.from_bytes', props=['C09'], variant='roundtrip-' + _form)
    class _:
        """decoding what Packet.to_bytes produced (its verified layout: c09_codec) for a packet of 0 or 1 messages, every payload
        length, sealed or CRC form, followed by arbitrary trailing bytes: no exception, the same payload bytes, the same message.
        (Packets of 2..255 messages: the split loop is verified for safety only - stated in the manifest.)"""
        def setup(E, _form=_form):
            declare_pending_message(E)
            E.alloc()
            h = make_header(E, 'hdr')
            msg = E.bytes('msg', maxlen=65535)
            h.attrs['length'] = S.len(msg)           # the length field describes the payload (Packet.create's contract)
            # what the sender can produce, for every MTU setMTU may be given (the doc invites decreasing it): the payload of a
            # datagram is at most MAX_PAYLOAD_SIZE + MESSAGE_OVERHEAD_1 (packer contract: selected-messages-fit-one-datagram)
            from contracts.c09_codec import set_limits
            mtu = set_limits(E, E.int('MTU', lo=96, hi=1500))
            E.assume(ops.blen(msg.t) <= S.term(mtu, 'int') - 28 - 20 - 16)
            E.assume(z3.Or(S.term(h.count, 'int') == 0, z3.And(S.term(h.count, 'int') == 1, ops.blen(msg.t) >= 2)))
            h20 = E.bytes('h20', length=20)
            tail = E.bytes('tail')
            if _form == 'sealed':
                key = E.bytes('key', length=16)
                iv = ops.seq_slice_term(h20.t, 0, 12)
                ct = libspec.ENC(key.t, iv, h20.t, msg.t)
                ops.set_len_term(ct, ops.blen(msg.t) + 16)
                E.assume(z3.And(libspec.DEC_OK(key.t, iv, h20.t, ct), libspec.DEC(key.t, iv, h20.t, ct) == msg.t))
                dg = ops.mk_concat([h20.t, ct, tail.t])
            else:
                key = None
                E.assume(z3.Or(*[S.term(h.pkt_type.value, 'int') == v for v in (1, 2)]))
                E.assume(S.term(h.count, 'int') == 1)
                body = ops.mk_concat([h20.t, msg.t])
                crc = libspec.CRC(body)
                E.assume(z3.And(crc >= 0, crc <= 2 ** 32 - 1))
                dg = ops.mk_concat([body, S.term(E.pack('>L', Sym(crc, 'int'))), tail.t])
            E.ghost('msg', msg)
            return dict(hdr=h, key=key, datagram=Sym(dg, 'bytes'))
        loops = {0: LoopSpec(invariant={}, havoc=FB_LOOP_HAVOC, havoc_kinds={'msgs': msgs_kind}, label='split-loop')}
        ensures = {
            'same-payload-bytes': lambda result, ghost: S.eq(result.msg, ghost.msg),
            'same-single-message': lambda hdr, result, ghost, E: single_message_clause(hdr, result, ghost, E),
        }


def single_message_clause(hdr, result, ghost, E):
    msgs = result.msgs
    n = len(msgs.items) if isinstance(msgs, PyList) else None
    if n == 0:
        return S.eq(hdr.count, 0)
    if n == 1:
        m = E.elem(msgs, 0)
        return (S.eq(hdr.count, 1) & S.eq(S.ival(m.seq), S.upk('H', S.slice(ghost.msg, 0, 2)))
                & S.eq(m.payload, S.slice(ghost.msg, 2, S.len(ghost.msg))) & S.eq(m.type.value, hdr.pkt_type.value))
    return False


# ------------------------------------------------------------------------------------------ round trip of a TWO-message datagram
@contract('connection.Packet.from_bytes', props=['C09'], variant='roundtrip-sealed-two-messages')
class _:
    """decoding a sealed datagram whose payload is Packet.create's layout for TWO messages (len, seq, type, bytes - twice; verified
    layout: c09_codec), every payload length, type and seq: both messages come back with their own seq, type and bytes, in order.
    The split loop is executed concretely here (count = 2); together with the 0/1-message round trips this covers each branch of
    the decoder; more than two messages: the loop's safety contract only (stated in the manifest)."""
    def setup(E):
        declare_pending_message(E)
        E.alloc()
        h = make_header(E, 'hdr')
        h.attrs['count'] = 2
        parts, ms = [], []
        for i in (0, 1):
            p = E.bytes('p%d' % i, maxlen=65535)
            seq = E.int('seq%d' % i, cls=SEQ, lo=1, hi=S.M)
            typ = E.enum(PTYPE, 'typ%d' % i)
            parts += [S.term(E.pack('>HHB', S.len(p), S.ival(seq), typ.value)), p.t]
            ms.append((seq, typ, p))
        msg = Sym(ops.mk_concat(parts), 'bytes')
        h.attrs['length'] = S.len(msg)
        E.assume(ops.blen(msg.t) <= 65535)
        h20 = E.bytes('h20', length=20)
        tail = E.bytes('tail')
        key = E.bytes('key', length=16)
        iv = ops.seq_slice_term(h20.t, 0, 12)
        ct = libspec.ENC(key.t, iv, h20.t, msg.t)
        ops.set_len_term(ct, ops.blen(msg.t) + 16)
        E.assume(z3.And(libspec.DEC_OK(key.t, iv, h20.t, ct), libspec.DEC(key.t, iv, h20.t, ct) == msg.t))
        E.ghost('sent', ms)
        E.ghost('sealed', (key.t, iv, h20.t, ct, msg))
        return dict(hdr=h, key=key, datagram=Sym(ops.mk_concat([h20.t, ct, tail.t]), 'bytes'))
    # the AEAD model answers with the plaintext TERM it was sealed from when asked to open exactly that ciphertext under exactly
    # that key, nonce and header (dec(enc(p)) = p of the same assumed library contract, applied as a rewrite so that the
    # message boundaries stay visible to the slicing); any other call goes to the general model
    hooks = {'model:crypto.decrypt_gcm': lambda ip, key, iv, aad, data: open_sealed(ip, key, iv, aad, data)}
    ensures = {
        'both-messages-come-back-in-order': lambda result, ghost, E: two_messages_clause(result, ghost, E),
    }


def open_sealed(ip, key, iv, aad, data):
    k, i, a, c, msg = ip.state.ghost['sealed']
    same = lambda x, t: z3.simplify(ops.term(x)).eq(z3.simplify(t))
    if same(key, k) and same(iv, i) and same(aad, a) and same(data, c):
        ip.state.events.append(('decrypt_gcm_ok', (key, iv, aad, data), {}))
        return msg
    return libspec._decrypt_gcm(ip, key, iv, aad, data)


def two_messages_clause(result, ghost, E):
    msgs = result.msgs
    if not isinstance(msgs, PyList) or len(msgs.items) != 2:
        return False
    r = True
    for i, (seq, typ, p) in enumerate(ghost.sent):
        m = E.elem(msgs, i)
        r = r & S.eq(S.ival(m.seq), S.ival(seq)) & S.eq(m.type.value, typ.value) & S.eq(m.payload, p)
    return r


# ------------------------------------------------------------------------------------------ the client endpoint: UdpClient.update
# The client's frame loop: conn.update(); if the socket is readable: ONE recvfrom, the header decoded by
# PacketHeader.from_bytes(False, ...) (direction check: only datagrams addressed to a client), then conn._recv_datagram(hdr,
# datagram) - which is where authentication happens (contracts above).  Here: update() itself does nothing with the bytes but
# hand them, unchanged and with their own header, to _recv_datagram exactly once, and writes no field of the connection itself -
# so everything C01 says about _recv_datagram carries over to the client endpoint.  The connection's methods are recorded
# models (each has its own contract), select / socket are assumed.
UC_ = 'client.UdpClient'


def _rec(name, result=None):
    def m(ip, self, *a, **k):
        ip.state.events.append((name, (self,) + tuple(a), dict(k)))
        return result(ip) if callable(result) else result
    return m


def _maybe_packet(ip):
    return Obj(None, {}, 'packet') if ip.ctx.choose(2) == 1 else None


def _select(ip, fn, args, kwargs):
    ip.ctx.lib_used.add('select.select / socket.recvfrom / socket.sendto: the socket is readable or not; recvfrom returns SOME bytes and a sender (assumed)')
    rl = args[0]
    return (PyList(list(rl.items)) if ip.ctx.choose(2) == 1 else PyList([]), PyList([]), PyList([]))


def _recvfrom(ip, fn, args, kwargs):
    d = ip.state.ghost['datagram']
    ip.state.events.append(('recvfrom', (), {}))
    return (d, ('203.0.113.9', 4000))


def _sendto(ip, fn, args, kwargs):
    ip.state.events.append(('sendto', tuple(args), {}))
    return None


@contract(UC_ + '.update', props=['C01'])
class _:
    def setup(E):
        conn = E.obj(CSC, tag='conn', clock=clock(E), log=E.member_logger(), status=status(E, 'c_status'), last_send_time=E.real('last_send'), send_interval=E.real('send_interval', lo=0),
                     last_recv_time=E.real('last_recv'), session_key_bytes=E.bytes('session_key', length=16))
        E.ghost('conn', conn)
        E.ghost('datagram', E.bytes('datagram'))
        return dict(self=E.obj(UC_, tag='self', conn=conn, sock=Opaque('socket', {}), addr=('198.51.100.7', 1474), disconnect_acked=False,
                               server_public_key=None, keep_alive_interval=E.real('u_ka'), temp_connection_timeout=E.real('u_tct'),
                               outgoing_timeout=E.real('u_ot')))
    hooks = {'model:connection.ClientServerConnection.update': _rec('conn.update'),
             'model:connection.ConnectionBase._recv_datagram': _rec('conn._recv_datagram', lambda ip: ip.ctx.choose(2) == 1),
             'model:connection.ConnectionBase._build_packet': _rec('conn._build_packet', _maybe_packet),
             'model:connection.ConnectionBase._encode_packet': _rec('conn._encode_packet', b'sealed'),
             'model:connection.ConnectionBase._check_timeout': _rec('conn._check_timeout'),
             'opaque:select.select': _select, 'opaque:socket.recvfrom': _recvfrom, 'opaque:socket.sendto': _sendto}
    # a datagram whose 20 header bytes do not decode, or that is not addressed to a client, is refused before the connection sees it
    may_raise = ['Exception']
    modifies = []
    ensures = {
        # (the cheap integer clause first: refuting an equality of long byte strings needs a model the sequence solver may not build)
        'the-datagram-handed-over-has-the-received-length': lambda events, ghost: handed_length(events, ghost),
        'a-received-datagram-reaches-_recv_datagram-once-unchanged-with-its-own-header': lambda events, ghost: client_hands_over(events, ghost),
    }
    ensures_exc = {
        'a-refused-datagram-never-reaches-the-connection': lambda events: len([e for e in events if e[0] == 'conn._recv_datagram']) == 0,
    }


def handed_length(events, ghost):
    rd = [e for e in events if e[0] == 'conn._recv_datagram']
    if len(rd) != 1 or len(rd[0][1]) != 3:
        return len(rd) == 0
    return S.len(rd[0][1][2]) == S.len(ghost.datagram)


def client_hands_over(events, ghost):
    got = [e for e in events if e[0] == 'recvfrom']
    rd = [e for e in events if e[0] == 'conn._recv_datagram']
    if len(got) > 1 or len(rd) != len(got):
        return False
    if not rd:
        return True
    _, (conn, hdr, datagram), kw = rd[0]
    if conn is not ghost.conn or kw:
        return False
    if not (isinstance(hdr, Obj) and hdr.cls is not None and hdr.cls.name == 'PacketHeader'):
        return False
    # the header was decoded from these very bytes, as a datagram travelling TO a client
    return S.bool(S.term(datagram) == S.term(ghost.datagram)) & (hdr.attrs.get('isServer') is False or S.Not(hdr.attrs.get('isServer')))
