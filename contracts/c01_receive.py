"""C01 / C04 / C11 / C12 — the receive path: Packet.from_bytes, ConnectionBase._recv_datagram, _recv_message, _recvApp,
_recvDisconnect, _recvKeepAlive.  AES-GCM is the ideal AEAD of pyvc/libspec.py (dec_ok / dec / enc uninterpreted)."""
import z3
from pyvc.dsl import contract, lemma, S, LoopSpec
from pyvc import ops
from pyvc.values import *
from pyvc import libspec
from contracts.common import *
from contracts.c09_codec import make_header, PKT, fresh_bytes
from contracts.c09_packing import msgs_kind
from contracts.c08_bitfield import recv
from contracts.c07_acks import dom, val, same_at, sweep_ghosts, SWEEP_HAVOC

HELLO = ('CLIENT_HELLO', 'SERVER_HELLO')


def type_in(t, names):
    return S.Or(*[S.enum_is(t, t.cls.class_attrs[n]) for n in names])


def sealed(key, datagram, length, msg):
    """the payload was produced by AES-GCM under `key` with nonce = header[:12] and the whole 20-byte header authenticated"""
    d = S.term(datagram)
    hdr20 = ops.seq_slice_term(d, 0, 20)
    iv = ops.seq_slice_term(d, 0, 12)
    ct = ops.seq_slice_term(d, 20, S.term(20 + length + 16, 'int'))
    k = S.term(key)
    return S.bool(z3.And(libspec.DEC_OK(k, iv, hdr20, ct), S.term(msg) == libspec.DEC(k, iv, hdr20, ct)))


def sealed_by_events(events, key, datagram, length, msg):
    """the decoded payload is what ONE successful AES-GCM verification returned, made with this key, nonce = datagram[:12],
    associated data = datagram[:20] (the whole header) and ciphertext+tag = datagram[20:20+length+16]"""
    ev = [e for e in events if e[0] == 'decrypt_gcm_ok']
    if len(ev) != 1:
        return False
    k, iv, aad, data = ev[0][1]
    pt = libspec.DEC(S.term(k), S.term(iv), S.term(aad), S.term(data))
    return (S.eq(k, key) & S.is_slice(iv, datagram, 0, 12) & S.is_slice(aad, datagram, 0, 20)
            & S.is_slice(data, datagram, 20, 20 + length + 16) & S.bool(S.term(msg) == pt))


FB_LOOP_HAVOC = ['field:PendingMessage.' + f for f in ('seq', 'type', 'payload', 'callback', 'retry', 'assembled_time')] + ['ghost.alloc']


def fb_returns(E, args):
    msgs = SymSeq(E.ctx.fresh('rx_msgs', z3.ArraySort(z3.IntSort(), z3.IntSort())), E.ctx.fresh('rx_nmsgs', z3.IntSort()), Kind('obj', E.cls(PM)))
    E.ctx.assume(msgs.n >= 0)
    return E.obj(PKT, hdr=args['hdr'], msg=Sym(fresh_bytes(E, 'rx_msg'), 'bytes'), msgs=msgs)


for _k in ('key', 'no-key'):
    @contract('connection.Packet.from_bytes', props=['C01', 'C11', 'C09', 'C02'], variant=None if _k == 'key' else 'no-key')
    class _:
        """for ARBITRARY datagram bytes and every header (all packet types, all counts)"""
        def setup(E, _k=_k):
            declare_pending_message(E)
            E.alloc()
            return dict(hdr=make_header(E, 'hdr'), key=E.bytes('key', length=16) if _k == 'key' else None, datagram=E.bytes('datagram'))
        loops = {0: LoopSpec(invariant={'count-bound': lambda msgs, _i: S.len(msgs) == _i,
                                        'allocation-monotone': lambda ghost: S.bool(ghost.alloc >= ghost.alloc0)},
                             havoc=FB_LOOP_HAVOC, havoc_kinds={'msgs': msgs_kind}, label='split-loop')}
        # hostile bytes: nothing but these ordinary exceptions can escape (all are caught by _recv_datagram)
        may_raise = ['PacketError', 'struct.error', 'ValueError', 'InvalidTag']
        ensures = {
            # C01, first sentence: with a key, EVERY datagram that decodes was sealed under that key - whatever its type or count
            'decodes-only-if-sealed-under-the-session-key': (lambda events, hdr, key, datagram, result: sealed_by_events(events, key, datagram, hdr.length, result.msg))
            if _k == 'key' else (lambda: True),
            # C01, second sentence: before a key exists nothing but the single handshake hello is taken from clear datagrams
            'without-a-key-only-a-single-hello': (lambda: True) if _k == 'key' else (
                lambda hdr: type_in(hdr.pkt_type, HELLO) & S.eq(hdr.count, 1)),
            'message-count-as-announced': lambda hdr, result: S.len(result.msgs) == hdr.count,
            'same-header': lambda hdr, result: S.same(result.hdr, hdr),
        }
        modifies = ['field:PendingMessage.' + f for f in ('seq', 'type', 'payload', 'callback', 'retry', 'assembled_time')]
        returns = fb_returns
