"""C16 — HTTP router: the regular expression patternToRegex emits accepts exactly the paths the documented grammar prescribes.
The real Router.patternToRegex is executed (by the pyvc interpreter, from the real AST) on every pattern shape of the documented
grammar with up to four segments (literal and :name segments anywhere, :name? :name+ :name* in last position - 75 shapes plus the
root pattern); for each, z3 decides the LANGUAGE EQUIVALENCE between the emitted regex and the specification regex over ALL request
paths (unbounded length) - proof in the path dimension, exhaustive enumeration in the pattern-shape dimension (stated as such).
Assumptions: request paths contain no newline (true of every HTTP request target; Python's `.` and `$` differ from z3's only there);
literal segments are over [A-Za-z0-9_-] (the code does not escape them; outside the documented grammar otherwise)."""
import itertools
import z3
from pyvc.dsl import contract, lemma, S, LoopSpec
from pyvc import ops
from pyvc.values import *

Str = z3.StringSort()
RE = z3.ReSort(Str)


def ch(c):
    return z3.Re(z3.StringVal(c))


def not_newline():
    return z3.Union(z3.Range('\x00', '\x09'), z3.Range('\x0b', '\U0002ffff'))


def not_slash():
    return z3.Intersect(not_newline(), z3.Complement(ch('/'))) if False else z3.Union(
        z3.Range('\x00', '\x09'), z3.Range('\x0b', '.'), z3.Range('0', '\U0002ffff'))


class ReParser:
    """the subset of Python `re` syntax that patternToRegex can emit -> z3 regular expressions"""
    def __init__(self, src):
        self.s = src
        self.i = 0

    def peek(self):
        return self.s[self.i] if self.i < len(self.s) else None

    def parse(self):
        r = self.alt()
        if self.i != len(self.s):
            raise ops.Unsupported('regex syntax at %d in %r' % (self.i, self.s))
        return r

    def alt(self):
        branches = [self.seq()]
        while self.peek() == '|':
            self.i += 1
            branches.append(self.seq())
        return branches[0] if len(branches) == 1 else z3.Union(*branches)

    def seq(self):
        items = []
        while self.peek() is not None and self.peek() not in '|)':
            items.append(self.postfix())
        if not items:
            return z3.Re(z3.StringVal(''))
        return items[0] if len(items) == 1 else z3.Concat(*items)

    def postfix(self):
        a = self.atom()
        while self.peek() in ('*', '+', '?'):
            c = self.peek()
            self.i += 1
            a = {'*': z3.Star, '+': z3.Plus, '?': z3.Option}[c](a)
        return a

    def atom(self):
        c = self.peek()
        if c == '^':
            if self.i != 0:
                raise ops.Unsupported('^ inside the regex')
            self.i += 1
            return z3.Re(z3.StringVal(''))
        if c == '$':
            if self.i != len(self.s) - 1:
                raise ops.Unsupported('$ inside the regex')
            self.i += 1
            return z3.Re(z3.StringVal(''))
        if c == '\\':
            self.i += 2
            e = self.s[self.i - 1]
            if e.isalnum():
                raise ops.Unsupported('regex escape \\%s' % e)
            return ch(e)
        if c == '(':
            self.i += 1
            if self.s.startswith('?:', self.i):
                self.i += 2
            elif self.peek() == '?':
                raise ops.Unsupported('regex group extension')
            r = self.alt()
            if self.peek() != ')':
                raise ops.Unsupported('unbalanced group')
            self.i += 1
            return r
        if c == '[':
            j = self.s.index(']', self.i)
            body = self.s[self.i + 1:j]
            self.i = j + 1
            if body == '^\\/':
                return not_slash()
            raise ops.Unsupported('character class %r' % body)
        if c == '.':
            self.i += 1
            return not_newline()
        if c in '*+?{}':
            raise ops.Unsupported('regex quantifier position')
        self.i += 1
        return ch(c)


def spec_regex(segments):
    """the documented rule, segment by segment (weakest reading of 'segment' for ? + *; :name is non-empty)"""
    parts = []
    for kind, text in segments:
        if kind == 'lit':
            parts.append(z3.Concat(ch('/'), z3.Re(z3.StringVal(text))))
        elif kind == 'name':
            parts.append(z3.Concat(ch('/'), z3.Plus(not_slash())))
        elif kind == '?':
            parts.append(z3.Option(z3.Concat(ch('/'), z3.Star(not_slash()))))
        elif kind == '*':
            parts.append(z3.Option(z3.Concat(ch('/'), z3.Star(not_newline()))))
        elif kind == '+':
            parts.append(z3.Concat(ch('/'), z3.Plus(not_newline())))
    parts.append(z3.Option(ch('/')))       # one optional trailing slash is tolerated
    return parts[0] if len(parts) == 1 else z3.Concat(*parts)


def pattern_text(segments):
    out = ''
    for kind, text in segments:
        out += '/' + (text if kind == 'lit' else ':' + text + ('' if kind == 'name' else kind))
    return out or '/'


def shapes(maxlen=4):
    lits = ['static', 'api', 'v1', 'x-y_z']
    names = ['name', 'path', 'id', 'rest']
    yield []
    for n in range(1, maxlen + 1):
        for inner in itertools.product(('lit', 'name'), repeat=n - 1):
            for last in ('lit', 'name', '?', '+', '*'):
                kinds = list(inner) + [last]
                yield [(k, lits[i] if k == 'lit' else names[i]) for i, k in enumerate(kinds)]


class CompiledRe:
    def __init__(self, src):
        self.src = src


def re_compile_hook(ip, fn, args, kwargs):
    src = args[0]
    if not isinstance(src, str):
        raise ops.Unsupported('re.compile of a symbolic pattern')
    return CompiledRe(src)


def language_goals(E, select):
    """for every selected pattern shape: L(regex emitted by the real patternToRegex) = L(documented rule), over all newline-free paths"""
    ip = E.ip
    ip.hooks['opaque:re.compile'] = re_compile_hook
    router = E.obj('http_server.Router', tag='router')
    fn = ip.repo.func('http_server.Router.patternToRegex')
    goals = {}
    x = z3.String('request_path')
    E.ctx.inputs['request_path'] = Sym(x, 'str')
    nn = z3.Star(not_newline())
    for seg in shapes():
        if not select(seg):
            continue
        pat = pattern_text(seg)
        rx, tokens = ip.call_function(fn, [router, pat], {})
        code_re = ReParser(rx.src).parse()
        want_tokens = tuple(t for k, t in seg if k != 'lit')
        tok_ok = tuple(tokens.items) == want_tokens
        # equivalence: no newline-free string is in exactly one of the two languages
        diff = z3.And(z3.InRe(x, nn), z3.Xor(z3.InRe(x, code_re), z3.InRe(x, spec_regex(seg))))
        goals['pattern %s' % pat] = ops.and_(tok_ok, ops.sbool(z3.Not(diff)))
    return goals


REPLAY_SRC = '''
import sys, re
from mpgameserver.http_server import Router
PATTERN = %r
PATH = %r

def spec_match(pattern, path):
    """the documented rule, written without regular expressions"""
    segs = [p for p in pattern.split('/') if p]
    def rec(i, rest):
        if i == len(segs):
            return rest in ('', '/')
        s = segs[i]
        if not s.startswith(':'):
            return rest.startswith('/' + s) and rec(i + 1, rest[len(s) + 1:])
        if s.endswith('?'):
            if rest in ('', '/'):
                return True
            return rest.startswith('/') and '/' not in rest[1:].rstrip('/') and rest[1:].count('/') <= 1 and (rest[1:].find('/') in (-1, len(rest) - 2))
        if s.endswith('*'):
            return rest == '' or rest.startswith('/')
        if s.endswith('+'):
            return rest.startswith('/') and len(rest) > 1
        if not rest.startswith('/'):
            return False
        j = rest.find('/', 1)
        seg = rest[1:] if j < 0 else rest[1:j]
        return len(seg) > 0 and rec(i + 1, '' if j < 0 else rest[j:])
    return rec(0, path)

rx, tokens = Router().patternToRegex(PATTERN)
got = rx.match(PATH) is not None
want = spec_match(PATTERN, PATH)
print('pattern', PATTERN, 'path', repr(PATH), 'real router matches:', got, 'documented rule:', want)
sys.exit(1 if got != want else 0)
'''


def replay(label, model):
    pat = label.split('pattern ', 1)[1]
    path = model.get('request_path')
    if not isinstance(path, str):
        return None
    try:
        path = path.encode('latin-1', 'backslashreplace').decode('unicode_escape') if '\\u{' not in path else None
    except Exception:
        path = None
    if path is None:
        return None
    return REPLAY_SRC % (pat, path)


def _mk(n, last):
    def f(E):
        return language_goals(E, lambda seg: len(seg) == n and (n == 0 or seg[-1][0] == last))
    f.__doc__ = 'pattern shapes with %d segments ending in a %s segment' % (n, last)
    lemma('router-pattern-language-%d-%s' % (n, {'?': 'optional', '+': 'plus', '*': 'star'}.get(last, last)), props=['C16'], replay=replay)(f)


_mk(0, 'lit')
for _n in range(1, 5):
    for _last in ('lit', 'name', '?', '+', '*'):
        _mk(_n, _last)


# ------------------------------------------------------------------------------------------ getRoute / registerRoutes / dispatch
# compiled patterns and endpoints are known by integer ids; MATCH(regex id, path) is the (uninterpreted) matching relation,
# whose meaning per pattern is what the language lemmas above decide.
MATCH = z3.Function('regex_matches', z3.IntSort(), Str, z3.BoolSort())
I = z3.IntSort()


class MatchObj:
    def __init__(self, rid):
        self.rid = rid

    def pv_getattr(self, ip, name):
        if name == 'groups':
            return Builtin('match.groups', lambda ip: ())
        ip.ctx.raise_exc('AttributeError', name)


class RegexVal:
    def __init__(self, rid):
        self.rid = rid

    def pv_getattr(self, ip, name):
        if name == 'match':
            def match(ip, path):
                if ip.ctx.branch(ops.sbool(MATCH(self.rid, ops.term(path)))):
                    ip.state.ghost['matched'] = (self.rid, ops.term(path))
                    return MatchObj(self.rid)
                return None
            return Builtin('regex.match', match)
        ip.ctx.raise_exc('AttributeError', name)


class EndptVal:
    def __init__(self, eid):
        self.eid = eid


def regex_kind():
    return Kind('custom', None, (I, lambda ip, t: RegexVal(t), lambda ip, v: v.rid))


def endpt_kind():
    return Kind('custom', None, (I, lambda ip, t: EndptVal(t), lambda ip, v: v.eid if hasattr(v, 'eid') else v.rid))


def tokens_kind():
    return Kind('custom', None, (I, lambda ip, t: (), lambda ip, v: z3.IntVal(0)))


def triple_kind():
    return Kind('pair', None, (regex_kind(), tokens_kind(), endpt_kind()))


def make_router(E):
    tables = {}
    d = E.dict([])
    for m in ('DELETE', 'GET', 'POST', 'PUT'):
        t = E.symseq('table_' + m, triple_kind())
        tables[m] = t
        d.keys.append(m)
        d.vals.append(t)
    return E.obj('http_server.Router', tag='self', route_table=d, routes=E.symseq('routes_list', Kind('custom', None, (I, lambda ip, t: EndptVal(t), lambda ip, v: v.eid if hasattr(v, 'eid') else v.rid)))), tables


def acc(i):
    return pair_sort(I, I, I)[2][i]


def gr_pre(ip, frame, env):
    ip.state.ghost['cur'] = S.term(env['_i'], 'int')


@contract('http_server.Router.getRoute', props=['C16'])
class _:
    """first registered matching route of the request's method, matched against the request path itself"""
    def setup(E):
        router, tables = make_router(E)
        E.ghost('tables', tables)
        E.ghost('cur', z3.IntVal(-1))
        return dict(self=router, method=E.str('method'), path=E.str('path'))
    skolems = {'j': 'int'}
    loops = {0: LoopSpec(
        invariant={'no-earlier-entry-matches': lambda _it, _i, path, j: S.bool(z3.Implies(
            z3.And(0 <= S.term(j), S.term(j) < S.term(_i, 'int')), z3.Not(MATCH(acc(0)(z3.Select(_it.arr, S.term(j))), S.term(path)))))},
        havoc=['ghost.cur'], ghost_pre=gr_pre, label='table-scan')}
    ensures = {
        'first-matching-route-of-the-method': lambda method, path, result, ghost, j: first_match_clause(method, path, result, ghost, j),
    }
    modifies = []


def first_match_clause(method, path, result, ghost, j):
    goal = True
    for m, t in ghost.tables.items():
        is_m = ops.equal(method, m)
        if result is None:
            # None: no entry of this method's table matches the request path
            c = S.bool(z3.Implies(z3.And(0 <= S.term(j), S.term(j) < t.n), z3.Not(MATCH(acc(0)(z3.Select(t.arr, S.term(j))), S.term(path)))))
        else:
            i = ghost.cur
            ent = z3.Select(t.arr, i)
            c = S.bool(z3.And(0 <= i, i < t.n, MATCH(acc(0)(ent), S.term(path)), result[0].eid == acc(2)(ent),
                              z3.Implies(z3.And(0 <= S.term(j), S.term(j) < i), z3.Not(MATCH(acc(0)(z3.Select(t.arr, S.term(j))), S.term(path))))))
        goal = ops.and_(goal, ops.implies(is_m, c))
    if result is not None:
        goal = ops.and_(goal, S.Or(*[ops.equal(method, m) for m in ghost.tables]))
    return goal


class RouteVal:
    """an element of the `routes` argument: pattern id (compiled regex id), method, itself as endpoint id"""
    def __init__(self, rid):
        self.rid = rid

    def pv_getattr(self, ip, name):
        if name == 'pattern':
            return PatternVal(self.rid)
        if name == 'method':
            return Sym(z3.Function('route_method', I, Str)(self.rid), 'str')
        ip.ctx.raise_exc('AttributeError', name)


class PatternVal:
    def __init__(self, rid):
        self.rid = rid


def ptr_model(ip, self, pattern):
    """patternToRegex as used by registerRoutes: the compiled regex of this route's pattern (id = route id) and its tokens"""
    return (RegexVal(pattern.rid), ())


@contract('http_server.Router.registerRoutes', props=['C16'])
class _:
    """registration order is kept: entries already in a method's table keep their positions, new ones are appended"""
    def setup(E):
        router, tables = make_router(E)
        E.ghost('tables', tables)
        routes = E.symseq('new_routes', Kind('custom', None, (I, lambda ip, t: RouteVal(t), lambda ip, v: v.rid)))
        return dict(self=router, routes=routes)
    hooks = {'model:http_server.Router.patternToRegex': ptr_model}
    skolems = {'j': 'int'}
    may_raise = ['ValueError']
    loops = {0: LoopSpec(
        invariant={'earlier-entries-keep-their-position': lambda old, self, ghost, j: keep_positions(old, self, ghost, j)},
        havoc=['self.routes'] + ['self.route_table'], label='register-loop')}
    ensures = {
        'earlier-entries-keep-their-position': lambda old, self, ghost, j: keep_positions(old, self, ghost, j),
    }


def keep_positions(old, self, ghost, j):
    goal = True
    for k, (m, t_live) in enumerate(zip(self.route_table.keys, self.route_table.vals)):
        t_old = old.self.route_table.vals[k]
        goal = ops.and_(goal, S.bool(z3.And(t_live.n >= t_old.n, z3.Implies(
            z3.And(0 <= S.term(j), S.term(j) < t_old.n), z3.Select(t_live.arr, S.term(j)) == z3.Select(t_old.arr, S.term(j))))))
    return goal
