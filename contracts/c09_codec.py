"""C09 — wire codec: PacketHeader.to_bytes/from_bytes/create, Packet.to_bytes/total_size/overhead/setMTU.
Byte strings are z3 sequences of 8-bit vectors; struct fields go through the assumed per-field pk/upk bijection."""
import z3
from pyvc.dsl import contract, lemma, S, LoopSpec
from pyvc import ops
from pyvc.values import *
from contracts.common import *

PH = 'connection.PacketHeader'
PKT = 'connection.Packet'
PID = 'connection.PacketIdentifier'


def make_header(E, name='hdr', ranges=True):
    kw = dict(lo=0) if ranges else {}
    return E.obj(PH, tag=name,
                 isServer=E.bool(name + '_isServer'),
                 ctime=E.int(name + '_ctime', lo=0, hi=2 ** 32 - 1) if ranges else E.int(name + '_ctime'),
                 pkt_type=E.enum(PTYPE, name + '_type'),
                 seq=E.int(name + '_seq', cls=SEQ, lo=0, hi=65535),
                 ack=E.int(name + '_ack', cls=SEQ, lo=0, hi=65535),
                 ack_bits=E.int(name + '_ack_bits', lo=0, hi=2 ** 32 - 1) if ranges else E.int(name + '_ack_bits'),
                 length=E.int(name + '_length', lo=0, hi=65535) if ranges else E.int(name + '_length'),
                 count=E.int(name + '_count', lo=0, hi=255) if ranges else E.int(name + '_count'))


def header_bytes(h):
    """the wire layout written from the documented header table: magic+direction, time, seq, ack | type, length, count, ack_bits"""
    ident = S.ite(h.isServer, b"FSOC", b"FSOS")
    return S.concat(ident, S.pk('L', h.ctime), S.pk('H', S.ival(h.seq)), S.pk('H', S.ival(h.ack)),
                    S.pk('B', h.pkt_type.value), S.pk('H', h.length), S.pk('B', h.count), S.pk('L', h.ack_bits))


@contract('connection.PacketHeader.to_bytes', props=['C09', 'C03'])
class _:
    def setup(E):
        return dict(self=make_header(E, 'self'))
    ensures = {
        'twenty-bytes': lambda result: S.len(result) == 20,
        'layout': lambda self, result: S.eq(result, header_bytes(self)),
        # C03: the two directions never share a nonce prefix
        'direction-magic': lambda self, result: S.eq(S.slice(result, 0, 4), S.ite(self.isServer, b"FSOC", b"FSOS")),
    }
    modifies = []
    returns = 'bytes'


@contract('connection.PacketHeader.to_bytes', props=['C09'], variant='out-of-range')
class _:
    """field values outside the wire format are refused (struct.error), never silently truncated"""
    def setup(E):
        return dict(self=make_header(E, 'self', ranges=False))
    raises = {
        'struct-error-iff-a-field-does-not-fit': ('struct.error', lambda self: S.Not(
            (0 <= self.ctime) & (self.ctime <= 2 ** 32 - 1) & (0 <= self.ack_bits) & (self.ack_bits <= 2 ** 32 - 1)
            & (0 <= self.length) & (self.length <= 65535) & (0 <= self.count) & (self.count <= 255))),
    }
    modifies = []


@contract('connection.PacketHeader.create', props=['C09'])
class _:
    def setup(E):
        h = make_header(E, 'h')
        return dict(isServer=h.isServer, ctime=h.ctime, pkt_type=h.pkt_type, seq=h.seq, ack=h.ack, ack_bits=h.ack_bits)
    ensures = {
        'fields': lambda result, isServer, ctime, pkt_type, seq, ack, ack_bits:
            S.eq(result.isServer, isServer) & S.eq(result.ctime, ctime) & S.same(result.pkt_type, pkt_type)
            & S.eq(result.seq, seq) & S.eq(result.ack, ack) & S.eq(result.ack_bits, ack_bits)
            & S.eq(result.length, 0) & S.eq(result.count, 0),
    }


TYPE_VALUES = list(range(0, 8))


@contract('connection.PacketHeader.from_bytes', props=['C09', 'C11'])
class _:
    """any byte string"""
    def setup(E):
        return dict(isServer=E.bool('side_is_server'), datagram=E.bytes('datagram'))
    raises = {
        'struct-error-iff-short': ('struct.error', lambda datagram: S.len(datagram) < 20),
        'value-error-iff-unknown-type': ('ValueError', lambda datagram: (S.len(datagram) >= 20) & S.Not(type_known(datagram))),
        'packet-error-iff-magic-or-direction': ('PacketError', lambda datagram, isServer: (S.len(datagram) >= 20) & type_known(datagram)
                                                 & S.Not(S.eq(S.slice(datagram, 0, 4), S.ite(isServer, b"FSOS", b"FSOC")))),
    }
    ensures = {
        'fields-decoded': lambda result, datagram: S.eq(result.ctime, S.upk('L', S.slice(datagram, 4, 8)))
            & (S.ival(result.seq) == S.upk('H', S.slice(datagram, 8, 10))) & (S.ival(result.ack) == S.upk('H', S.slice(datagram, 10, 12)))
            & S.eq(result.pkt_type.value, S.upk('B', S.slice(datagram, 12, 13))) & S.eq(result.length, S.upk('H', S.slice(datagram, 13, 15)))
            & S.eq(result.count, S.upk('B', S.slice(datagram, 15, 16))) & S.eq(result.ack_bits, S.upk('L', S.slice(datagram, 16, 20))),
        'addressed-side': lambda result, isServer: S.eq(result.isServer, isServer),
        'seq-and-ack-are-seqnums': lambda result: result.seq.cls is not None and result.ack.cls is not None,
    }
    modifies = []
    returns = lambda E, args: make_header(E, 'parsed_%d' % E.ctx.counter)


def type_known(datagram):
    t = S.upk('B', S.slice(datagram, 12, 13))
    return S.Or(*[t == v for v in TYPE_VALUES])


@contract('connection.PacketHeader.from_bytes', props=['C09'], variant='roundtrip')
class _:
    """decode(encode(h) + anything): the same header, accepted exactly on the addressed side"""
    def setup(E):
        h = make_header(E, 'h')
        tail = E.bytes('tail')
        ident = S.ite(h.isServer, b"FSOC", b"FSOS")
        enc = S.concat(ident, E.pack('>LHH', h.ctime, S.ival(h.seq), S.ival(h.ack)),
                       E.pack('>BHBL', h.pkt_type.value, h.length, h.count, h.ack_bits), tail)
        E.ghost('h', h)
        return dict(isServer=E.bool('side_is_server'), datagram=enc)
    raises = {
        # a datagram built by the server (TO_CLIENT) is accepted by the client side only, and vice versa
        'refused-iff-wrong-side': ('PacketError', lambda ghost, isServer: S.eq(ghost.h.isServer, isServer)),
    }
    ensures = {
        'same-header': lambda result, ghost: S.eq(result.ctime, ghost.h.ctime) & (S.ival(result.seq) == S.ival(ghost.h.seq))
            & (S.ival(result.ack) == S.ival(ghost.h.ack)) & S.eq(result.pkt_type.value, ghost.h.pkt_type.value)
            & S.eq(result.length, ghost.h.length) & S.eq(result.count, ghost.h.count) & S.eq(result.ack_bits, ghost.h.ack_bits),
    }


# ------------------------------------------------------------------------------------------ Packet.create / to_bytes / sizes
from pyvc import lib as _lib

ARR = z3.ArraySort(z3.IntSort(), z3.IntSort())
SUMLEN = z3.Function('sumlen_prefix', ARR, z3.IntSort(), z3.IntSort())       # sum of the payload lengths of the first i messages
FLAT = z3.Function('flat_msgs', ARR, z3.IntSort(), BytesSort)                # multi-message encoding of the first i messages


def enc5(m):
    """one message inside a multi-message datagram: be16(len) be16(seq) u8(type) payload"""
    return S.concat(S.pk('H', S.len(m.payload)), S.pk('H', S.ival(m.seq)), S.pk('B', m.type.value), m.payload)


_lib.define_measure('sumlen', z3.IntSort(), lambda ip, el: ops.blen(S.term(el.payload)), prefix=SUMLEN)
_lib.define_measure('flat', BytesSort, lambda ip, el: S.term(enc5(el)), prefix=FLAT)
_lib.define_measure('concat', BytesSort, lambda ip, el: S.term(el))                                # concatenation of a list of bytes
_lib.define_measure('bytelen', z3.IntSort(), lambda ip, el: ops.blen(S.term(el)))                # total length of a list of bytes


def overhead(n):
    return S.ite(n == 0, 0, S.ite(n == 1, 2, 5 * n))


def msg_list(E, name='msgs'):
    declare_pending_message(E)
    msgs = E.symseq(name, E.kind('obj', PM))
    E.measure(msgs, 'sumlen')
    E.measure(msgs, 'flat')
    return msgs


def unfold_at(ip, msgs, i):
    """definitions of the spec prefix functions, instantiated at position i: F(arr, i+1) = F(arr, i) (+) w(arr[i])"""
    m = ip.wrap(z3.Select(msgs.arr, i), msgs.elem)
    ip.ctx.assume(FLAT(msgs.arr, i + 1) == S.term(S.concat(Sym(FLAT(msgs.arr, i), 'bytes'), enc5(m))))
    ip.ctx.assume(SUMLEN(msgs.arr, i + 1) == SUMLEN(msgs.arr, i) + ops.blen(S.term(m.payload)))


def create_ghost_post(ip, frame, env):
    unfold_at(ip, env['_it'], S.term(env['_i'], 'int') - 1)


def bytes_list(ip, v, name):
    from pyvc.heap import fresh_like
    s = SymSeq(z3.K(z3.IntSort(), z3.Empty(BytesSort)), z3.IntVal(0), Kind('bytes'))
    s.meas['concat'] = z3.Empty(BytesSort)
    s.meas['bytelen'] = z3.IntVal(0)
    return fresh_like(ip, s, name)


@contract('connection.Packet.create', props=['C09', 'C06'])
class _:
    def setup(E):
        h = make_header(E, 'hdr')
        msgs = msg_list(E)
        # the n = 1 branch reads msgs[0]: unfold the spec functions there
        unfold_at(E.ip, msgs, z3.IntVal(0))
        return dict(hdr=h, msgs=msgs)
    loops = {0: LoopSpec(
        invariant={
            'chunks-are-the-encoded-prefix': lambda payload, msgs, _i: S.bool(S.term(S.meas(payload, 'concat')) == FLAT(msgs.arr, S.term(_i, 'int'))),
            'chunk-lengths': lambda payload, msgs, _i: S.bool(S.term(S.meas(payload, 'bytelen'), 'int') == 5 * S.term(_i, 'int') + SUMLEN(msgs.arr, S.term(_i, 'int'))),
        },
        havoc_kinds={'payload': bytes_list}, ghost_post=create_ghost_post, label='encode-loop')}
    ensures = {
        'count-describes-the-messages': lambda result, msgs: S.eq(result.hdr.count, S.len(msgs)),
        'length-describes-the-payload': lambda result: S.eq(result.hdr.length, S.len(result.msg)),
        'payload-bytes': lambda result, msgs, E: S.ite(
            S.len(msgs) == 0, S.eq(result.msg, b''),
            S.ite(S.len(msgs) == 1, S.eq(result.msg, S.concat(S.pk('H', S.ival(E.elem(msgs, 0).seq)), E.elem(msgs, 0).payload)),
                  S.bool(S.term(result.msg) == FLAT(msgs.arr, msgs.n)))),
        'payload-size': lambda result, msgs: S.len(result.msg) == overhead(S.len(msgs)) + S.meas(msgs, 'sumlen'),
        'same-header-object-and-messages': lambda result, hdr, msgs: S.same(result.hdr, hdr) & S.same(result.msgs, msgs),
    }
    modifies = ['hdr.length', 'hdr.count']
    returns = lambda E, args: E.obj(PKT, hdr=args['hdr'], msg=Sym(fresh_bytes(E, 'pkt_msg'), 'bytes'), msgs=args['msgs'])


def fresh_bytes(E, name):
    t = E.ctx.fresh(name, BytesSort)
    n = E.ctx.fresh(name + '_len', z3.IntSort())
    E.ctx.assume(n >= 0)
    ops.set_len_term(t, n)
    return t




def make_packet(E, name='self'):
    h = make_header(E, name + '_hdr')
    return E.obj(PKT, tag=name, hdr=h, msg=E.bytes(name + '_msg', maxlen=65535), msgs=E.list([]))


for _k in ('key', 'no-key'):
    @contract('connection.Packet.to_bytes', props=['C09', 'C03'], variant=_k)
    class _:
        """C03: after key agreement everything but the signed server-hello is AES-GCM ciphertext under the session key,
        nonce = first 12 header bytes, the whole 20-byte header authenticated; C09: sizes"""
        def setup(E, _k=_k):
            return dict(self=make_packet(E), key=E.bytes('key', length=16) if _k == 'key' else None)
        ensures = {
            'sealed-unless-server-hello-or-keyless': lambda self, key, result: sealed_clause(self, key, result),
            'size-as-announced-by-total_size': lambda self, key, result: S.len(result) == S.len(self.msg) + 20 + S.ite(
                S.Not(S.is_none(key)) & S.Not(S.enum_is(self.hdr.pkt_type, member_(self, 'SERVER_HELLO'))), 16, 4),
        }
        modifies = []
        returns = 'bytes'


def sealed_clause(self, key, result):
    clear = S.eq(result, S.concat(header_bytes(self.hdr), self.msg, S.pk('L', crc(S.concat(header_bytes(self.hdr), self.msg)))))
    if key is None:
        return clear
    sealed = S.bool(S.term(result) == S.term(S.concat(header_bytes(self.hdr), gcm(key, header_bytes(self.hdr), self.msg))))
    return S.ite(S.Not(S.enum_is(self.hdr.pkt_type, member_(self, 'SERVER_HELLO'))), sealed, clear)


def member_(pkt, name):
    return pkt.hdr.pkt_type.cls.class_attrs[name]


def gcm(key, hdr20, msg):
    from pyvc import libspec
    return Sym(libspec.ENC(S.term(key), S.term(S.slice(hdr20, 0, 12)), S.term(hdr20), S.term(msg)), 'bytes')


def crc(data):
    from pyvc import libspec
    return Sym(libspec.CRC(S.term(data)), 'int')


for _k in ('key', 'no-key'):
    @contract('connection.Packet.total_size', props=['C09'], variant=_k)
    class _:
        def setup(E, _k=_k):
            return dict(self=make_packet(E), key=E.bytes('key', length=16) if _k == 'key' else None)
        ensures = {
            'size': lambda self, key, result: result == S.len(self.msg) + 20 + S.ite(
                S.Not(S.is_none(key)) & S.Not(S.enum_is(self.hdr.pkt_type, member_(self, 'SERVER_HELLO'))), 16, 4),
        }
        modifies = []
        returns = 'int'


@contract('connection.Packet.overhead', props=['C09'])
class _:
    def setup(E):
        return dict(n=E.int('n', lo=0))
    ensures = {'overhead': lambda n, result: result == overhead(n)}
    returns = 'int'


def limits(mtu, g):
    """Limits: the size constants as functions of the MTU (g: attribute getter)"""
    mp = mtu - 28 - 20 - 16 - 2
    return (S.eq(g('MTU'), mtu) & S.eq(g('MAX_SIZE'), mtu - 28) & S.eq(g('MAX_PAYLOAD_SIZE'), mp)
            & S.eq(g('MAX_SIZE_CRC'), mtu - 28 - 16 + 4) & S.eq(g('MAX_FRAGMENT_SIZE'), S.ite(mp >= 1030, 1024, mp - 6))
            & (g('RECV_SIZE') >= mtu - 28))


def set_limits(E, mtu=None):
    """Packet's class attributes for a symbolic MTU in the supported range 512..1500"""
    mtu = mtu if mtu is not None else E.int('MTU', lo=512, hi=1500)
    mp = mtu - 28 - 20 - 16 - 2
    for a, v in (('MTU', mtu), ('MAX_SIZE', mtu - 28), ('MAX_PAYLOAD_SIZE', mp), ('MAX_SIZE_CRC', mtu - 28 - 16 + 4),
                 ('MAX_FRAGMENT_SIZE', S.ite(mp >= 1030, 1024, mp - 6)), ('RECV_SIZE', mtu + 512)):
        E.set_class_attr(PKT, a, v)
    return mtu


@contract('connection.Packet.setMTU', props=['C09', 'C05', 'C06'])
class _:
    def setup(E):
        set_limits(E, E.int('old_MTU', lo=512, hi=1500))
        return dict(mtu=E.int('mtu', lo=512, hi=1500))
    ensures = {
        'limits': lambda mtu, E: limits(mtu, lambda a: E.ip.class_attr(E.cls(PKT), a)[1]),
    }
    modifies = ['class:connection.Packet.' + a for a in ('MTU', 'MAX_SIZE', 'MAX_PAYLOAD_SIZE', 'MAX_SIZE_CRC', 'MAX_FRAGMENT_SIZE', 'RECV_SIZE')]


@lemma('limits-of-the-class-body', props=['C09', 'C05', 'C06'])
def _limits_default(E):
    """the constants written in the class body satisfy Limits for the default MTU 1500"""
    return {'default-constants': limits(1500, lambda a: E.ip.class_attr(E.cls(PKT), a)[1])}
