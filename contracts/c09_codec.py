"""C09 — wire codec: PacketHeader.to_bytes/from_bytes/create, Packet.to_bytes/total_size/overhead/setMTU.
Byte strings are z3 sequences of 8-bit vectors; struct fields go through the assumed per-field pk/upk bijection."""
import z3
from pyvc.dsl import contract, lemma, S, LoopSpec
from pyvc import ops
from pyvc.values import *
from contracts.common import *

PH = 'connection.PacketHeader'
PKT = 'connection.Packet'
PID = 'connection.PacketIdentifier'


def make_header(E, name='hdr', ranges=True):
    kw = dict(lo=0) if ranges else {}
    return E.obj(PH, tag=name,
                 isServer=E.bool(name + '_isServer'),
                 ctime=E.int(name + '_ctime', lo=0, hi=2 ** 32 - 1) if ranges else E.int(name + '_ctime'),
                 pkt_type=E.enum(PTYPE, name + '_type'),
                 seq=E.int(name + '_seq', cls=SEQ, lo=0, hi=65535),
                 ack=E.int(name + '_ack', cls=SEQ, lo=0, hi=65535),
                 ack_bits=E.int(name + '_ack_bits', lo=0, hi=2 ** 32 - 1) if ranges else E.int(name + '_ack_bits'),
                 length=E.int(name + '_length', lo=0, hi=65535) if ranges else E.int(name + '_length'),
                 count=E.int(name + '_count', lo=0, hi=255) if ranges else E.int(name + '_count'))


def header_bytes(h):
    """the wire layout written from the documented header table: magic+direction, time, seq, ack | type, length, count, ack_bits"""
    ident = S.ite(h.isServer, b"FSOC", b"FSOS")
    return S.concat(ident, S.pk('L', h.ctime), S.pk('H', S.ival(h.seq)), S.pk('H', S.ival(h.ack)),
                    S.pk('B', h.pkt_type.value), S.pk('H', h.length), S.pk('B', h.count), S.pk('L', h.ack_bits))


@contract('connection.PacketHeader.to_bytes', props=['C09', 'C03'])
class _:
    def setup(E):
        return dict(self=make_header(E, 'self'))
    ensures = {
        'twenty-bytes': lambda result: S.len(result) == 20,
        'layout': lambda self, result: S.eq(result, header_bytes(self)),
        # C03: the two directions never share a nonce prefix
        'direction-magic': lambda self, result: S.eq(S.slice(result, 0, 4), S.ite(self.isServer, b"FSOC", b"FSOS")),
    }
    modifies = []
    returns = 'bytes'


@contract('connection.PacketHeader.to_bytes', props=['C09'], variant='out-of-range')
class _:
    """field values outside the wire format are refused (struct.error), never silently truncated"""
    def setup(E):
        return dict(self=make_header(E, 'self', ranges=False))
    raises = {
        'struct-error-iff-a-field-does-not-fit': ('struct.error', lambda self: S.Not(
            (0 <= self.ctime) & (self.ctime <= 2 ** 32 - 1) & (0 <= self.ack_bits) & (self.ack_bits <= 2 ** 32 - 1)
            & (0 <= self.length) & (self.length <= 65535) & (0 <= self.count) & (self.count <= 255))),
    }
    modifies = []


@contract('connection.PacketHeader.create', props=['C09'])
class _:
    def setup(E):
        h = make_header(E, 'h')
        return dict(isServer=h.isServer, ctime=h.ctime, pkt_type=h.pkt_type, seq=h.seq, ack=h.ack, ack_bits=h.ack_bits)
    ensures = {
        'fields': lambda result, isServer, ctime, pkt_type, seq, ack, ack_bits:
            S.eq(result.isServer, isServer) & S.eq(result.ctime, ctime) & S.same(result.pkt_type, pkt_type)
            & S.eq(result.seq, seq) & S.eq(result.ack, ack) & S.eq(result.ack_bits, ack_bits)
            & S.eq(result.length, 0) & S.eq(result.count, 0),
    }


TYPE_VALUES = list(range(0, 8))


@contract('connection.PacketHeader.from_bytes', props=['C09', 'C11'])
class _:
    """any byte string"""
    def setup(E):
        return dict(isServer=E.bool('side_is_server'), datagram=E.bytes('datagram'))
    raises = {
        'struct-error-iff-short': ('struct.error', lambda datagram: S.len(datagram) < 20),
        'value-error-iff-unknown-type': ('ValueError', lambda datagram: (S.len(datagram) >= 20) & S.Not(type_known(datagram))),
        'packet-error-iff-magic-or-direction': ('PacketError', lambda datagram, isServer: (S.len(datagram) >= 20) & type_known(datagram)
                                                 & S.Not(S.eq(S.slice(datagram, 0, 4), S.ite(isServer, b"FSOS", b"FSOC")))),
    }
    ensures = {
        'fields-decoded': lambda result, datagram: S.eq(result.ctime, S.upk('L', S.slice(datagram, 4, 8)))
            & (S.ival(result.seq) == S.upk('H', S.slice(datagram, 8, 10))) & (S.ival(result.ack) == S.upk('H', S.slice(datagram, 10, 12)))
            & S.eq(result.pkt_type.value, S.upk('B', S.slice(datagram, 12, 13))) & S.eq(result.length, S.upk('H', S.slice(datagram, 13, 15)))
            & S.eq(result.count, S.upk('B', S.slice(datagram, 15, 16))) & S.eq(result.ack_bits, S.upk('L', S.slice(datagram, 16, 20))),
        'addressed-side': lambda result, isServer: S.eq(result.isServer, isServer),
        'seq-and-ack-are-seqnums': lambda result: result.seq.cls is not None and result.ack.cls is not None,
    }
    modifies = []


def type_known(datagram):
    t = S.upk('B', S.slice(datagram, 12, 13))
    return S.Or(*[t == v for v in TYPE_VALUES])


@contract('connection.PacketHeader.from_bytes', props=['C09'], variant='roundtrip')
class _:
    """decode(encode(h) + anything): the same header, accepted exactly on the addressed side"""
    def setup(E):
        h = make_header(E, 'h')
        tail = E.bytes('tail')
        ident = S.ite(h.isServer, b"FSOC", b"FSOS")
        enc = S.concat(ident, E.pack('>LHH', h.ctime, S.ival(h.seq), S.ival(h.ack)),
                       E.pack('>BHBL', h.pkt_type.value, h.length, h.count, h.ack_bits), tail)
        E.ghost('h', h)
        return dict(isServer=E.bool('side_is_server'), datagram=enc)
    raises = {
        # a datagram built by the server (TO_CLIENT) is accepted by the client side only, and vice versa
        'refused-iff-wrong-side': ('PacketError', lambda ghost, isServer: S.eq(ghost.h.isServer, isServer)),
    }
    ensures = {
        'same-header': lambda result, ghost: S.eq(result.ctime, ghost.h.ctime) & (S.ival(result.seq) == S.ival(ghost.h.seq))
            & (S.ival(result.ack) == S.ival(ghost.h.ack)) & S.eq(result.pkt_type.value, ghost.h.pkt_type.value)
            & S.eq(result.length, ghost.h.length) & S.eq(result.count, ghost.h.count) & S.eq(result.ack_bits, ghost.h.ack_bits),
    }
