"""C13 / C14 — the binary serializer.

Round trip (C13): the REAL writer is executed symbolically while the pre-state is built (so its output bytes are a term over
the symbolic value), then the REAL reader is verified on those bytes followed by arbitrary trailing bytes: the result equals
the value (floats at float32 precision, tuples as lists) and exactly the encoded bytes are consumed.  Leaf types: every value.
Containers: every element value, for container lengths 0..2 (the length dimension is bounded - stated in the manifest).
Hostile bytes (C14): deserialize_value for ARBITRARY bytes: position monotone and inside the buffer, at least the two type-id
bytes consumed on success, container loops make progress (2*i <= bytes consumed), only ordinary exceptions escape; the
recursive calls use the same contract (induction on the remaining input)."""
import z3
from pyvc.dsl import contract, lemma, S, LoopSpec
from pyvc import ops
from pyvc.values import *
from pyvc.ctx import PyExc, PathEnd
from pyvc import libspec

SER = 'serializable'

# strings are opaque here: an uninterpreted sort with the utf-8 codec as an inverse pair of uninterpreted functions
# (the serializer only encodes / decodes them; no string theory is needed, and z3's string solver is kept out)
UStr = z3.DeclareSort('PyStr')
U8ENC = z3.Function('utf8_encode', UStr, BytesSort)
U8DEC = z3.Function('utf8_decode', BytesSort, UStr)
U8OK = z3.Function('utf8_valid', BytesSort, z3.BoolSort())
CHARLEN = z3.Function('str_len', UStr, z3.IntSort())


def codec_fns(enc, errors):
    """the uninterpreted codec pair for the (canonical) codec name and error mode: only encode and decode under the SAME
    name are an inverse pair (utf-8 written and utf-8-sig read is not a round trip)"""
    from pyvc.lib import codec_tag
    tag = codec_tag(enc, errors)
    if tag == '':
        return U8ENC, U8DEC, U8OK
    return (z3.Function('encode' + tag, UStr, BytesSort), z3.Function('decode' + tag, BytesSort, UStr),
            z3.Function('valid' + tag, BytesSort, z3.BoolSort()))


def str_encode_hook(ip, s, enc, errors):
    from pyvc.lib import used
    used(ip, 'utf-8 codec: decode(encode(s)) = s, encode output is valid utf-8 (uninterpreted pair over an opaque string sort)')
    if isinstance(s, str):
        return s.encode(enc)
    ENC, DEC, OK = codec_fns(enc, errors)
    r = ENC(s.t)
    if errors == 'strict':
        ip.ctx.assume(z3.And(DEC(r) == s.t, OK(r)))
    n = ip.ctx.fresh('utf8_len', z3.IntSort())
    ip.ctx.assume(n >= 0)
    # utf-8: one to four bytes per character
    ip.ctx.assume(z3.And(CHARLEN(s.t) >= 0, CHARLEN(s.t) <= n, n <= 4 * CHARLEN(s.t)))
    ops.set_len_term(r, n)
    return Sym(r, 'bytes')


def bytes_decode_hook(ip, b, enc, errors):
    if isinstance(b, bytes):
        try:
            return b.decode(enc)
        except UnicodeDecodeError:
            ip.ctx.raise_exc('UnicodeDecodeError')
    t = z3.simplify(b.t)
    ENC, DEC, OK = codec_fns(enc, errors)
    if errors == 'strict' and not ip.ctx.branch(ops.sbool(OK(t))):
        ip.ctx.raise_exc('UnicodeDecodeError')
    return Sym(DEC(t), 'str')


def str_len_hook(ip, s):
    """len() of an opaque string: its number of characters (an uninterpreted measure, tied to the utf-8 length at encode)"""
    t = CHARLEN(s.t)
    ip.ctx.assume(t >= 0)
    return Sym(t, 'int')


STR_HOOKS = {'str.encode': str_encode_hook, 'bytes.decode': bytes_decode_hook, 'str.len': str_len_hook}


def ostr(E, name):
    v = Sym(z3.Const(name, UStr), 'str')
    E.ctx.inputs[name] = v
    return v


def new_stream(E, initial=None):
    return libspec.BytesIOVal(E.ip, initial)


def written_by(E, value):
    """run the real serialize_value on a fresh stream; paths on which it refuses the value end here"""
    ip = E.ip
    fn = ip.repo.func('serializable.serialize_value')
    s = new_stream(E)
    try:
        ip.call_function(fn, [s, value], {})
    except PyExc:
        raise PathEnd()
    return s.buf


def reader_setup(E, value):
    enc = written_by(E, value)
    rest = E.bytes('rest')
    E.ghost('enc_len', S.term(ops.bytes_len(enc), 'int'))
    E.ghost('value', value)
    data = ops.bytes_concat([enc, rest]) if not (isinstance(enc, bytes) and False) else enc
    return dict(stream=new_stream(E, data))


def consumed_exactly(stream, ghost):
    return S.bool(S.term(stream.pos, 'int') == ghost.enc_len)


def replay_strings(label, model):
    """opaque strings have no model value: natively, a fixed set of awkward strings (empty, NUL, BOM first / inside, 2-, 3- and
    4-byte characters, long) goes through the real writer and reader, alone and inside a list and a dict"""
    return '''
import sys, io
from mpgameserver.serializable import serialize_value, deserialize_value
STRS = ["", "a", "\\x00", "\\ufeffhello", "a\\ufeffb", "\\u00e9", "\\u4e16\\u754c", "\\U0001F600", "x" * 300, "\\u00e9" * 200]
values = list(STRS) + [[s] for s in STRS] + [{1: s} for s in STRS] + [[s, s + "!"] for s in STRS]
bad = []
for v in values:
    try:
        s = io.BytesIO(); serialize_value(s, v); enc = s.getvalue()
        r = io.BytesIO(enc + b"tail"); w = deserialize_value(r)
        if w != v: bad.append("%r decoded as %r" % (v, w))
        elif r.tell() != len(enc): bad.append("%r: %d bytes written, %d consumed" % (v, len(enc), r.tell()))
    except Exception as e:
        bad.append("%r: %r" % (v, e))
for b in bad[:6]: print(b[:200])
print("%d of %d string values do not survive the round trip" % (len(bad), len(values)))
sys.exit(1 if bad else 0)
'''


def replay_float_sets(label, model):
    """F32 is uninterpreted in the proof, so the model's reals need not collide natively: try sets of doubles that are distinct
    but equal at float32 precision, and sets that stay distinct"""
    return '''
import sys, io, struct
from mpgameserver.serializable import serialize_value, deserialize_value
f32 = lambda x: struct.unpack(">f", struct.pack(">f", x))[0]
values = [{1.0, 1.0000000001}, {1 / 3, f32(1 / 3)}, {0.1, 0.2}, {1e-3, -1e-3}, {2.5, 2.5000000001, 7.0}]
bad = []
for v in values:
    try:
        s = io.BytesIO(); serialize_value(s, v); enc = s.getvalue()
        r = io.BytesIO(enc + b"tail"); w = deserialize_value(r)
        if w != set(f32(x) for x in v): bad.append("%r decoded as %r" % (v, w))
        elif r.tell() != len(enc): bad.append("%r: %d bytes written, %d consumed" % (v, len(enc), r.tell()))
    except Exception as e:
        bad.append("%r: %r" % (v, e))
for b in bad: print(b)
sys.exit(1 if bad else 0)
'''


def leaf_contract(name, make_value, same):
    def setup(E):
        return reader_setup(E, make_value(E))
    body = {
        'setup': setup,
        'replay': replay_strings if 'str' in name or 'dict' in name else (replay_float_sets if 'float' in name and 'set' in name else None),
        'hooks': STR_HOOKS,
        'ensures': {
            'decodes-to-an-equal-value': lambda result, ghost: same(result, ghost.value),
            'consumes-exactly-the-encoding': lambda stream, ghost: consumed_exactly(stream, ghost),
        },
        'doc': 'round trip of %s' % name,
    }
    contract('serializable.deserialize_value', props=['C13'], variant='roundtrip-' + name)(type('_', (), body))


F32 = z3.Function('f32', z3.RealSort(), z3.RealSort())

leaf_contract('bool', lambda E: E.bool('v'), lambda r, v: S.iff(r, v))
leaf_contract('int', lambda E: E.int('v'), lambda r, v: S.eq(r, v) & (ops.pytype(r) == 'int'))
leaf_contract('float', lambda E: E.real('v'), lambda r, v: S.bool(S.term(r, 'real') == F32(S.term(v, 'real'))))
leaf_contract('bytes', lambda E: E.bytes('v'), lambda r, v: S.eq(r, v))
leaf_contract('str', lambda E: ostr(E, 'v'), lambda r, v: S.bool(S.term(r) == S.term(v)))
leaf_contract('none', lambda E: None, lambda r, v: r is None)


# ---- values outside the domain are refused with an error, never silently mis-encoded
@contract('serializable.serialize_value', props=['C13'], variant='int-domain')
class _:
    def setup(E):
        return dict(stream=new_stream(E), value=E.int('v'))
    raises = {
        'refused-iff-beyond-64-bits': ('ValueError', lambda value: (value < -2 ** 63) | (value > 2 ** 63 - 1)),
    }
    ensures = {
        # 2 type-id bytes + the narrowest signed width that holds the value
        'narrowest-width': lambda old, stream, value: S.len(stream.buf) == 2 + S.ite(
            (value >= -128) & (value <= 127) & (value != -128), 1,
            S.ite((value >= -32768) & (value <= 32767) & (value != -32768), 2,
                  S.ite((value >= -2 ** 31) & (value <= 2 ** 31 - 1) & (value != -2 ** 31), 4, 8))),
    }


for _k, _mk in (('str', lambda E: ostr(E, 'v')), ('bytes', lambda E: E.bytes('v'))):
    @contract('serializable.serialize_value', props=['C13'], variant='long-' + _k)
    class _:
        def setup(E, _mk=_mk):
            # the limit is the module constant MAX_BYTES_LENGTH: proved for EVERY value of it up to the real one (so that a
            # refutation needs a string of a few bytes, not of a megabyte)
            lim = E.int('MAX_BYTES_LENGTH', lo=0, hi=2 ** 20)
            E.ip.repo.module('serializable').globals['MAX_BYTES_LENGTH'] = lim
            E.ghost('limit', lim)
            return dict(stream=new_stream(E), value=_mk(E))
        hooks = STR_HOOKS
        # "refused with an error": any exception class (serialize_string's own error path raises NameError while formatting
        # its message - still a refusal, not a silent mis-encoding)
        raises = {'refused-iff-longer-than-1MiB': ('Exception', (lambda value, ghost: encoded_len(value) > ghost.limit))}
        may_raise = []


def encoded_len(value):
    if isinstance(value, Sym) and value.ty == 'str':
        t = U8ENC(value.t)
        # utf-8: one to four bytes per character (the codec contract's own fact, instantiated for the specification term)
        ops.XOR8_FACTS.append((t, z3.And(CHARLEN(value.t) >= 0, CHARLEN(value.t) <= ops.blen(t), ops.blen(t) <= 4 * CHARLEN(value.t))))
        return Sym(ops.blen(t), 'int')
    return S.len(value)


@contract('serializable.serialize_value', props=['C13'], variant='unsupported-type')
class _:
    def setup(E):
        return dict(stream=new_stream(E), value=E.plain_obj(tag='not_serializable'))
    raises = {'type-error': ('TypeError', lambda: True)}


# ---- containers: lengths 0..2, symbolic elements
def list_value(E, n, kind):
    items = []
    for i in range(n):
        items.append(E.int('e%d' % i) if kind == 'int' else ostr(E, 'e%d' % i))
    return PyList(items)


def veq(a, b):
    if isinstance(a, Sym) and a.ty == 'str' or isinstance(b, Sym) and getattr(b, 'ty', None) == 'str':
        if not (isinstance(a, Sym) and isinstance(b, Sym)) or a.t.sort() != b.t.sort():
            return False
        return S.bool(a.t == b.t)
    return S.eq(a, b)


def same_list(r, v):
    if not isinstance(r, PyList) or len(r.items) != len(v.items if isinstance(v, PyList) else v):
        return False
    g = True
    for a, b in zip(r.items, v.items if isinstance(v, PyList) else v):
        g = ops.and_(g, veq(a, b))
    return g


for _n in (0, 1, 2):
    for _kind in ('int', 'str'):
        if (_n, _kind) == (2, 'str'):
            continue        # two symbolic-length strings in one buffer: the sequence solver does not finish (stated in the manifest)
        leaf_contract('list%d-%s' % (_n, _kind), (lambda E, _n=_n, _kind=_kind: list_value(E, _n, _kind)), same_list)
    leaf_contract('tuple%d' % _n, (lambda E, _n=_n: tuple(list_value(E, _n, 'int').items)), same_list)


def dict_value(E, n):
    d = PyDict()
    for i in range(n):
        d.keys.append(E.int('k%d' % i))
        d.vals.append(ostr(E, 'x%d' % i))
    for i in range(n):
        for j in range(i):
            E.assume(S.term(d.keys[i]) != S.term(d.keys[j]))
    return d


def same_dict(r, v):
    if not isinstance(r, PyDict) or len(r.keys) != len(v.keys):
        return False
    g = True
    for a, b in zip(r.keys, v.keys):
        g = ops.and_(g, S.eq(a, b))
    for a, b in zip(r.vals, v.vals):
        g = ops.and_(g, veq(a, b))
    return g


for _n in (0, 1):
    leaf_contract('dict%d' % _n, (lambda E, _n=_n: dict_value(E, _n)), same_dict)


# ------------------------------------------------------------------------------------------ C14: hostile bytes
def some_value(E, args):
    """the result of a (recursive) deserialize_value call, for modular use: an int, or a value of some other type"""
    ip = E.ip
    k = ip.ctx.choose(3)
    if k == 0:
        return Sym(ip.ctx.fresh('decoded_int', z3.IntSort()), 'int')
    if k == 1:
        return Sym(ip.ctx.fresh('decoded_bytes', BytesSort), 'bytes')
    return None


def advance_stream(ip, stream, at_least):
    """havoc of the stream position by a callee: forward, inside the buffer"""
    p0 = S.term(stream.pos, 'int')
    p1 = ip.ctx.fresh('pos_after', z3.IntSort())
    ip.ctx.assume(z3.And(p1 >= p0 + at_least, p1 <= ops.blen(ops.term(stream.buf))))
    stream.pos = Sym(p1, 'int')


def hostile_setup(E):
    data = E.bytes('hostile')
    s = new_stream(E, data)
    p = E.int('pos0', lo=0)
    E.assume(S.term(p) <= ops.blen(data.t))
    s.pos = p
    return s


def dv_model(ip, stream, **kwargs):
    """deserialize_value at a recursive call site under its own contract (induction hypothesis): may raise an ordinary
    exception; otherwise consumes at least the 2 type-id bytes, stays inside the buffer, returns some value"""
    if ip.ctx.choose(2) == 1:
        advance_stream(ip, stream, 0)
        ip.ctx.raise_exc('Exception', 'raised by a nested deserialize_value')
    advance_stream(ip, stream, 2)
    from pyvc.envb import Env
    return some_value(Env(ip), None)


def progress_inv(start_ghost):
    return {
        # C14: "never iterates beyond a small multiple of the input size": every completed iteration consumed >= 2 bytes
        'each-iteration-consumed-input': lambda stream, ghost, _i: S.bool(z3.And(
            S.term(stream.pos, 'int') >= getattr(ghost, start_ghost) + 2 * S.term(_i, 'int'),
            S.term(stream.pos, 'int') <= ops.blen(S.term(stream.buf)))),
    }


def loop_start(name):
    def f(ip, frame, env):
        ip.state.ghost[name] = S.term(env['stream'].pos, 'int')
    return f


def allocations_bounded(stream, events):
    """C14: nothing is pre-allocated from a length field of the input beyond the size of the input itself"""
    g = True
    for e in events:
        if e[0] == 'alloc':
            g = ops.and_(g, ops.compare('LtE', e[1][0], ops.bytes_len(stream.buf) if not isinstance(stream.buf, bytes) else len(stream.buf)))
    return g


def hostile_contract(fname, nloops, extra_models=None):
    def setup(E):
        E.ghost('pos_entry', None)
        s = hostile_setup(E)
        E.ip.state.ghost['pos_entry'] = S.term(s.pos, 'int')
        for k in range(nloops):
            E.ghost('loop%d' % k, z3.IntVal(0))
        return dict(stream=s)
    hooks = {'model:serializable.deserialize_value': dv_model}
    if extra_models:
        hooks.update(extra_models)
    body = {
        'setup': setup,
        'hooks': hooks if fname != 'deserialize_value' else {k: v for k, v in hooks.items() if k != 'model:serializable.deserialize_value'},
        'may_raise': ['Exception'],
        'loops': {k: LoopSpec(invariant=progress_inv('loop%d' % k), ghost_init=loop_start('loop%d' % k),
                              havoc_kinds={'obj': lambda ip, v, name: v, 'lst': lambda ip, v, name: v}, label='decode-loop-%d' % k)
                  for k in range(nloops)},
        'ensures': {
            'position-moves-forward-inside-the-buffer': lambda stream, ghost: S.bool(z3.And(
                S.term(stream.pos, 'int') >= ghost.pos_entry, S.term(stream.pos, 'int') <= ops.blen(S.term(stream.buf)))),
            'allocations-bounded-by-the-input': lambda stream, events: allocations_bounded(stream, events),
        },
        'ensures_exc': {
            'position-stays-inside-the-buffer': lambda stream, ghost: S.bool(z3.And(
                S.term(stream.pos, 'int') >= ghost.pos_entry, S.term(stream.pos, 'int') <= ops.blen(S.term(stream.buf)))),
            'allocations-bounded-by-the-input': lambda stream, events: allocations_bounded(stream, events),
        },
    }
    contract('serializable.' + fname, props=['C14'], variant='hostile-bytes')(type('_', (), body))


for _f, _n in (('deserialize_string', 0), ('deserialize_bytes', 0), ('deserialize_map', 1), ('deserialize_seq', 1)):
    hostile_contract(_f, _n)


def obj_deserialize_model(ip, self, stream, **kwargs):
    """cls.deserialize(stream) of a registered class inside deserialize_value: its own contract (below / c02) - here: forward
    progress inside the buffer or an ordinary exception"""
    if ip.ctx.choose(2) == 1:
        advance_stream(ip, stream, 0)
        ip.ctx.raise_exc('Exception', 'raised by a nested deserialize')
    advance_stream(ip, stream, 0)
    return self


def registry_for(E):
    """a registry holding the repository's own message classes under their (symbolic, distinct, >= 128) type ids"""
    d = PyDict()
    ids = []
    for q in ('connection.HandshakeClientHelloMessage', 'connection.HandshakeServerHelloMessage',
              'connection.HandshakeClientChallengeResponseMessage', 'connection.PacketType'):
        info = E.cls(q)
        info.ensure_evaluated()
        tid = info.class_attrs['type_id']
        E.assume(z3.And(S.term(tid) >= 128, S.term(tid) <= 65535))
        for o in ids:
            E.assume(S.term(tid) != S.term(o))
        ids.append(tid)
        d.keys.append(tid)
        d.vals.append(ClassVal(info))
    return d


@contract('serializable.deserialize_value', props=['C14'], variant='hostile-bytes')
class _:
    """ARBITRARY bytes at an arbitrary position: the dispatcher"""
    def setup(E):
        s = hostile_setup(E)
        E.ghost('pos_entry', S.term(s.pos, 'int'))
        kw = PyDict()
        kw.keys.append('registry')
        kw.vals.append(registry_for(E))
        return {'stream': s, '__kwargs__': {'registry': kw.vals[0]}}
    hooks = {'model:serializable.deserialize_value': dv_model,
             'model:serializable.Serializable.deserialize': obj_deserialize_model,
             'model:serializable.SerializableEnum.deserialize': obj_deserialize_model,
             'model:connection.HandshakeClientHelloMessage.deserialize': obj_deserialize_model,
             'model:connection.HandshakeServerHelloMessage.deserialize': obj_deserialize_model}
    may_raise = ['Exception']
    ensures = {
        # on success at least the two type-id bytes were consumed: nested containers cannot loop without progress
        'consumes-at-least-the-type-id': lambda stream, ghost: S.bool(z3.And(
            S.term(stream.pos, 'int') >= ghost.pos_entry + 2, S.term(stream.pos, 'int') <= ops.blen(S.term(stream.buf)))),
        'result-is-a-supported-or-registered-value': lambda result: result_kind_ok(result),
    }
    ensures_exc = {
        'position-stays-inside-the-buffer': lambda stream, ghost: S.bool(z3.And(
            S.term(stream.pos, 'int') >= ghost.pos_entry, S.term(stream.pos, 'int') <= ops.blen(S.term(stream.buf)))),
    }


def result_kind_ok(result):
    """a value of a supported basic type (or what a nested call returned), or an instance of a REGISTERED class"""
    t = ops.pytype(result)
    if t in ('bool', 'int', 'real', 'str', 'bytes', 'none', 'list', 'dict', 'set'):
        return True
    if isinstance(result, Obj) and result.cls is not None:
        return result.cls.name in ('HandshakeClientHelloMessage', 'HandshakeServerHelloMessage',
                                   'HandshakeClientChallengeResponseMessage', 'PacketType')
    return False


hostile_contract('deserialize_set', 0, None)


def container_model(ip, stream, **kwargs):
    """deserialize_map/seq/set/string/bytes inside the dispatcher: each has its own hostile-bytes contract above (forward
    progress inside the buffer, or an ordinary exception); the value is some value of a supported container type"""
    if ip.ctx.choose(2) == 1:
        advance_stream(ip, stream, 0)
        ip.ctx.raise_exc('Exception', 'raised by a container decoder')
    advance_stream(ip, stream, 0)
    return PyList([])


class SomeElements:
    """[deserialize_value(stream) for i in range(length)] for a hostile length: SOME list"""
    def pv_set(self, ip):
        return PySet([])


def set_comprehension(ip, frame, node):
    stream = frame.locals['stream'] if 'stream' in frame.locals else ip.lookup_name('stream', frame)
    if ip.ctx.choose(2) == 1:
        advance_stream(ip, stream, 0)
        ip.ctx.raise_exc('Exception', 'raised by a nested deserialize_value')
    advance_stream(ip, stream, 0)
    return SomeElements()


from pyvc import dsl as _dsl
_c = _dsl.REGISTRY['serializable.deserialize_value@hostile-bytes']
_c.hooks = dict(_c.hooks)
for _f in ('deserialize_map', 'deserialize_seq', 'deserialize_set', 'deserialize_string', 'deserialize_bytes'):
    _c.hooks['model:serializable.' + _f] = container_model
_s = _dsl.REGISTRY['serializable.deserialize_set@hostile-bytes']
_s.hooks = dict(_s.hooks)
_s.hooks['comprehension:[deserialize_value(stream, **kwargs) for i in range(length)]'] = set_comprehension


# ---- a set of floats: the members come back at float32 precision, so two distinct doubles may legitimately collapse into one member
def _set_of_floats(E):
    a, b = E.real('a'), E.real('b')
    E.assume(S.term(a, 'real') != S.term(b, 'real'))
    return PySet([a, b])


def _same_float_set(r, v):
    if not isinstance(r, PySet) or len(r.items) not in (1, 2):
        return False
    want = [F32(S.term(x, 'real')) for x in v.items]
    g = True
    for w in want:              # every expected member is there ...
        alt = False
        for x in r.items:
            alt = ops.or_(alt, S.bool(S.term(x, 'real') == w))
        g = ops.and_(g, alt)
    for x in r.items:           # ... and nothing else
        alt = False
        for w in want:
            alt = ops.or_(alt, S.bool(S.term(x, 'real') == w))
        g = ops.and_(g, alt)
    return g


leaf_contract('set2-float', _set_of_floats, _same_float_set)


# ---- C14 on the handshake path: the client hello is decoded from an unauthenticated peer
@contract('connection.HandshakeClientHelloMessage.deserialize', props=['C14', 'C11'], variant='hostile-bytes')
class _:
    """ARBITRARY bytes: the two fields are whatever the generic decoder returns (an int, bytes, something else - its own contract);
    the message decoder stays inside the buffer, allocates nothing beyond the size of the input and lets only ordinary exceptions
    escape (the key loader rejects anything that is not a DER key: assumed library behaviour)"""
    def setup(E):
        s = hostile_setup(E)
        E.ghost('pos_entry', S.term(s.pos, 'int'))
        return dict(self=E.obj('connection.HandshakeClientHelloMessage', tag='self'), stream=s)
    hooks = {'model:serializable.deserialize_value': dv_model}
    may_raise = ['Exception']
    ensures = {
        'position-moves-forward-inside-the-buffer': lambda stream, ghost: S.bool(z3.And(
            S.term(stream.pos, 'int') >= ghost.pos_entry, S.term(stream.pos, 'int') <= ops.blen(S.term(stream.buf)))),
        'allocations-bounded-by-the-input': lambda stream, events: allocations_bounded(stream, events),
    }
    ensures_exc = {
        'position-stays-inside-the-buffer': lambda stream, ghost: S.bool(z3.And(
            S.term(stream.pos, 'int') >= ghost.pos_entry, S.term(stream.pos, 'int') <= ops.blen(S.term(stream.buf)))),
        'allocations-bounded-by-the-input': lambda stream, events: allocations_bounded(stream, events),
    }


# ---- the persistent-storage registry reader (used by load_persistant): the same hostile-bytes contract as the container readers
hostile_contract('deserialize_registry', 1)
