"""C20 — dispatcher: view V : class name -> handler (self.registered_events as a symbolic map str -> callable).
Event annotations are either class objects or strings (postponed annotations): EventType carries both cases.
Reflection (dir / getattr / inspect.isroutine / hasattr) runs over a ghost attribute table of the resource:
names[0..n), isroutine(name), has_event(name), is_class(name), evname(name), fnref(name)."""
import z3
from pyvc.dsl import contract, lemma, S, LoopSpec
from pyvc import ops
from pyvc.values import *

MD = 'dispatch.MessageDispatcher'
SMD = 'dispatch.ServerMessageDispatcher'
CMD = 'dispatch.ClientMessageDispatcher'
Str, Int, Bool = z3.StringSort(), z3.IntSort(), z3.BoolSort()

ISROUTINE = z3.Function('isroutine', Str, Bool)
HASEVENT = z3.Function('has_event', Str, Bool)
ISCLASS = z3.Function('annotation_is_class', Str, Bool)
EVNAME = z3.Function('event_class_name', Str, Str)
FNREF = z3.Function('bound_method_ref', Str, Int)


class EventType:
    """the value of method._event / of the event_type parameter: a class object (is_type) or a string"""
    def __init__(self, is_type, name):
        self.is_type = is_type
        self.name = name

    def pv_isinstance(self, ip, t):
        if isinstance(t, BuiltinType) and t.name == 'type':
            return ops.sbool(self.is_type)
        if isinstance(t, BuiltinType) and t.name == 'str':
            return ops.sbool(z3.Not(self.is_type))
        return NotImplemented

    def pv_getattr(self, ip, name):
        if name == '__name__':
            ip.ctx.raise_if(ops.sbool(z3.Not(self.is_type)), 'AttributeError', "'str' object has no attribute '__name__'")
            return Sym(self.name, 'str')
        ip.ctx.raise_exc('AttributeError', name)

    def pv_key(self, kind):
        if kind.ty == 'str':
            return (z3.Not(self.is_type), self.name)      # a class object never equals a string key
        return None


class ReflAttr:
    """getattr(resource, name) for a symbolic attribute name"""
    def __init__(self, nm):
        self.nm = nm

    def pv_getattr(self, ip, name):
        if name == '_event':
            ip.ctx.raise_if(ops.sbool(z3.Not(HASEVENT(self.nm))), 'AttributeError', '_event')
            return EventType(ISCLASS(self.nm), EVNAME(self.nm))
        ip.ctx.raise_exc('AttributeError', name)

    def pv_key(self, kind):
        if kind.ty == 'fn':
            return (True, FNREF(self.nm))
        return None


class Resource:
    def __init__(self, names):
        self.names = names

    def pv_dir(self, ip):
        return self.names.copy()

    def pv_getattr_sym(self, ip, name, default):
        return ReflAttr(name.t)


class Msg:
    """a message whose class is known only by its (symbolic) name"""
    def __init__(self, clsname):
        self.clsname = clsname

    def pv_type(self, ip):
        return MsgType(self.clsname)


class MsgType:
    """a message class known by its name; it derives from some other message class (symbolic name), then object"""
    def __init__(self, name, base=True):
        self.name = name
        self.base = base

    def pv_getattr(self, ip, name):
        if name == '__name__':
            return Sym(self.name, 'str')
        if name in ('__mro__', '__bases__'):
            b = MsgType(z3.String('msg_base_class_name'), base=False) if self.base else None
            chain = ([self] if name == '__mro__' else []) + ([b] if b is not None else []) + \
                    ([BuiltinType.get('object')] if name == '__mro__' or b is None else [])
            return tuple(chain)
        ip.ctx.raise_exc('AttributeError', name)


def isroutine_hook(ip, fn, args, kwargs):
    a = args[0]
    if isinstance(a, ReflAttr):
        return ops.sbool(ISROUTINE(a.nm))
    return NotImplemented


HOOKS = {'opaque:inspect.isroutine': isroutine_hook}


def dispatcher(E, cls=MD):
    V = E.symmap('V', E.kind('str'), E.kind('fn'))
    return E.obj(cls, tag='self', registered_events=V)


def key_of(event_type):
    return event_type.name if isinstance(event_type, EventType) else event_type.t


def ref_of(fn):
    if isinstance(fn, SymFn):
        return fn.ref
    if isinstance(fn, ReflAttr):
        return FNREF(fn.nm)
    raise ops.Unsupported('handler value %r' % (fn,))


def dom(m, k):
    return z3.Select(m.dom, k)


def val(m, k):
    return z3.Select(m.val, k)


def event_arg(E, name='ev'):
    return EventType(z3.Bool(name + '_is_class'), z3.String(name + '_name'))


# ------------------------------------------------------------------------------------------ register_function
@contract('dispatch.MessageDispatcher.register_function', props=['C20'])
class _:
    def setup(E):
        fn = SymFn(z3.Int('fn'))
        E.assume(fn.ref > 0)
        return dict(self=dispatcher(E), event_type=event_arg(E), fn=fn)
    skolems = {'k': 'str'}
    raises = {
        # "registering a second handler for the same class is refused"
        'refused-iff-already-registered': ('Exception', lambda old, event_type: S.bool(dom(old.self.registered_events, key_of(event_type)))),
    }
    ensures = {
        'view-updated': lambda old, self, event_type, fn, k: S.bool(z3.And(
            dom(self.registered_events, k.t) == z3.Or(dom(old.self.registered_events, k.t), k.t == key_of(event_type)),
            z3.Implies(k.t == key_of(event_type), val(self.registered_events, k.t) == ref_of(fn)),
            z3.Implies(z3.And(k.t != key_of(event_type), dom(old.self.registered_events, k.t)),
                       val(self.registered_events, k.t) == val(old.self.registered_events, k.t)))),
    }
    ensures_exc = {
        'unchanged-on-refusal': lambda old, self, k: S.bool(z3.And(
            dom(self.registered_events, k.t) == dom(old.self.registered_events, k.t),
            z3.Implies(dom(old.self.registered_events, k.t), val(self.registered_events, k.t) == val(old.self.registered_events, k.t)))),
    }
    modifies = ['self.registered_events']


@contract('dispatch.MessageDispatcher.unregister_function', props=['C20'])
class _:
    def setup(E):
        return dict(self=dispatcher(E), event_type=event_arg(E))
    skolems = {'k': 'str'}
    raises = {
        # a registered event can be unregistered: an exception only when nothing is registered for it
        'raises-only-when-not-registered': ('Exception', lambda old, event_type: S.bool(z3.Not(dom(old.self.registered_events, key_of(event_type))))),
    }
    ensures = {
        'view-removed': lambda old, self, event_type, k: S.bool(z3.And(
            dom(self.registered_events, k.t) == z3.And(dom(old.self.registered_events, k.t), k.t != key_of(event_type)),
            z3.Implies(dom(self.registered_events, k.t), val(self.registered_events, k.t) == val(old.self.registered_events, k.t)))),
    }
    ensures_exc = {
        'unchanged-on-raise': lambda old, self, k: S.bool(dom(self.registered_events, k.t) == dom(old.self.registered_events, k.t)),
    }
    modifies = ['self.registered_events']


# ------------------------------------------------------------------------------------------ dispatch (server and client)
def symfn_events(events):
    return [e for e in events if e[0] == 'symfn']


def dispatch_contract(qual, nargs):
    def setup(E):
        args = dict(self=dispatcher(E, qual.rsplit('.', 1)[0]))
        if nargs == 3:
            args['client'] = E.plain_obj(tag='client')
        args['seqnum'] = E.int('seqnum')
        args['msg'] = Msg(z3.String('msg_class_name'))
        # object invariant of the dispatcher, instantiated at the key looked up: registered handlers are callables
        V = args['self'].attrs['registered_events']
        E.assume(z3.Implies(dom(V, z3.String('msg_class_name')), val(V, z3.String('msg_class_name')) > 0))
        return args

    def called_exactly(old, events, msg, seqnum, client=None):
        ev = symfn_events(events)
        if len(ev) != 1:
            return False
        _, ref, a, kw = ev[0]
        want = (client, seqnum, msg) if nargs == 3 else (seqnum, msg)
        same_args = len(a) == len(want) and all(x is y for x, y in zip(a, want)) and not kw
        return S.bool(ref == val(old.self.registered_events, msg.clsname)) & same_args

    body = {
        'setup': setup,
        'raises': {'dispatch-error-iff-unregistered': ('DispatchError', lambda old, msg: S.bool(z3.Not(dom(old.self.registered_events, msg.clsname))))},
        'ensures': {'exactly-the-registered-handler-once-args-unchanged':
                    (lambda old, events, msg, seqnum, client: called_exactly(old, events, msg, seqnum, client)) if nargs == 3
                    else (lambda old, events, msg, seqnum: called_exactly(old, events, msg, seqnum))},
        'ensures_exc': {'nothing-called': lambda events: len(symfn_events(events)) == 0},
        'modifies': [],
    }
    contract(qual, props=['C20'])(type('_', (), body))


dispatch_contract('dispatch.ServerMessageDispatcher.dispatch', 3)
dispatch_contract('dispatch.ClientMessageDispatcher.dispatch', 2)


# ------------------------------------------------------------------------------------------ register / unregister (resource)
def resource_setup(E):
    names = E.symseq('attr_names', E.kind('str'))
    js = E.int('js', lo=0)
    E.assume(S.term(js) < names.n)
    # the callee's pointwise postconditions are needed at the event key of attribute js as well as at the Skolem k
    E.instance('k', Sym(EVNAME(name_at(names, S.term(js))), 'str'))
    return dict(self=dispatcher(E), resource=Resource(names)), names, js


def is_event(nm):
    return z3.And(ISROUTINE(nm), HASEVENT(nm))


def name_at(names, j):
    return z3.Select(names.arr, j)


def no_key_inst(ip, frame, env):
    """the Skolem key k is, by hypothesis, not the event key of ANY attribute: instantiate at the current index"""
    k = env['k']
    names = env['resource'].names
    i = S.term(env['_i'], 'int')
    ip.ctx.assume(z3.Implies(z3.And(env['ghost'].k_foreign, is_event(name_at(names, i))), EVNAME(name_at(names, i)) != k.t))


@contract('dispatch.MessageDispatcher.unregister', props=['C20'])
class _:
    def setup(E):
        args, names, js = resource_setup(E)
        E.ghost('k_foreign', z3.Bool('k_foreign'))
        E.ghost('js', S.term(js))
        return args
    skolems = {'k': 'str'}
    uses = ['dispatch.MessageDispatcher.unregister_function']
    hooks = HOOKS
    loops = {0: LoopSpec(
        invariant={
            'removed-so-far': lambda self, resource, ghost, _i: S.bool(z3.Implies(
                z3.And(_iv(_i) > ghost.js, is_event(name_at(resource.names, ghost.js))),
                z3.Not(dom(self.registered_events, EVNAME(name_at(resource.names, ghost.js)))))),
            'foreign-keys-untouched': lambda old, self, ghost, k: S.bool(z3.Implies(ghost.k_foreign, z3.And(
                dom(self.registered_events, k.t) == dom(old.self.registered_events, k.t),
                z3.Implies(dom(old.self.registered_events, k.t), val(self.registered_events, k.t) == val(old.self.registered_events, k.t))))),
            'only-removals': lambda old, self, k: S.bool(z3.Implies(dom(self.registered_events, k.t), z3.And(
                dom(old.self.registered_events, k.t), val(self.registered_events, k.t) == val(old.self.registered_events, k.t)))),
        },
        havoc=['self.registered_events'], ghost_pre=no_key_inst, label='for-name-in-dir')}
    ensures = {
        # "after unregister(resource) that resource's handlers are no longer invoked": none of its event classes is in V
        'resource-events-removed': lambda self, resource, ghost: S.bool(z3.Implies(
            is_event(name_at(resource.names, ghost.js)), z3.Not(dom(self.registered_events, EVNAME(name_at(resource.names, ghost.js)))))),
        'other-handlers-kept': lambda old, self, ghost, k: S.bool(z3.Implies(ghost.k_foreign, z3.And(
            dom(self.registered_events, k.t) == dom(old.self.registered_events, k.t),
            z3.Implies(dom(old.self.registered_events, k.t), val(self.registered_events, k.t) == val(old.self.registered_events, k.t))))),
    }
    modifies = ['self.registered_events']


def _iv(i):
    return S.term(i, 'int')


@contract('dispatch.MessageDispatcher.register', props=['C20'])
class _:
    def setup(E):
        args, names, js = resource_setup(E)
        E.ghost('k_foreign', z3.Bool('k_foreign'))
        E.ghost('js', S.term(js))
        return args
    skolems = {'k': 'str'}
    uses = ['dispatch.MessageDispatcher.register_function', 'dispatch.MessageDispatcher.unregister']
    hooks = HOOKS
    may_raise = ['Exception']        # refusal of a duplicate (register_function's contract says exactly when)
    ensures_exc = {
        # a refused registration leaves every handler that was registered before in place
        'refusal-keeps-earlier-handlers': lambda old, self, k: S.bool(z3.Implies(dom(old.self.registered_events, k.t), z3.And(
            dom(self.registered_events, k.t), val(self.registered_events, k.t) == val(old.self.registered_events, k.t)))),
    }
    loops = {0: LoopSpec(
        invariant={
            'registered-so-far': lambda self, resource, ghost, _i: S.bool(z3.Implies(
                z3.And(_iv(_i) > ghost.js, is_event(name_at(resource.names, ghost.js))),
                z3.And(dom(self.registered_events, EVNAME(name_at(resource.names, ghost.js))),
                       val(self.registered_events, EVNAME(name_at(resource.names, ghost.js))) == FNREF(name_at(resource.names, ghost.js))))),
            'foreign-keys-untouched': lambda old, self, ghost, k: S.bool(z3.Implies(ghost.k_foreign, z3.And(
                dom(self.registered_events, k.t) == dom(old.self.registered_events, k.t),
                z3.Implies(dom(old.self.registered_events, k.t), val(self.registered_events, k.t) == val(old.self.registered_events, k.t))))),
            'old-handlers-kept': lambda old, self, k: S.bool(z3.Implies(dom(old.self.registered_events, k.t), z3.And(
                dom(self.registered_events, k.t), val(self.registered_events, k.t) == val(old.self.registered_events, k.t)))),
        },
        havoc=['self.registered_events'], ghost_pre=no_key_inst, label='for-name-in-dir')}
    ensures = {
        'every-event-method-registered': lambda self, resource, ghost: S.bool(z3.Implies(
            is_event(name_at(resource.names, ghost.js)),
            z3.And(dom(self.registered_events, EVNAME(name_at(resource.names, ghost.js))),
                   val(self.registered_events, EVNAME(name_at(resource.names, ghost.js))) == FNREF(name_at(resource.names, ghost.js))))),
        'other-handlers-kept': lambda old, self, ghost, k: S.bool(z3.Implies(ghost.k_foreign, z3.And(
            dom(self.registered_events, k.t) == dom(old.self.registered_events, k.t),
            z3.Implies(dom(old.self.registered_events, k.t), val(self.registered_events, k.t) == val(old.self.registered_events, k.t))))),
    }
    modifies = ['self.registered_events']
