"""C08 — receive window: BitField.__init__/insert/contains, for a *symbolic* width W (multiple of 8, 8..256).

Ghost view g_recv = the set of sequence numbers received and still inside the window, given by the
abstraction function over the concrete state (written from the property statement, "the newest W and
the current one"):
    recv(cur, bits, W)(x)  :<=>  cur != 0  and 1 <= x <= M and ( x = cur  or  1 <= d <= W and bit(bits, W-d) ),  d = (cur - x) mod M
Object invariant I: bits has no bit at or above W; cur = 0 => bits = 0; mask = 2^W-1; onehot = 2^(W-1).
All clauses are checked pointwise at Skolem constants (x, j): no quantifier reaches the solver."""
import z3
from pyvc.dsl import contract, lemma, S, LoopSpec
from pyvc import ops
from pyvc.values import BitSet, Sym

SEQ = 'connection.SeqNum'
BF = 'connection.BitField'


def recv(cur, bits, W, x):
    """abstraction function: x is in the view of (cur, bits, W)"""
    d = S.rdist(cur, x)
    return (S.ival(cur) != 0) & (1 <= x) & (x <= S.M) & ((x == S.ival(cur)) | ((1 <= d) & (d <= W) & S.bit(bits, W - d)))


def make_bitfield(E, name='self', W=None):
    W = W if W is not None else E.int('W', lo=8, hi=256)
    E.assume(S.term(W) % 8 == 0) if isinstance(W, Sym) else None
    cur = E.int(name + '_cur', cls=SEQ, lo=0, hi=S.M)
    raw = E.pred(name + '_bits', z3.IntSort(), z3.BoolSort())
    Wt, ct = S.term(W, 'int'), S.term(cur, 'int')
    # invariant by construction: only bits below W; nothing recorded while cur = 0
    bits = E.bitset(name + '_bits', fn=lambda j: z3.And(j >= 0, j < Wt, ct != 0, raw(j)))
    return E.obj(BF, tag=name, nbits=W, bits=bits, current_seqnum=cur,
                 mask=BitSet.below(Wt), onehot=BitSet.single(Wt - 1))


@contract('connection.BitField.__init__', props=['C08'])
class _:
    def setup(E):
        return dict(self=E.obj(BF, tag='self'), nbits=E.int('nbits', lo=1, hi=4096))
    raises = {'width-multiple-of-8': ('ValueError', lambda nbits: nbits % 8 != 0)}
    skolems = {'j': 'int'}
    ensures = {
        'empty': lambda self, j: S.Not(S.bit(self.bits, j)) & (S.ival(self.current_seqnum) == 0),
        'width': lambda self, nbits: self.nbits == nbits,
        'mask-is-2^W-1': lambda self, nbits, j: S.iff(S.bit(self.mask, j), (0 <= j) & (j < nbits)),
        'onehot-is-2^(W-1)': lambda self, nbits, j: S.iff(S.bit(self.onehot, j), j == nbits - 1),
    }


@contract('connection.BitField.insert', props=['C08', 'C04'])
class _:
    def setup(E):
        return dict(self=make_bitfield(E), seqnum=E.int('seqnum', cls=SEQ, lo=1, hi=S.M))
    skolems = {'x': 'int', 'j': 'int'}
    raises = {
        # from the statement: "flagged duplicate exactly when it was already received inside the window"
        'duplicate-iff-received-in-window': ('DuplicationError', lambda old, seqnum: recv(
            old.self.current_seqnum, old.self.bits, old.self.nbits, S.ival(seqnum))),
    }
    ensures = {
        'newest': lambda old, self, seqnum: S.ival(self.current_seqnum) == S.ite(
            (S.ival(old.self.current_seqnum) == 0) |
            ((1 <= S.rdist(seqnum, old.self.current_seqnum)) & (S.rdist(seqnum, old.self.current_seqnum) <= S.T)),
            S.ival(seqnum), S.ival(old.self.current_seqnum)),
        'view': lambda old, self, seqnum, x: S.iff(
            recv(self.current_seqnum, self.bits, self.nbits, x),
            (recv(old.self.current_seqnum, old.self.bits, old.self.nbits, x) | (x == S.ival(seqnum)))
            & S.in_window(x, self.current_seqnum, self.nbits)),
        'invariant-no-bits-above-width': lambda self, j: S.implies(j >= self.nbits, S.Not(S.bit(self.bits, j))),
        'invariant-current-set': lambda self: S.ival(self.current_seqnum) != 0,
        'current-stays-seqnum': lambda self: self.current_seqnum.cls is not None and self.current_seqnum.cls.name == 'SeqNum',
    }
    ensures_exc = {
        'unchanged-on-raise': lambda old, self, j: (S.ival(self.current_seqnum) == S.ival(old.self.current_seqnum))
        & S.same_bits(self.bits, old.self.bits, j),
    }
    modifies = ['self.bits', 'self.current_seqnum']


@contract('connection.BitField.contains', props=['C08'])
class _:
    """requires a non-empty field (no call site in the library; on an empty field contains(65535) is True
    because SeqNum(0).diff(65535) = 0 — outside the property's letter, recorded in DESIGN.md)."""
    def setup(E):
        return dict(self=make_bitfield(E), seqnum=E.int('seqnum', cls=SEQ, lo=1, hi=S.M))
    requires = {'non-empty': lambda self: S.ival(self.current_seqnum) != 0}
    ensures = {
        'contains-iff-in-view': lambda self, seqnum, result: S.iff(
            result, recv(self.current_seqnum, self.bits, self.nbits, S.ival(seqnum))),
    }
    modifies = []
    returns = 'bool'
