"""C11 — datagram entry points: TwistedServer.datagramReceived (block list first, nothing escapes, queue hand-off)."""
import z3
from pyvc.dsl import contract, lemma, S, LoopSpec
from pyvc import ops
from pyvc.values import *
from contracts.common import *

BLOCKED = z3.Function('ip_is_blocklisted', z3.StringSort(), z3.BoolSort())


class BlockList:
    def pv_contains(self, ip, item):
        if ops.pytype(item) != 'str':
            return False                 # the block list holds IP strings: nothing else is ever a member
        return ops.sbool(BLOCKED(ops.term(item)))


def make_twisted(E):
    ctxt = E.plain_obj(tag='ctxt', blocklist=BlockList(), access_log=None, log=E.member_logger())
    thread = E.plain_obj(tag='thread', append=E.opaque('thread.append', returns=None))
    return E.obj('twisted.TwistedServer', tag='self', ctxt=ctxt, thread=thread)


@contract('twisted.TwistedServer.datagramReceived', props=['C11'])
class _:
    """for every byte string from every address: block-listed sources are discarded before ANY processing; nothing escapes;
    a datagram with a well-formed header addressed to the server is handed to the server thread exactly once, unchanged"""
    def setup(E):
        return dict(self=make_twisted(E), datagram=E.bytes('datagram'), addr=(E.str('ip'), E.int('port', lo=0, hi=65535)))
    uses = ['connection.PacketHeader.from_bytes']
    ensures = {
        'blocked-source-causes-no-processing': lambda events, addr: S.implies(
            S.bool(BLOCKED(S.term(addr[0]))), len(events) == 0),
        'at-most-one-hand-off-of-the-unchanged-datagram': lambda events, addr, datagram: handoff_clause(events, addr, datagram),
    }
    modifies = []


def handoff_clause(events, addr, datagram):
    ev = [e for e in events if e[0] == 'thread.append']
    if len(ev) == 0:
        return True
    if len(ev) == 1:
        a = ev[0][1]
        return len(a) == 3 and a[0] is addr and a[2] is datagram and S.Not(S.bool(BLOCKED(S.term(addr[0]))))
    return False


# ------------------------------------------------------------------------------------------ the reference UDP server loop
def fake_socket(ip, fn, args, kwargs):
    """ASSUMED model of the socket: recvfrom returns some datagram from some address, or raises ConnectionResetError"""
    def recvfrom(ip2, fn2, a2, k2):
        if ip2.ctx.choose(2) == 1:
            ip2.ctx.raise_exc('ConnectionResetError', 'recvfrom')
        d = Sym(ip2.ctx.fresh('datagram', BytesSort), 'bytes')
        n = ip2.ctx.fresh('datagram_len', z3.IntSort())
        ip2.ctx.assume(n >= 0)
        ops.set_len_term(d.t, n)
        addr = (Sym(ip2.ctx.fresh('ip', z3.StringSort()), 'str'), Sym(ip2.ctx.fresh('port', z3.IntSort()), 'int'))
        ip2.state.ghost['received'] = (d, addr)
        return (d, addr)
    quiet = lambda name: Opaque('sock.' + name, {'returns': None})
    return Obj(None, {'setsockopt': quiet('setsockopt'), 'bind': quiet('bind'), 'fileno': Opaque('sock.fileno', {'returns': 3}),
                      'recvfrom': Opaque('sock.recvfrom', {'effect': recvfrom})}, tag='socket')


def fake_thread(ip, info, *args, **kwargs):
    return Obj(None, {'start': Opaque('thread.start', {'returns': None}), 'append': Opaque('thread.append', {'returns': None})}, tag='thread')


def parse_header_model(ip, isServer, datagram):
    """PacketHeader.from_bytes (its own contract: c09_codec) seen as an event: it parses or raises"""
    ip.state.events.append(('PacketHeader.from_bytes', (isServer, datagram), {}))
    if ip.ctx.choose(2) == 1:
        ip.ctx.raise_exc('PacketError', 'malformed header')
    return Obj(ip.repo.cls('connection.PacketHeader'), {}, tag='hdr')


def receive_pre(ip, frame, env):
    ip.state.ghost['ev0'] = len(ip.state.events)
    ip.state.ghost.pop('received', None)


def receive_post(ip, frame, env):
    g = ip.state.ghost
    key = ip.verifying_key
    if 'received' not in g:
        return
    d, addr = g['received']
    ev = ip.state.events[g['ev0']:]
    work = [e for e in ev if e[0] in ('PacketHeader.from_bytes', 'thread.append')]
    blocked = BLOCKED(ops.term(addr[0]))
    ip.ctx.oblige('%s/loop@receive:iteration/blocked-source-causes-no-processing' % key, z3.Implies(blocked, z3.BoolVal(len(work) == 0)))
    app = [e for e in ev if e[0] == 'thread.append']
    ok = len(app) == 0 or (len(app) == 1 and len(app[0][1]) == 3 and app[0][1][0] is addr and app[0][1][2] is d)
    ip.ctx.oblige('%s/loop@receive:iteration/at-most-one-hand-off-of-the-unchanged-datagram' % key, z3.BoolVal(ok))


@contract('server._UdpServer.run', props=['C11'])
class _:
    """the reference receive loop: for every datagram from every address - block-listed sources are discarded before the header is
    even parsed; a datagram is handed to the server thread at most once, unchanged; no exception of the parser leaves the loop"""
    def setup(E):
        ctxt = E.plain_obj(tag='ctxt', blocklist=BlockList(), access_log=None, log=E.member_logger(), _active=E.bool('active'))
        return dict(self=E.obj('server._UdpServer', tag='self', addr=('0.0.0.0', 1474), ctxt=ctxt))
    hooks = {'opaque:socket.socket': fake_socket, 'class:server.UdpServerThread': fake_thread,
             'model:connection.PacketHeader.from_bytes': parse_header_model}
    loops = {0: LoopSpec(label='receive', havoc=['self.ctxt._active'], invariant={}, ghost_pre=receive_pre, ghost_post=receive_post)}
    ensures = {}


# ------------------------------------------------------------------------------------------ anti-amplification (arithmetic over two contracts)
from pyvc import libspec
from contracts.c09_codec import set_limits, PKT
HCH = 'connection.HandshakeClientHelloMessage'
HSH = 'connection.HandshakeServerHelloMessage'
HELLO_BODY_MAX = 302          # bytes HandshakeServerHelloMessage.serialize may write (proved below)
PADDED = lambda mp: mp - 24   # bytes a client hello must provide after its type id (proved below)


def decode_and_advance(ip, stream, **kwargs):
    """ASSUMED model of deserialize_value for the size argument (C14 proves it for the real decoder): on success the position
    moves forward by at least the two type-id bytes and stays inside the buffer; the value is arbitrary"""
    ip.ctx.lib_used.add('serializable.deserialize_value inside the client hello: consumes >= 2 bytes, never past the end, value arbitrary (C14 contract restated; model in c11_entry)')
    if ip.ctx.choose(2) == 1:
        ip.ctx.raise_exc('Exception', 'decoder rejected the bytes')
    k = ip.ctx.fresh('consumed', z3.IntSort())
    total = ops.term(ops.bytes_len(stream.buf), 'int')
    pos = ops.term(stream.pos, 'int')
    ip.ctx.assume(z3.And(k >= 2, pos + k <= total))
    stream.pos = Sym(z3.simplify(pos + k), 'int')
    n = getattr(stream, 'decoded', 0)
    stream.decoded = n + 1
    if n == 0:
        t = ip.ctx.fresh('der', BytesSort)
        ops.set_len_term(t, ip.ctx.fresh('der_len', z3.IntSort()))
        return Sym(t, 'bytes')
    return Sym(ip.ctx.fresh('version', z3.IntSort()), 'int')


@contract(HCH + '.deserialize', props=['C11'], variant='padding')
class _:
    """for EVERY byte string and every MTU: a client hello is accepted only if exactly MAX_PAYLOAD_SIZE - 24 bytes follow its
    type id (key, version and padding together) - a shorter one raises; so an accepted hello datagram has at least
    MAX_PAYLOAD_SIZE + 4 bytes"""
    def setup(E):
        set_limits(E, E.int('MTU', lo=96, hi=1500))
        data = E.bytes('data')
        stream = libspec.BytesIOVal(E.ip, data)
        p0 = E.int('pos0', lo=0)
        E.assume(S.term(p0) <= ops.blen(data.t))
        stream.pos = p0
        E.ghost('pos0', p0)
        return dict(self=E.obj(HCH, tag='self'), stream=stream)
    hooks = {'model:serializable.deserialize_value': decode_and_advance}
    ensures = {
        'accepted-hello-is-padded-to-a-full-datagram': lambda stream, ghost, E: S.bool(z3.And(
            S.term(stream.pos, 'int') - S.term(ghost.pos0, 'int') == PADDED(S.term(E.ip.class_attr(E.cls(PKT), 'MAX_PAYLOAD_SIZE')[1], 'int')),
            S.term(stream.pos, 'int') <= ops.blen(S.term(stream.buf)))),
    }
    may_raise = ['Exception']


@contract(HSH + '.serialize', props=['C11'], variant='size')
class _:
    """the REAL serialize (real serialize_value) is executed for every key id, 16-byte salt, 31-bit token and signature length
    8..72: it writes at most HELLO_BODY_MAX bytes"""
    def setup(E):
        ip = E.ip
        msg = E.obj(HSH, tag='self', server_pubkey=libspec.mk_pub(ip, E.int('server_kid')), salt=E.bytes('salt', length=16),
                    token=E.int('token', lo=2 ** 30, hi=2 ** 31 - 1))
        return dict(self=msg, stream=libspec.BytesIOVal(ip, None), __kwargs__={'server_root_key': libspec.mk_priv(ip, E.int('root_kid'))})
    ensures = {'reply-body-size-bound': lambda stream: S.bool(ops.term(ops.bytes_len(stream.buf), 'int') <= HELLO_BODY_MAX)}


def replay_amplification(label, model):
    mtu = model.get('MTU') if isinstance(model, dict) else None
    if not isinstance(mtu, int):
        return None
    return '''
import sys
from mpgameserver.connection import *
from mpgameserver.context import ServerContext
from mpgameserver.handler import EventHandler
worst = None
for attempt in range(40):                      # the DER signature length varies (70..72 bytes): take the largest reply seen
    Packet.setMTU(%d)
    T = [1000.0]
    c = ClientServerConnection(("10.0.0.1", 1)); c.clock = lambda: T[0]
    ctx = ServerContext(EventHandler())
    s = ServerClientConnection(ctx, ("10.0.0.2", 2)); s.clock = lambda: T[0]
    c._sendClientHello()
    hello = c._encode_packet(c._build_packet())
    accepted = s._recv_datagram(PacketHeader.from_bytes(True, hello), hello)
    T[0] += 1
    pkt = s._build_packet()
    reply = s._encode_packet(pkt) if pkt else b""
    if accepted and (worst is None or len(reply) > worst[1]):
        worst = (len(hello), len(reply))
Packet.setMTU(1500)
print("MTU %d: accepted client hello of %%d bytes, server hello of %%d bytes sent to the unverified address" %% worst)
sys.exit(1 if worst[1] > worst[0] else 0)
''' % (mtu, mtu)


@lemma('no-amplification-before-the-handshake-completes', props=['C11'], replay=replay_amplification)
def _no_amplification(E):
    """hello datagram >= 20 (header) + 2 (message seq) + 2 (type id) + PADDED(MAX_PAYLOAD_SIZE) + 4 (CRC);
    reply datagram <= 20 + 2 + 2 + HELLO_BODY_MAX + 4; a connecting client is sent nothing else (one SERVER_HELLO with
    RetryMode.NONE: _recvClientHello; keep-alives need status CONNECTED: _build_packet).  Reply <= hello for every MTU in the
    documented range."""
    mtu = S.term(E.int('MTU', lo=96, hi=1500), 'int')
    mp = mtu - 28 - 20 - 16 - 2
    hello_min = 20 + 2 + 2 + PADDED(mp) + 4
    reply_max = 20 + 2 + 2 + HELLO_BODY_MAX + 4
    fits = reply_max - 20 - 4 - 2 <= mp          # the reply is a single message: it is only ever sent if it fits a datagram
    return {'reply-not-larger-than-the-hello-for-MTU-392-and-above': S.bool(z3.Implies(z3.And(fits, mtu >= 392), reply_max <= hello_min)),
            # genuine, marginal (factor <= 1.07) and only for an MTU setting of 370..391: recorded as a known finding
            'reply-not-larger-than-the-hello-for-every-MTU': S.bool(z3.Implies(fits, reply_max <= hello_min))}
