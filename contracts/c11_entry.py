"""C11 — datagram entry points: TwistedServer.datagramReceived (block list first, nothing escapes, queue hand-off)."""
import z3
from pyvc.dsl import contract, lemma, S, LoopSpec
from pyvc import ops
from pyvc.values import *
from contracts.common import *

BLOCKED = z3.Function('ip_is_blocklisted', z3.StringSort(), z3.BoolSort())


class BlockList:
    def pv_contains(self, ip, item):
        if ops.pytype(item) != 'str':
            return False                 # the block list holds IP strings: nothing else is ever a member
        return ops.sbool(BLOCKED(ops.term(item)))


def make_twisted(E):
    ctxt = E.plain_obj(tag='ctxt', blocklist=BlockList(), access_log=None, log=E.member_logger())
    thread = E.plain_obj(tag='thread', append=E.opaque('thread.append', returns=None))
    return E.obj('twisted.TwistedServer', tag='self', ctxt=ctxt, thread=thread)


@contract('twisted.TwistedServer.datagramReceived', props=['C11'])
class _:
    """for every byte string from every address: block-listed sources are discarded before ANY processing; nothing escapes;
    a datagram with a well-formed header addressed to the server is handed to the server thread exactly once, unchanged"""
    def setup(E):
        return dict(self=make_twisted(E), datagram=E.bytes('datagram'), addr=(E.str('ip'), E.int('port', lo=0, hi=65535)))
    uses = ['connection.PacketHeader.from_bytes']
    ensures = {
        'blocked-source-causes-no-processing': lambda events, addr: S.implies(
            S.bool(BLOCKED(S.term(addr[0]))), len(events) == 0),
        'at-most-one-hand-off-of-the-unchanged-datagram': lambda events, addr, datagram: handoff_clause(events, addr, datagram),
    }
    modifies = []


def handoff_clause(events, addr, datagram):
    ev = [e for e in events if e[0] == 'thread.append']
    if len(ev) == 0:
        return True
    if len(ev) == 1:
        a = ev[0][1]
        return len(a) == 3 and a[0] is addr and a[2] is datagram and S.Not(S.bool(BLOCKED(S.term(addr[0]))))
    return False
