"""C10 / C11 / C02 — the server side: ServerContext (token generator, challenge validation, promotion, handler events) and the
blocks of UdpServerThread.run, over the two connection pools.

Clients held in the pools are symbolic object references (field maps addr / token / status / incoming_messages); the pools are
symbolic dicts  address -> reference.  Ghost state: life[c] in {NEW, TEMP, CONN, DONE} per client reference and the event log
of the handler calls.  PoolInv (pointwise, at Skolem addresses):
    a in connections       =>  addr[connections[a]] = a  and  life[connections[a]] = CONN
    a in temp_connections  =>  addr[temp[a]] = a         and  life[temp[a]] = TEMP
    life[c] = CONN  =>  connections[addr[c]] = c ;   life[c] = TEMP  =>  temp_connections[addr[c]] = c
    (hence the pools are disjoint and hold every live client exactly once)
    tokens of clients in the pools are pairwise distinct unless 0 (0 = no hello processed yet)."""
import z3
from pyvc.dsl import contract, lemma, S, LoopSpec
from pyvc import ops
from pyvc.values import *
from pyvc import libspec
from contracts.common import *

CTX = 'context.ServerContext'
NOTYET, CONN_, DONE = 0, 2, 3          # ghost life of a client reference: no connect event yet / connected / disconnect event seen
LIFE = z3.Array('life0', z3.IntSort(), z3.IntSort())
ADDR = Kind('pair', None, (Kind('str'), Kind('int')))
SCCN = 'ServerClientConnection'


def declare_client(E):
    """field maps of the ServerClientConnection objects held in the pools"""
    E.alloc()
    E.field(SCC, 'addr', ADDR)
    E.field(SCC, 'token', E.kind('int'), inv=lambda t: z3.And(t >= 0, t < 2 ** 31))
    E.field(SCC, 'status', E.kind('enum', STATUS), inv=lambda t: z3.And(t >= 0, t <= 5))
    E.field(SCC, 'incoming_messages', E.kind('seq', inner=Kind('pair', None, (E.kind('int', SEQ), E.kind('bytes')))))
    E.field(SCC, 'send_keep_alive_interval', E.kind('real'))
    E.field(SCC, 'outgoing_timeout', E.kind('real'))
    log = E.member_logger()
    E.field(SCC, 'log', Kind('custom', None, (z3.IntSort(), lambda ip, t: log, lambda ip, v: z3.IntVal(0))))


def make_pools(E):
    ck = E.kind('obj', SCC)
    return E.symmap('connections', ADDR, ck), E.symmap('temp_connections', ADDR, ck)


# ---- handler events: the ghost life automaton is driven by the handler calls themselves ---------------------------------
def _ref(v):
    return v.ref if isinstance(v, SymObj) else None


def handler_effect(kind):
    """what a call of handler.<kind> means: an obligation on the ghost life of the client it is called for (taken from the
    statement: connect once, then messages, then disconnect once; nothing for a client that did not connect), the life
    transition, and assumption A-handler about what user code may do: use the public API of any client (send*, disconnect:
    status and queues change), raise any Exception; it does not write the pools, addresses or tokens."""
    def eff(ip, fn, args, kwargs):
        g = ip.state.ghost
        life, ctxt = g['life'], g['ctxt']
        key = ip.verifying_key
        if kind in ('connect', 'disconnect', 'handle_message'):
            r = _ref(args[0]) if args else None
            if r is None:
                ip.ctx.oblige('%s/event/%s-is-called-for-a-client-object' % (key, kind), z3.BoolVal(False))
            else:
                addr = ip.state.fields[(SCCN, 'addr')][0]
                conns = ctxt.attrs['connections']
                if kind == 'connect':
                    ip.ctx.oblige('%s/event/connect-only-once-and-only-for-a-client-just-moved-to-the-connected-pool' % key,
                                  z3.And(z3.Select(life, r) == NOTYET, z3.Select(conns.dom, z3.Select(addr, r)),
                                         z3.Select(conns.val, z3.Select(addr, r)) == r))
                    g['life'] = z3.Store(life, r, z3.IntVal(CONN_))
                elif kind == 'disconnect':
                    ip.ctx.oblige('%s/event/disconnect-only-once-and-only-for-a-connected-client' % key, z3.Select(life, r) == CONN_)
                    g['life'] = z3.Store(life, r, z3.IntVal(DONE))
                else:
                    ip.ctx.oblige('%s/event/message-only-for-a-connected-client' % key, z3.Select(life, r) == CONN_)
        # A-handler: user code may change the status of any client through the public API
        arr, kind_ = ip.state.fields[(SCCN, 'status')]
        na = ip.ctx.fresh('fld_status_after_handler', arr.sort())
        ip.state.fields[(SCCN, 'status')] = (na, kind_)
        if ip.ctx.choose(2) == 1:
            ip.ctx.raise_exc('Exception', 'raised by handler.%s' % kind)
        return None
    return eff


def handler_obj(E):
    names = ('starting', 'connect', 'handle_message', 'disconnect', 'update', 'shutdown')
    return E.plain_obj(tag='handler', **{n: E.opaque('handler.' + n, effect=handler_effect(n)) for n in names})


def make_ctxt(E, **over):
    declare_client(E)
    conns, temps = make_pools(E)
    attrs = dict(handler=handler_obj(E), connections=conns, temp_connections=temps, log=E.member_logger(), access_log=None,
                 interval=E.real('interval'), keep_alive_interval=E.real('keep_alive_interval'), outgoing_timeout=E.real('ctxt_outgoing_timeout'),
                 connection_timeout=E.real('connection_timeout'), temp_connection_timeout=E.real('ctxt_temp_connection_timeout'),
                 _active=E.bool('active'), blocklist=PySet([]))
    attrs.update(over)
    ctxt = E.obj(CTX, tag='ctxt', **attrs)
    E.ghost('life', LIFE)
    E.ghost('ctxt', ctxt)
    return ctxt


def client_ref(E, name='client'):
    c = E.symobj(name, SCC)
    E.assume(z3.And(c.ref > 0, c.ref < E.ip.state.ghost['alloc']))
    return c


# ------------------------------------------------------------------------------------------ pool predicates (pointwise)
def live_fields(E):
    ip = getattr(E, 'ip', E)
    return lambda attr: ip.state.fields[(SCCN, attr)][0]


def old_fields(old):
    return lambda attr: old._snap.fields[(SCCN, attr)][0]


def pool_inv_at(conns, temps, life, fields, a, c, alloc=None):
    """PoolInv instantiated at the address term a and the client reference term c"""
    addr = fields('addr')
    ca, ta = z3.Select(conns.val, a), z3.Select(temps.val, a)
    al = (lambda r: z3.And(r > 0, r < alloc)) if alloc is not None else (lambda r: z3.BoolVal(True))
    return z3.And(
        z3.Implies(z3.Select(conns.dom, a), z3.And(z3.Select(addr, ca) == a, z3.Select(life, ca) == CONN_, al(ca))),
        z3.Implies(z3.Select(temps.dom, a), z3.And(z3.Select(addr, ta) == a, z3.Select(life, ta) == NOTYET, al(ta))),
        z3.Not(z3.And(z3.Select(conns.dom, a), z3.Select(temps.dom, a))),
        z3.Implies(z3.Select(life, c) == CONN_, z3.And(z3.Select(conns.dom, z3.Select(addr, c)), z3.Select(conns.val, z3.Select(addr, c)) == c)),
        z3.Or(z3.Select(life, c) == NOTYET, z3.Select(life, c) == CONN_, z3.Select(life, c) == DONE),
        # ghost convention: a reference not allocated yet has seen no event
        z3.Implies(c >= alloc, z3.Select(life, c) == NOTYET) if alloc is not None else z3.BoolVal(True))


POOL_CLAUSES = ['connected-pool-entry-is-a-connected-client-registered-under-its-own-address',
                'connecting-pool-entry-is-a-not-yet-connected-client-registered-under-its-own-address',
                'no-address-is-in-both-pools',
                'every-connected-client-is-in-the-connected-pool',
                'life-is-one-of-the-three-states',
                'unallocated-references-have-seen-no-event']


def pool_inv_clause(k):
    def clause(E, self, ghost, a, c):
        ctxt = self.attrs['ctxt'] if 'ctxt' in self.attrs else self
        g = pool_inv_at(ctxt.connections, ctxt.temp_connections, ghost.life, live_fields(E), a, S.term(c), ghost.alloc)
        return S.bool(g.arg(k))
    return clause


def pool_inv_clauses():
    return {'pool-invariant/' + n: pool_inv_clause(k) for k, n in enumerate(POOL_CLAUSES)}


def pool_inv(E, ctxt, life, As, Cs, fields=None, alloc=None):
    """PoolInv at every combination of the given address / reference terms (the Skolem pair plus the instances a proof needs)"""
    f = fields or live_fields(E)
    out = []
    for a in As:
        for c in Cs:
            out.append(pool_inv_at(ctxt.connections, ctxt.temp_connections, life, f, a, c, alloc))
    return S.bool(z3.And(out))


def addr_of(E, c, fields=None):
    return z3.Select((fields or live_fields(E))('addr'), c.ref if isinstance(c, SymObj) else c)


def pooled(E, ctxt, c):
    """the client is the one registered under its own address in one of the pools"""
    a = addr_of(E, c)
    return z3.Or(z3.And(z3.Select(ctxt.connections.dom, a), z3.Select(ctxt.connections.val, a) == c.ref),
                 z3.And(z3.Select(ctxt.temp_connections.dom, a), z3.Select(ctxt.temp_connections.val, a) == c.ref))


# ------------------------------------------------------------------------------------------ get_token
def no_client_holds(E, ctxt, token, a):
    f = live_fields(E)
    t = S.term(S.toint(token) if isinstance(token, BitSet) else token, 'int')
    return S.bool(z3.And(
        z3.Implies(z3.Select(ctxt.connections.dom, a), z3.Select(f('token'), z3.Select(ctxt.connections.val, a)) != t),
        z3.Implies(z3.Select(ctxt.temp_connections.dom, a), z3.Select(f('token'), z3.Select(ctxt.temp_connections.val, a)) != t)))


def none_so_far(E, pool, _it, _i, a, token):
    """no client enumerated so far holds the token - stated at the Skolem address a through its witness position"""
    f = live_fields(E)
    w = _it.facts.witness(E.ip, a)
    return S.bool(z3.Implies(z3.And(z3.Select(pool.dom, a), w < S.term(_i, 'int')),
                             z3.Select(f('token'), z3.Select(pool.val, a)) != S.term(token, 'int')))


def pool_clean(E, pool, a, token):
    f = live_fields(E)
    return S.bool(z3.Implies(z3.Select(pool.dom, a), z3.Select(f('token'), z3.Select(pool.val, a)) != S.term(token, 'int')))


@contract('context.ServerContext._token_in_use', props=['C10'])
class _:
    """answers False only if no client in either pool holds the token (pointwise at a Skolem address; the loops run over
    dict.values(): enumeration contract with a witness position for the Skolem key)"""
    def setup(E):
        return dict(self=make_ctxt(E), token=E.int('token', lo=0, hi=2 ** 31 - 1))
    skolems = {'a': ADDR}
    loops = {
        0: LoopSpec(invariant={'no-connected-client-seen-so-far-holds-it': lambda E, self, _it, _i, a, token: none_so_far(E, self.connections, _it, _i, a, token)},
                    label='connected-clients'),
        1: LoopSpec(invariant={'no-connected-client-holds-it': lambda E, self, a, token: pool_clean(E, self.connections, a, token),
                               'no-connecting-client-seen-so-far-holds-it': lambda E, self, _it, _i, a, token: none_so_far(E, self.temp_connections, _it, _i, a, token)},
                    label='connecting-clients'),
    }
    ensures = {
        'false-only-if-no-client-in-the-pools-holds-the-token': lambda E, self, token, a, result: S.implies(S.Not(result), no_client_holds(E, self, token, a)),
    }
    returns = 'bool'
    modifies = []


def replay_get_token(label, model):
    """the counter-model says: a client in a pool already holds the value the generator draws.  Natively: one connected client,
    os.urandom forced to return the same four bytes again"""
    if 'no-client-in-the-pools' not in label:
        return None
    return '''
import os, sys
import mpgameserver.context as ctxm
from mpgameserver.context import ServerContext
from mpgameserver.connection import ServerClientConnection
from mpgameserver.handler import EventHandler
ctx = ServerContext(EventHandler())
orig = os.urandom
draws = [0]
def urandom(n):
    draws[0] += 1
    return b"\\x00\\x00\\x00\\x01" if draws[0] <= 2 else orig(n)     # the generator's randomness repeats once
ctxm.os.urandom = urandom
try:
    for pool in ("connections", "temp_connections"):
        draws[0] = 0
        ctx.connections.clear(); ctx.temp_connections.clear()
        c1 = ServerClientConnection(ctx, ("10.0.0.1", 1000))
        c1.token = ctx.get_token()
        getattr(ctx, pool)[c1.addr] = c1
        t2 = ctx.get_token()
        print("pool=%s first client token=%d, next token issued=%d" % (pool, c1.token, t2))
        if t2 == c1.token:
            print("get_token issued a token that a client in the pool already holds")
            sys.exit(1)
finally:
    ctxm.os.urandom = orig
sys.exit(0)
'''


@contract('context.ServerContext.get_token', props=['C10'])
class _:
    replay = replay_get_token
    """for EVERY value os.urandom may return (it is havoc): the token is a 31-bit value with bit 30 set, and no client in
    either pool already holds it (pointwise at a Skolem address)"""
    def setup(E):
        return dict(self=make_ctxt(E))
    skolems = {'a': ADDR}
    uses = ['context.ServerContext._token_in_use']
    returns = 'int'
    loops = {0: LoopSpec(invariant={'every-draw-has-bit-30-set-and-fits-31-bits': lambda token: (token >= 2 ** 30) & (token < 2 ** 31)}, label='draw-again')}
    ensures = {
        'token-has-bit-30-set-and-fits-31-bits': lambda result: (result >= 2 ** 30) & (result < 2 ** 31),
        'no-client-in-the-pools-holds-the-token': lambda self, result, a, E: no_client_holds(E, self, result, a),
    }
    modifies = []


# ------------------------------------------------------------------------------------------ handler event wrappers
def events_named(events, name):
    return [e for e in events if e[0] == 'handler.' + name]


def one_event_for(events, name, client):
    ev = [e for e in events if e[0].startswith('handler.')]
    return len(ev) == 1 and ev[0][0] == 'handler.' + name and len(ev[0][1]) == 1 and ev[0][1][0] is client


@contract('context.ServerContext.onConnect', props=['C10'])
class _:
    """exactly one handler.connect(client); an exception of the handler does not escape"""
    def setup(E):
        ctxt = make_ctxt(E)
        c = client_ref(E)
        return dict(self=ctxt, client=c)
    requires = {'client-was-just-moved-to-the-connected-pool': lambda E, self, client, ghost: S.bool(z3.And(
        z3.Select(ghost.life, client.ref) == NOTYET, z3.Select(self.connections.dom, addr_of(E, client)),
        z3.Select(self.connections.val, addr_of(E, client)) == client.ref))}
    ensures = {
        'connect-event-exactly-once-for-this-client': lambda events, client: one_event_for(events, 'connect', client),
        'client-is-connected-afterwards': lambda ghost, client: S.bool(z3.Select(ghost.life, client.ref) == CONN_),
        'no-other-life-changes': lambda ghost, old, client: S.bool(ghost.life == z3.Store(old.ghost.life, client.ref, z3.IntVal(CONN_))),
    }
    modifies = ['ghost.life', 'field:ServerClientConnection.status']


@contract('context.ServerContext.onDisconnect', props=['C10'])
class _:
    """exactly one handler.disconnect(client); an exception of the handler does not escape"""
    def setup(E):
        ctxt = make_ctxt(E)
        c = client_ref(E)
        return dict(self=ctxt, client=c)
    requires = {'client-is-connected': lambda ghost, client: S.bool(z3.Select(ghost.life, client.ref) == CONN_)}
    ensures = {
        'disconnect-event-exactly-once-for-this-client': lambda events, client: one_event_for(events, 'disconnect', client),
        'no-other-life-changes': lambda ghost, old, client: S.bool(ghost.life == z3.Store(old.ghost.life, client.ref, z3.IntVal(DONE))),
    }
    modifies = ['ghost.life', 'field:ServerClientConnection.status']


def holds_presented(E, self, client, token):
    """the connecting client registered under this address stores exactly the presented token (a presented value that is not
    a number equals no stored token)"""
    if ops.pytype(token) not in ('int', 'bool'):
        return S.bool(z3.BoolVal(False))
    return S.bool(z3.And(z3.Select(self.temp_connections.dom, addr_of(E, client)),
                         z3.Select(live_fields(E)('token'), z3.Select(self.temp_connections.val, addr_of(E, client))) == S.term(token, 'int')))


for _tk in ('int', 'not-a-number'):
    @contract('context.ServerContext._validateChallengeResponse', props=['C02', 'C10'], variant=None if _tk == 'int' else 'token-not-a-number')
    class _:
        """True exactly when a connecting client is registered under this client's address and holds the presented token"""
        def setup(E, _tk=_tk):
            ctxt = make_ctxt(E)
            return dict(self=ctxt, client=client_ref(E), token=E.int('token') if _tk == 'int' else Box(z3.Int('some_other_value')))
        ensures = {
            'true-iff-the-connecting-client-at-this-address-holds-the-token': lambda E, self, client, token, result: S.iff(
                result, holds_presented(E, self, client, token)),
        }
        returns = 'bool'
        modifies = []


def promoted_clause(E, old, self, client, events):
    """a connecting client registered under its address moves to the connected pool and sees connect once; otherwise nothing happens"""
    a = addr_of(E, client)
    was_temp = z3.Select(old.self.temp_connections.dom, a)
    ev = [e for e in events if e[0].startswith('handler.')]
    moved = z3.And(z3.Not(z3.Select(self.temp_connections.dom, a)), z3.Select(self.connections.dom, a),
                   z3.Select(self.connections.val, a) == client.ref)
    same = z3.And(self.temp_connections.dom == old.self.temp_connections.dom, self.connections.dom == old.self.connections.dom,
                  self.connections.val == old.self.connections.val)
    if len(ev) == 0:
        return S.bool(z3.And(z3.Not(was_temp), same))
    if one_event_for(events, 'connect', client):
        return S.bool(z3.And(was_temp, moved))
    return False


@contract('context.ServerContext._onConnect', props=['C10', 'C02'])
class _:
    """promotion: temp pool -> connected pool, connect event exactly once; PoolInv is preserved (pointwise at Skolem a, c)"""
    def setup(E):
        ctxt = make_ctxt(E)
        return dict(self=ctxt, client=client_ref(E))
    skolems = {'a': ADDR, 'c': 'int'}
    requires = {
        'pool-invariant': lambda E, self, ghost, client, a, c: pool_inv(E, self, ghost.life, [a, addr_of(E, client)], [S.term(c), client.ref]),
        'client-is-registered-under-its-own-address': lambda E, self, client: S.bool(pooled(E, self, client)),
    }
    ensures = {
        'pool-invariant-preserved': lambda E, self, ghost, client, a, c: pool_inv(E, self, ghost.life, [a], [S.term(c)]),
        'promotes-exactly-a-connecting-client-with-one-connect-event': lambda E, old, self, client, events: promoted_clause(E, old, self, client, events),
        'only-this-address-changes': lambda E, old, self, client, a: S.bool(z3.Implies(a != addr_of(E, client), z3.And(
            z3.Select(self.connections.dom, a) == z3.Select(old.self.connections.dom, a),
            z3.Select(self.connections.val, a) == z3.Select(old.self.connections.val, a),
            z3.Select(self.temp_connections.dom, a) == z3.Select(old.self.temp_connections.dom, a),
            z3.Select(self.temp_connections.val, a) == z3.Select(old.self.temp_connections.val, a)))),
        'only-this-clients-life-changes': lambda ghost, old, client, c: S.bool(z3.Implies(S.term(c) != client.ref,
            z3.Select(ghost.life, S.term(c)) == z3.Select(old.ghost.life, S.term(c)))),
    }
    modifies = ['self.connections', 'self.temp_connections', 'ghost.life', 'field:ServerClientConnection.status']


# ------------------------------------------------------------------------------------------ client methods seen from the pools
# The connection methods are verified on a concrete connection object elsewhere (c01_receive, c07_acks, c12_timing, ...): every
# one of those contracts has a frame made of `self.*` paths only.  Seen from the server loop a client is a reference in a pool;
# the summaries below restate those frames over the field maps ("only this client's own fields change") and are ASSUMED
# (trusted, listed in the evidence).  The one effect that reaches beyond the client - promotion of a connecting client by
# _recvChallengeResponse -> ServerContext._onConnect - is not re-stated by hand: the summary executes the real _onConnect.
HDR = 'connection.PacketHeader'
SRV = 'server.UdpServerThread'
OWN_FIELDS = ['self.status', 'self.incoming_messages', 'self.token']


def member_value(E, enum, name):
    """the value of an enum member, read from the real class body"""
    return S.term(E.member(enum, name).attrs['value'], 'int')


def pair_term(E, v):
    ip = getattr(E, 'ip', E)
    return ip.unwrap(v, ADDR)


def inv_instances(E, self, ghost, a, c, client):
    return pool_inv(E, self, ghost.life, [a, addr_of(E, client)], [S.term(c), client.ref], alloc=ghost.alloc)


def recv_datagram_effect(ip, argmap, result):
    """trusted summary of _recv_datagram seen from the pools: a dropped datagram (result False) changes nothing of the client
    (C01: verified drop clause of _recv_datagram); an accepted one may, through _recvChallengeResponse, promote the client:
    the real ServerContext._onConnect is executed for it.  The result is recorded for the dispatch loop's ghost code."""
    self = argmap['self']
    g = ip.state.ghost
    ctxt = g['ctxt']
    snap = g.get('client_before')
    res = Sym(ip.ctx.fresh('recv_result', z3.BoolSort()), 'bool')
    g['recv_result'] = res.t
    g['recv_returned'] = False
    if snap is not None:
        for attr in ('status', 'token'):
            ip.ctx.assume(z3.Implies(z3.Not(res.t), z3.Select(ip.state.fields[(SCCN, attr)][0], self.ref) == z3.Select(snap[attr], self.ref)))
        arr = ip.state.fields[(SCCN, 'incoming_messages')][0]
        ip.ctx.assume(z3.Implies(z3.Not(res.t), z3.Select(arr, self.ref) == z3.Select(snap['incoming_messages'], self.ref)))
    if ip.ctx.choose(2) == 1:
        # an accepted CHALLENGE_RESP: the token check is decided inside _recvChallengeResponse (its own contract); here either outcome
        ip.ctx.assume(res.t)
        info = ip.repo.func('context.ServerContext._onConnect')
        ip.call_function(info, [ctxt, self], {}, force_body=True)
    if ip.ctx.choose(2) == 1:
        ip.ctx.raise_exc('Exception', 'raised while handling an accepted datagram')
    g['recv_returned'] = True
    return res


@contract('connection.ConnectionBase._recv_datagram', props=[], variant='pool')
class _:
    """ASSUMED summary over the pools: only the client's own fields change (frame of the verified contracts on the concrete
    object); a dropped datagram changes none of them; an accepted one may run the real ServerContext._onConnect(self); any
    Exception may escape."""
    trusted = True
    def setup(E):
        return dict(self=None)
    skolems = {'a': ADDR, 'c': 'int'}
    requires = {
        'client-is-registered-under-its-own-address': lambda E, self, ghost: S.bool(pooled(E, ghost.ctxt, self)),
        # C02 mechanism: a connecting client is only ever handed CHALLENGE_RESP datagrams - or the hello it was created for
        'connecting-clients-only-get-challenge-responses-or-their-first-hello': lambda E, self, hdr, ghost: S.bool(z3.Implies(
            z3.Select(ghost.ctxt.temp_connections.dom, addr_of(E, self)),
            z3.Or(S.term(hdr.pkt_type.value, 'int') == member_value(E, PTYPE, 'CHALLENGE_RESP'),
                  z3.And(S.term(hdr.pkt_type.value, 'int') == member_value(E, PTYPE, 'CLIENT_HELLO'), self.ref == ghost.alloc - 1)))),
    }
    modifies = OWN_FIELDS
    effect = recv_datagram_effect
    returns = 'bool'


def snapshot_client(ip):
    ip.state.ghost['client_before'] = {a: ip.state.fields[(SCCN, a)][0] for a in ('status', 'token', 'incoming_messages')}
    ip.state.ghost['client_before']['life'] = ip.state.ghost['life']


@contract('connection.ServerClientConnection.update', props=[], variant='pool')
class _:
    """ASSUMED summary: returns None or the triple (packet, session key, address) to send; only the client's own fields change
    (verified frame of ServerClientConnection.update on the concrete object: c07_acks); a send callback may raise."""
    trusted = True
    def setup(E):
        return dict(self=None)
    modifies = OWN_FIELDS
    may_raise = ['Exception']
    returns = lambda E, args: update_result(E, args)


def update_result(E, args):
    ip = E.ip
    if ip.ctx.choose(2) == 1:
        return None
    return (Box(ip.ctx.fresh('pkt', z3.IntSort())), Box(ip.ctx.fresh('key', z3.IntSort())), ip.state.read_field(args['self'], 'addr'))


@contract('connection.ConnectionBase.timedout', props=[], variant='pool')
class _:
    """ASSUMED summary: a pure question about the client's own clock (verified: c12_timing timedout <=> silence >= timeout)"""
    trusted = True
    def setup(E):
        return dict(self=None)
    modifies = []
    returns = 'bool'
    effect = lambda ip, argmap, result: (ip.state.events.append(('timedout', (argmap['self'], argmap['timeout']), {})), NotImplemented)[1]


@contract('connection.ServerClientConnection.disconnect', props=[], variant='pool')
class _:
    """ASSUMED summary: queues a DISCONNECT and changes the client's own status only"""
    trusted = True
    def setup(E):
        return dict(self=None)
    modifies = OWN_FIELDS
    may_raise = ['Exception']


@contract('connection.ServerClientConnection.__init__', props=[], variant='pool')
class _:
    """ASSUMED here, verified as connection.ServerClientConnection.__init__ on the concrete object: the new client knows its
    address, is DISCONNECTED, holds token 0 and an empty receive queue"""
    trusted = True
    constructs = True
    def setup(E):
        return dict(self=None)
    ensures = {
        'address-token-status-queue': lambda E, self, addr: S.bool(z3.And(
            addr_of(E, self) == pair_term(E, addr),
            z3.Select(live_fields(E)('token'), self.ref) == 0,
            z3.Select(live_fields(E)('status'), self.ref) == member_value(E, STATUS, 'DISCONNECTED'))) & (S.len(self.incoming_messages) == 0),
    }
    modifies = []


@contract('server.UdpServerThread.send', props=[], variant='pool')
class _:
    """ASSUMED in run, verified as server.UdpServerThread.send: writes nothing but the socket"""
    trusted = True
    def setup(E):
        return dict(self=None)
    modifies = []


# ------------------------------------------------------------------------------------------ UdpServerThread.run
def make_thread(E):
    ctxt = make_ctxt(E)
    E.field(HDR, 'pkt_type', E.kind('enum', PTYPE), inv=lambda t: z3.And(t >= 0, t <= 7))
    triple = Kind('pair', None, (ADDR, E.kind('obj', HDR), E.kind('bytes')))
    E.assume(S.term(ctxt.interval, 'real') > 0)
    sock = E.plain_obj(tag='sock', sendto=E.opaque('sock.sendto', returns=None))
    cv = E.plain_obj(tag='cv', wait=E.opaque('cv.wait', returns=None), notify_all=E.opaque('cv.notify_all', returns=None))
    perf = E.symseq('perf', E.kind('real'))
    E.assume(perf.n == 5)
    spt = E.real('spt')
    E.assume(S.term(spt, 'real') > 0)
    E.ghost('triple', triple)
    return E.obj(SRV, tag='self', sock=sock, ctxt=ctxt, queue=E.symseq('queue', triple), lk_queue=E.plain_obj(tag='lock'), cv_queue=cv,
                 perf=perf, perf_data=E.symseq('perf_data', E.kind('box')), frame_rate=E.symseq('frame_rate', E.kind('real')),
                 received_count=E.int('received_count', lo=0), spt=spt, daemon=True)


POOL_HAVOC = ['self.ctxt.connections', 'self.ctxt.temp_connections', 'ghost.life', 'ghost.alloc',
              'field:ServerClientConnection.status', 'field:ServerClientConnection.incoming_messages',
              'field:ServerClientConnection.token', 'field:ServerClientConnection.addr']
# (the context's settings may be changed at any time - by a handler or by the application's thread: C12 'configured before or after')
THREAD_HAVOC = ['self.queue', 'self.ctxt._active', 'self.perf', 'self.perf_data', 'self.frame_rate', 'self.received_count', 'self.spt',
                'self.ctxt.connection_timeout', 'self.ctxt.temp_connection_timeout', 'self.ctxt.keep_alive_interval', 'self.ctxt.outgoing_timeout']


def perf_kind(ip, v, name):
    s = SymSeq(ip.ctx.fresh(name, z3.ArraySort(z3.IntSort(), z3.RealSort())), z3.IntVal(5), Kind('real'))
    return s


def queue_kind(ip, v, name):
    n = ip.ctx.fresh(name + '_len', z3.IntSort())
    ip.ctx.assume(n >= 0)
    k = ip.state.ghost['triple']
    return SymSeq(ip.ctx.fresh(name, z3.ArraySort(z3.IntSort(), k.sort())), n, k)


def sending_kind(ip, v, name):
    n = ip.ctx.fresh(name + '_len', z3.IntSort())
    ip.ctx.assume(n >= 0)
    return SymSeq(ip.ctx.fresh(name, z3.ArraySort(z3.IntSort(), z3.IntSort())), n, Kind('box'))


def inv_pool(E, self, ghost, a, c):
    return pool_inv(E, self.ctxt, ghost.life, [a], [S.term(c)], alloc=ghost.alloc)


def still_pooled(E, pool, _it, _i, j):
    """sweep over a snapshot list(pool.values()): the clients not yet visited are still registered under their keys"""
    jt = S.term(j, 'int')
    k = _it.facts.key_at(jt)
    return S.bool(z3.Implies(z3.And(S.term(_i, 'int') <= jt, jt < _it.n),
                             z3.And(z3.Select(pool.dom, k), z3.Select(pool.val, k) == z3.Select(_it.arr, jt))))


def sweep_instances(env):
    """the induction hypothesis is used at the current position of the sweep and at the client found there"""
    it, i = env['_it'], env['_i']
    E = env['E']
    it_t = S.term(i, 'int')
    it.facts.kfacts.add_index(E.ip, it_t)
    E.ip.ctx.assume(z3.Implies(z3.And(it_t >= 0, it_t < it.n), z3.Select(it.arr, it_t) == z3.Select(it.facts.val, it.facts.key_at(it_t))))
    return [{'j': i}, {'a': it.facts.key_at(it_t), 'c': Sym(z3.Select(it.arr, it_t), 'int')}]


def sweep_init(ip, frame, env):
    """the enumeration contract of list(pool.values()) at the Skolem position j"""
    it = env['_it']
    jt = S.term(env['j'], 'int')
    it.facts.kfacts.add_index(ip, jt)
    ip.ctx.assume(z3.Implies(z3.And(jt >= 0, jt < it.n), z3.Select(it.arr, jt) == z3.Select(it.facts.val, it.facts.key_at(jt))))


def dispatch_instances(env):
    """the induction hypothesis is used at the address of the datagram at the head of the queue and at the clients registered there"""
    q = env['_queue']
    self = env['self']
    if not isinstance(q, SymSeq):
        return []
    ts, mk_, accs = pair_sort(*[k.sort() for k in q.elem.inner])
    a0 = accs[0](z3.Select(q.arr, 0))
    conns, temps = self.attrs['ctxt'].attrs['connections'], self.attrs['ctxt'].attrs['temp_connections']
    return [{'a': a0, 'c': Sym(z3.Select(conns.val, a0), 'int')}, {'a': a0, 'c': Sym(z3.Select(temps.val, a0), 'int')},
            {'a': a0, 'c': Sym(env['ghost'].alloc, 'int')}]


def shutdown_instances(env):
    E = env['E']
    c = env['c']
    return sweep_instances(env) + [{'a': z3.Select(live_fields(E)('addr'), S.term(c, 'int'))}]


def sweep_timeout_check(which, attr):
    """C12 (E4): the sweep asks each client about silence with the CONTEXT's current timeout for that pool"""
    def post(ip, frame, env):
        g = ip.state.ghost
        ev = [e for e in ip.state.events[g.get('sweep_ev0', 0):] if e[0] == 'timedout']
        want = g['ctxt'].attrs[attr]
        for e in ev:
            ip.ctx.oblige('%s/loop@%s:iteration/silence-is-measured-against-the-contexts-%s' % (ip.verifying_key, which, attr.replace('_', '-')),
                          ops.bterm(ops.equal(e[1][1], want)))
    return post


def sweep_pre(ip, frame, env):
    ip.state.ghost['sweep_ev0'] = len(ip.state.events)


def dispatch_pre(ip, frame, env):
    snapshot_client(ip)
    ctxt = ip.state.ghost['ctxt']
    ip.state.ghost['pools_before'] = tuple((m.dom, m.val) for m in (ctxt.attrs['connections'], ctxt.attrs['temp_connections']))
    ip.state.ghost['events_at_iteration_start'] = len(ip.state.events)
    ip.state.ghost.pop('recv_result', None)
    ip.state.ghost.pop('recv_returned', None)
    ip.state.ghost['delivering'] = False


def dispatch_post(ip, frame, env):
    """C01/C11 at the server gate: a datagram that the connection dropped changes nothing of an established client
    (when its receive queue was empty no handler runs either)"""
    g = ip.state.ghost
    # C02 / C10: processing a datagram never REPLACES a pooled client: a connecting client stays registered (or is promoted),
    # an established one stays registered - whatever is duplicated or replayed (pointwise at the Skolem address a)
    ctxt = g['ctxt']
    (cd0, cv0), (td0, tv0) = g['pools_before']
    conns, temps = ctxt.attrs['connections'], ctxt.attrs['temp_connections']
    a = env['a']
    ip.ctx.oblige('%s/loop@dispatch:iteration/a-connecting-client-is-never-replaced-by-a-datagram' % ip.verifying_key, z3.Implies(
        z3.Select(td0, a), z3.Or(z3.And(z3.Select(temps.dom, a), z3.Select(temps.val, a) == z3.Select(tv0, a)),
                                 z3.And(z3.Select(conns.dom, a), z3.Select(conns.val, a) == z3.Select(tv0, a)))))
    ip.ctx.oblige('%s/loop@dispatch:iteration/an-established-client-is-never-removed-by-a-datagram' % ip.verifying_key, z3.Implies(
        z3.Select(cd0, a), z3.And(z3.Select(conns.dom, a), z3.Select(conns.val, a) == z3.Select(cv0, a))))
    # C12 (E4): a client created for a new address takes the context's keep-alive interval and message timeout
    client0 = frame.locals.get('client')
    if isinstance(client0, SymObj) and any(r.eq(client0.ref) for r in ip.state.allocated):
        for fld_, attr in (('send_keep_alive_interval', 'keep_alive_interval'), ('outgoing_timeout', 'outgoing_timeout')):
            ip.ctx.oblige('%s/loop@dispatch:iteration/a-new-client-takes-the-contexts-%s' % (ip.verifying_key, attr.replace('_', '-')),
                          z3.Select(ip.state.fields[(SCCN, fld_)][0], client0.ref) == ops.term(ctxt.attrs[attr], 'real'))
    # "events keep flowing when a handler raises": an exception of one handler call must not end the delivery loop - the
    # remaining messages of the datagram would never reach the handler
    ip.ctx.oblige('%s/loop@dispatch:iteration/a-handler-exception-does-not-abort-the-delivery-of-the-remaining-messages' % ip.verifying_key,
                  z3.BoolVal(not g.get('delivering', False)))
    res = g.get('recv_result')
    client = frame.locals.get('client')
    if res is None or not isinstance(client, SymObj):
        return
    before = g['client_before']
    ts, mk_, (acc_arr, acc_n) = list_sort(ip.state.fields[(SCCN, 'incoming_messages')][1].inner.sort())
    empty = acc_n(z3.Select(before['incoming_messages'], client.ref)) == 0
    same = z3.And(z3.Select(ip.state.fields[(SCCN, 'status')][0], client.ref) == z3.Select(before['status'], client.ref),
                  z3.Select(ip.state.fields[(SCCN, 'token')][0], client.ref) == z3.Select(before['token'], client.ref))
    ip.ctx.oblige('%s/loop@dispatch:iteration/a-dropped-datagram-changes-nothing-of-the-client' % ip.verifying_key,
                  z3.Implies(z3.And(z3.Not(res), empty), same))
    if g.get('recv_returned'):
        # every message of the datagram is handed over in this very iteration, whatever the handler raises: nothing is left in
        # the queue to be delivered a second time with the next datagram (C04 / "events keep flowing when a handler raises")
        now_n = acc_n(z3.Select(ip.state.fields[(SCCN, 'incoming_messages')][0], client.ref))
        ip.ctx.oblige('%s/loop@dispatch:iteration/the-receive-queue-of-an-established-client-is-drained' % ip.verifying_key,
                      z3.Implies(z3.Select(before['life'], client.ref) == CONN_, now_n == 0))
    n_ev = len([e for e in ip.state.events[g['events_at_iteration_start']:] if e[0].startswith('handler.')])
    if n_ev:
        ip.ctx.oblige('%s/loop@dispatch:iteration/a-dropped-datagram-reaches-no-handler' % ip.verifying_key,
                      z3.Implies(z3.And(z3.Not(res), empty), z3.BoolVal(False)))


@contract('server.UdpServerThread.run', props=['C10', 'C11', 'C02', 'C01', 'C12'])
class _:
    """the whole server loop, executed from its source: datagram dispatch over the two pools, handler.update, the two sweeps,
    the queue hand-off, the statistics, the shutdown sweep.  Proved: PoolInv is an invariant of every loop; every handler event
    happens in the life state the statement allows (obligations raised at the handler calls themselves); no exception escapes
    run (handlers, client methods and datagram processing may raise any Exception); when run returns no client is left
    connected (every connected client saw disconnect)."""
    def setup(E):
        return dict(self=make_thread(E))
    skolems = {'a': ADDR, 'c': 'int', 'j': 'int'}
    requires = {'pool-invariant': lambda E, self, ghost, a, c: inv_pool(E, self, ghost, a, c)}
    uses = ['connection.ConnectionBase._recv_datagram@pool', 'connection.ServerClientConnection.update@pool',
            'connection.ConnectionBase.timedout@pool', 'connection.ServerClientConnection.disconnect@pool',
            'connection.ServerClientConnection.__init__@pool', 'server.UdpServerThread.send@pool']
    hooks = {'model:server.sleep': lambda ip, *a, **k: None}
    loops = {
        0: LoopSpec(label='main', havoc=POOL_HAVOC + THREAD_HAVOC,
                    havoc_kinds={'self.perf': perf_kind, '_queue': queue_kind},
                    invariant={**pool_inv_clauses(),
                               'seconds-per-tick-stays-positive': lambda self: S.bool(S.term(self.spt, 'real') > 0)}),
        1: LoopSpec(label='dispatch', havoc=POOL_HAVOC, havoc_kinds={'_queue': queue_kind},
                    ghost_pre=dispatch_pre, ghost_post=dispatch_post, instances=dispatch_instances,
                    invariant={**pool_inv_clauses()}),
        2: LoopSpec(label='deliver', havoc=['field:ServerClientConnection.status'], skip_when_empty=True,
                    ghost_pre=lambda ip, frame, env: ip.state.ghost.__setitem__('delivering', True),
                    ghost_post=lambda ip, frame, env: ip.state.ghost.__setitem__('delivering', False),
                    invariant={'client-is-connected': lambda ghost, client: S.bool(z3.Select(ghost.life, client.ref) == CONN_)}),
        3: LoopSpec(label='sweep', havoc=POOL_HAVOC, havoc_kinds={'sending': sending_kind}, instances=sweep_instances, ghost_init=sweep_init,
                    ghost_pre=sweep_pre, ghost_post=sweep_timeout_check('sweep', 'connection_timeout'),
                    invariant={**pool_inv_clauses(),
                               'clients-not-yet-visited-are-still-registered': lambda E, self, _it, _i, j: still_pooled(E, self.ctxt.connections, _it, _i, j)}),
        4: LoopSpec(label='temp-sweep', havoc=POOL_HAVOC, havoc_kinds={'sending': sending_kind}, instances=sweep_instances, ghost_init=sweep_init,
                    ghost_pre=sweep_pre, ghost_post=sweep_timeout_check('temp-sweep', 'temp_connection_timeout'),
                    invariant={**pool_inv_clauses(),
                               'clients-not-yet-visited-are-still-registered': lambda E, self, _it, _i, j: still_pooled(E, self.ctxt.temp_connections, _it, _i, j)}),
        5: LoopSpec(label='wait-for-datagrams', havoc=['self.queue', 'self.ctxt._active'], invariant={}),
        6: LoopSpec(label='shutdown-sweep', havoc=POOL_HAVOC, instances=shutdown_instances, ghost_init=sweep_init,
                    invariant={**pool_inv_clauses(),
                               'clients-not-yet-visited-are-still-registered': lambda E, self, _it, _i, j: still_pooled(E, self.ctxt.connections, _it, _i, j),
                               'visited-clients-are-removed': lambda E, self, _it, _i, a: visited_removed(E, self.ctxt.connections, _it, _i, a)}),
    }
    ensures = {
        'no-client-is-left-connected': lambda ghost, c: S.bool(z3.Select(ghost.life, S.term(c)) != CONN_),
    }


def visited_removed(E, pool, _it, _i, a):
    w = _it.facts.witness(E.ip, a)
    return S.bool(z3.Implies(z3.Select(pool.dom, a), z3.And(z3.Select(_it.facts.kfacts.dom, a), w >= S.term(_i, 'int'), w < _it.n)))


# ------------------------------------------------------------------------------------------ what the pool summaries restate, verified
@contract('connection.ServerClientConnection.__init__', props=['C10', 'C12'])
class _:
    """the whole constructor chain (ServerClientConnection -> ConnectionBase) executed from the source on a concrete object:
    the facts the pool-level summary __init__@pool assumes"""
    def setup(E):
        ctxt = E.plain_obj(tag='ctxt')
        return dict(self=Obj(E.cls(SCC), {}, tag='self'), ctxt=ctxt, addr=(E.str('ip'), E.int('port')))
    hooks = {'class:logger.PeerLogger': lambda ip, info, *a, **k: ip.lib.libspec._LOGGER if hasattr(ip.lib, 'libspec') else None}
    ensures = {
        'address-token-status-queue': lambda E, self, addr, ctxt: (self.addr is addr) & (self.ctxt is ctxt) & S.eq(self.token, 0)
        & S.enum_is(self.status, E.member(STATUS, 'DISCONNECTED')) & (len(self.incoming_messages.items) == 0)
        & (self.session_key_bytes is None) & (self.isServer is True),
    }


@contract('server.UdpServerThread.send', props=['C03', 'C10', 'C11'])
class _:
    """every triple (packet, key, address) is encoded with ITS key and written to ITS address, in order; nothing else is touched
    (C03: the send site passes the session key; backs the summary send@pool)"""
    def setup(E):
        sock = E.plain_obj(tag='sock', sendto=E.opaque('sock.sendto', returns=None))
        ctxt = E.plain_obj(tag='ctxt', log=E.member_logger())
        self = E.obj(SRV, tag='self', sock=sock, ctxt=ctxt)
        mk = lambda i: (E.plain_obj(tag='pkt%d' % i, to_bytes=E.opaque('pkt%d.to_bytes' % i, effect=lambda ip, fn, a, k, i=i: to_bytes_effect(ip, i, a))),
                        E.bytes('key%d' % i, length=16), (E.str('ip%d' % i), E.int('port%d' % i)))
        seq = E.list([mk(0), mk(1)])
        E.ghost('seq', seq)
        return dict(self=self, seq=seq)
    ensures = {
        'each-packet-sealed-with-its-own-key-and-sent-to-its-own-address': lambda events, ghost: sent_as_given(events, ghost.seq),
    }
    modifies = []


def to_bytes_effect(ip, i, args):
    t = ip.ctx.fresh('wire%d' % i, BytesSort)
    ops.set_len_term(t, ip.ctx.fresh('wire%d_len' % i, z3.IntSort()))
    ip.state.ghost.setdefault('wire', {})[i] = (Sym(t, 'bytes'), args)
    return ip.state.ghost['wire'][i][0]


def sent_as_given(events, seq, send='sock.sendto'):
    sends = [e for e in events if e[0] == send]
    enc = [e for e in events if e[0].endswith('.to_bytes')]
    if len(sends) != len(seq.items) or len(enc) != len(seq.items):
        return False
    for i, (pkt, key, addr) in enumerate(seq.items):
        if enc[i][0] != 'pkt%d.to_bytes' % i or len(enc[i][1]) != 1 or enc[i][1][0] is not key:
            return False
        if len(sends[i][1]) != 2 or sends[i][1][1] is not addr:
            return False
    return True


@contract('twisted.TwistedServer.sendPacketsUnsafe', props=['C03'])
class _:
    """the Twisted send site: every packet is encoded with ITS session key and written to ITS address, in order"""
    def setup(E):
        tr = E.plain_obj(tag='transport', write=E.opaque('transport.write', returns=None))
        self = E.obj('twisted.TwistedServer', tag='self', transport=tr)
        mk = lambda i: (E.plain_obj(tag='pkt%d' % i, to_bytes=E.opaque('pkt%d.to_bytes' % i, effect=lambda ip, fn, a, k, i=i: to_bytes_effect(ip, i, a))),
                        E.bytes('key%d' % i, length=16), (E.str('ip%d' % i), E.int('port%d' % i)))
        seq = E.list([mk(0), mk(1)])
        E.ghost('seq', seq)
        return dict(self=self, seq=seq)
    ensures = {
        'each-packet-sealed-with-its-own-key-and-sent-to-its-own-address': lambda events, ghost: sent_as_given(events, ghost.seq, 'transport.write'),
    }
    modifies = []


@contract('connection.ConnectionBase.disconnect', props=['C10'])
class _:
    """server- or client-initiated disconnect on the concrete object: ends DISCONNECTED; from CONNECTED / DISCONNECTING everything
    pending is dropped and exactly one DISCONNECT message is queued for the peer; only the connection's own fields change (the
    frame the pool-level summary disconnect@pool restates)"""
    def setup(E):
        self = make_conn(E)
        E.ghost('conn', self)
        return dict(self=self, callback=None)
    ensures = {
        'ends-disconnected': lambda self, E: S.enum_is(self.status, E.member(STATUS, 'DISCONNECTED')),
        'one-disconnect-message-for-the-peer-when-it-was-open': lambda old, self, E: S.ite(
            S.enum_is(old.self.status, E.member(STATUS, 'CONNECTED')) | S.enum_is(old.self.status, E.member(STATUS, 'DISCONNECTING')),
            (S.len(self.outgoing_messages) == 1) & S.enum_is(E.elem(self.outgoing_messages, 0).type, E.member(PTYPE, 'DISCONNECT'))
            & (S.len(self.incoming_messages) == 0),
            S.len(self.outgoing_messages) == S.len(old.self.outgoing_messages)),
    }
    modifies = ['self.status', 'self.outgoing_messages', 'self.incoming_messages', 'self.pending_callbacks', 'self.pending_retry',
                'self.pending_acks', 'self.seq_message', 'self.stats.sent'] + ['field:PendingMessage.' + f for f in
                ('seq', 'type', 'payload', 'callback', 'retry', 'assembled_time')]


@contract('connection.ServerClientConnection.disconnect', props=['C10'])
class _:
    """the server-side override (what handlers and the sweeps call on a pooled client): the same outcome and the same frame as
    the base method - the verified counterpart of the assumed pool-level summary disconnect@pool"""
    def setup(E):
        self = make_conn(E, cls=SCC)
        E.ghost('conn', self)
        return dict(self=self)
    ensures = {
        'ends-disconnected': lambda self, E: S.enum_is(self.status, E.member(STATUS, 'DISCONNECTED')),
        'one-disconnect-message-for-the-peer-when-it-was-open': lambda old, self, E: S.ite(
            S.enum_is(old.self.status, E.member(STATUS, 'CONNECTED')) | S.enum_is(old.self.status, E.member(STATUS, 'DISCONNECTING')),
            (S.len(self.outgoing_messages) == 1) & S.enum_is(E.elem(self.outgoing_messages, 0).type, E.member(PTYPE, 'DISCONNECT'))
            & (S.len(self.incoming_messages) == 0),
            S.len(self.outgoing_messages) == S.len(old.self.outgoing_messages)),
    }
    modifies = ['self.status', 'self.outgoing_messages', 'self.incoming_messages', 'self.pending_callbacks', 'self.pending_retry',
                'self.pending_acks', 'self.seq_message', 'self.stats.sent'] + ['field:PendingMessage.' + f for f in
                ('seq', 'type', 'payload', 'callback', 'retry', 'assembled_time')]


@contract('connection.ConnectionBase._encode_packet', props=['C03'])
class _:
    """the client-side send site (UdpClient.update) and every test harness go through here: the packet is encoded with THIS
    connection's session key (None before key agreement), the result is returned unchanged, an encoding error propagates"""
    def setup(E):
        self = make_conn(E, key='some')
        pkt = E.plain_obj(tag='pkt', to_bytes=E.opaque('pkt.to_bytes', effect=lambda ip, fn, a, k: to_bytes_effect(ip, 0, a), may_raise=True))
        return dict(self=self, pkt=pkt)
    ensures = {
        'encoded-with-the-connections-own-key': lambda events, self, result, ghost: (
            len([e for e in events if e[0] == 'pkt.to_bytes']) == 1 and [e for e in events if e[0] == 'pkt.to_bytes'][0][1][0] is self.session_key_bytes
            and result is ghost.wire[0][0]),
    }
    may_raise = ['Exception']
    modifies = ['self.stats.pkts_sent', 'self.stats.bytes_sent']


# ------------------------------------------------------------------------------------------ "all handler events run on one thread"
@lemma('handler-events-are-raised-only-from-the-server-thread', props=['C10'])
def _one_thread(E):
    """structural, computed from the ASTs of the current tree: every call of handler.starting/connect/handle_message/disconnect/
    update/shutdown sits in UdpServerThread.run or in ServerContext.onConnect/onDisconnect; those two are called only from
    run, from ServerContext._onConnect and (through it) from the connection methods run calls; the reactor-side entry points
    (TwistedServer.datagramReceived, _UdpServer.run) only append to the thread's queue (their own contracts).  Thread
    interleavings themselves are not modelled."""
    import ast
    EVENTS = {'starting', 'connect', 'handle_message', 'disconnect', 'update', 'shutdown'}
    raised_in = set()
    callers = {}
    for mod in ('server', 'context', 'connection', 'twisted', 'client', 'handler'):
        m = E.ip.repo.module(mod)
        if m is None:
            continue
        funcs = [(f.qualname, f.node) for f in m.functions.values()]
        for c in m.classes.values():
            funcs += [(f.qualname, f.node) for f in c.methods.values()]
        for q, node in funcs:
            for n in ast.walk(node):
                if isinstance(n, ast.Call) and isinstance(n.func, ast.Attribute):
                    f = n.func
                    if f.attr in EVENTS and isinstance(f.value, ast.Attribute) and f.value.attr == 'handler':
                        raised_in.add(q)
                    if f.attr in ('onConnect', 'onDisconnect', '_onConnect'):
                        callers.setdefault(f.attr, set()).add(q)
    allowed_raise = {'server.UdpServerThread.run', 'context.ServerContext.onConnect', 'context.ServerContext.onDisconnect'}
    allowed_callers = {'onConnect': {'context.ServerContext._onConnect'}, 'onDisconnect': {'server.UdpServerThread.run'},
                       '_onConnect': {'connection.ServerClientConnection._recvChallengeResponse'}}
    return {
        'handler-methods-are-called-only-in-run-and-the-two-context-wrappers': raised_in <= allowed_raise and len(raised_in) > 0,
        'the-context-wrappers-are-reached-only-from-the-server-loop': all(callers.get(k, set()) <= v for k, v in allowed_callers.items()),
    }
