"""Shared builders for symbolic pre-states (used by the setup() functions of several contract files)."""
import z3
from pyvc.dsl import S
from pyvc import ops
from pyvc.values import *

CONN = 'connection.ConnectionBase'
CSC = 'connection.ClientServerConnection'
SCC = 'connection.ServerClientConnection'
SEQ = 'connection.SeqNum'
STATUS = 'connection.ConnectionStatus'
PTYPE = 'connection.PacketType'
RETRY = 'connection.RetryMode'


def clock(E, name='clock'):
    """conn.clock: an opaque callable returning a non-decreasing, non-negative real (the property's clock assumption)"""
    def effect(ip, fn, args, kwargs):
        t = ip.ctx.fresh('now', z3.RealSort())
        last = ip.state.ghost.get('clock_last')
        if last is not None:
            ip.ctx.assume(t >= last)
        ip.ctx.assume(t >= 0)
        ip.state.ghost['clock_last'] = t
        reads = ip.state.ghost.setdefault('clock_reads', [])
        ip.ctx.inputs['__clock__%d' % len(reads)] = Sym(t, 'real')
        reads.append(t)
        return Sym(t, 'real')
    return E.opaque(name, effect=effect)


def user_callback(E, name, may_raise=True):
    """a user supplied callback: calls are recorded as events; it may raise any Exception"""
    return E.opaque(name, may_raise=may_raise, returns=None)


def status(E, name='status'):
    return E.enum(STATUS, name)


def member(E, qual, name):
    return E.member(qual, name)
