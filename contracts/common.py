"""Shared builders for symbolic pre-states (used by the setup() functions of several contract files)."""
import z3
from pyvc.dsl import S
from pyvc import ops
from pyvc.values import *

CONN = 'connection.ConnectionBase'
CSC = 'connection.ClientServerConnection'
SCC = 'connection.ServerClientConnection'
SEQ = 'connection.SeqNum'
STATUS = 'connection.ConnectionStatus'
PTYPE = 'connection.PacketType'
RETRY = 'connection.RetryMode'


def clock(E, name='clock'):
    """conn.clock: an opaque callable returning a non-decreasing, non-negative real (the property's clock assumption)"""
    def effect(ip, fn, args, kwargs):
        t = ip.ctx.fresh('now', z3.RealSort())
        last = ip.state.ghost.get('clock_last')
        if last is not None:
            ip.ctx.assume(t >= last)
        ip.ctx.assume(t >= 0)
        ip.state.ghost['clock_last'] = t
        reads = ip.state.ghost.setdefault('clock_reads', [])
        ip.ctx.inputs['__clock__%d' % len(reads)] = Sym(t, 'real')
        reads.append(t)
        return Sym(t, 'real')
    return E.opaque(name, effect=effect)


def user_callback(E, name, may_raise=True):
    """a user supplied callback: calls are recorded as events; it may raise any Exception"""
    return E.opaque(name, may_raise=may_raise, returns=None)


def status(E, name='status'):
    return E.enum(STATUS, name)


def member(E, qual, name):
    return E.member(qual, name)


# ------------------------------------------------------------------------------------------ ConnectionBase pre-state

PM = 'connection.PendingMessage'
BF = 'connection.BitField'


def declare_pending_message(E):
    """field maps of PendingMessage objects held in symbolic queues"""
    E.field(PM, 'seq', E.kind('int', SEQ), inv=lambda t: z3.And(t >= 0, t <= S.M))
    E.field(PM, 'type', E.kind('enum', PTYPE), inv=lambda t: z3.And(t >= 1, t <= 7))   # QueueInv: never UNKNOWN (0)
    # QueueInv: what send()/_send_type put into the queues: bytes payloads no longer than one datagram can carry
    E.field(PM, 'payload', E.kind('bytes'), inv=lambda t: ops.blen(t) <= 65535)
    E.field(PM, 'callback', E.kind('fn'))
    E.field(PM, 'retry', E.kind('enum', RETRY))
    E.field(PM, 'assembled_time', E.kind('real'))


def make_bitfield_w(E, name, W):
    """a BitField of concrete width W in an arbitrary state satisfying its invariant (see c08_bitfield)"""
    cur = E.int(name + '_cur', cls=SEQ, lo=0, hi=S.M)
    raw = E.pred(name + '_bits', z3.IntSort(), z3.BoolSort())
    ct = S.term(cur, 'int')
    bits = E.bitset(name + '_bits', fn=lambda j: z3.And(j >= 0, j < W, ct != 0, raw(j)))
    return E.obj(BF, tag=name, nbits=W, bits=bits, current_seqnum=cur, mask=(1 << W) - 1, onehot=1 << (W - 1))


def make_stats(E):
    return E.obj('connection.ConnectionStats', tag='stats',
                 assembled=E.int('st_assembled', lo=0), sent=E.int('st_sent', lo=0), dropped=E.int('st_dropped', lo=0),
                 received=E.int('st_received', lo=0), acked=E.int('st_acked', lo=0), timeouts=E.int('st_timeouts', lo=0),
                 pkts_sent=nonempty(E, E.symseq('pkts_sent', E.kind('int'))), pkts_recv=nonempty(E, E.symseq('pkts_recv', E.kind('int'))),
                 bytes_sent=nonempty(E, E.symseq('bytes_sent', E.kind('int'))), bytes_recv=nonempty(E, E.symseq('bytes_recv', E.kind('int'))),
                 latency=E.symseq('latency_hist', E.kind('real')))


def nonempty(E, seq):
    E.assume(seq.n >= 1)
    return seq


def make_conn(E, cls=CONN, key='some', **over):
    """a connection object in an arbitrary state (symbolic queues, tables, counters, clocks).
    key: 'none' | 'some' (16 symbolic bytes) | 'any' (fork)"""
    declare_pending_message(E)
    E.alloc()
    I, R = E.kind('int', SEQ), E.kind('real')
    ring = lambda k: z3.And(k >= 1, k <= S.M)        # table invariant: keys are sequence numbers of the ring
    if key == 'some':
        skb = E.bytes('session_key', length=16)
    elif key == 'none':
        skb = None
    else:
        skb = key
    attrs = dict(
        log=E.member_logger(), clock=clock(E), isServer=E.bool('isServer'), addr=('10.0.0.1', 4000),
        session_key_bytes=skb,
        incoming_messages=E.symseq('incoming', E.kind('box')),
        outgoing_messages=E.symseq('outgoing', E.kind('obj', PM)),
        pending_acks=E.symmap('pending_acks', I, R, key_inv=ring),
        pending_callbacks=E.symmap('pending_callbacks', I, E.kind('seq', inner=E.kind('fn')), with_size=False),
        pending_fragments=E.symmap('pending_fragments', I, E.kind('box'), with_size=False),
        received_fragments=E.symmap('received_fragments', E.kind('int'), E.kind('box'), with_size=False),
        pending_retry=E.symmap('pending_retry', I, E.kind('seq', inner=I), with_size=False),
        pending_retry_msg=E.symmap('pending_retry_msg', I, E.kind('obj', PM), key_inv=ring),
        seq_sending=E.int('seq_sending', cls=SEQ, lo=0, hi=S.M), seq_message=E.int('seq_message', cls=SEQ, lo=0, hi=S.M),
        seq_fragment=E.int('seq_fragment', cls=SEQ, lo=0, hi=S.M),
        bitfield_pkt=make_bitfield_w(E, 'bf_pkt', 32), bitfield_msg=make_bitfield_w(E, 'bf_msg', 256),
        bitfield_frag=make_bitfield_w(E, 'bf_frag', 256),
        outgoing_timeout=E.real('outgoing_timeout', lo=0), temp_connection_timeout=E.real('temp_connection_timeout', lo=0),
        send_interval=E.real('send_interval', lo=0), send_keep_alive_interval=E.real('send_keep_alive_interval', lo=0),
        latency=E.real('latency'), last_recv_time=E.real('last_recv_time'), last_send_time=E.real('last_send_time'),
        last_send_keep_alive_time=E.real('last_send_keep_alive_time'),
        status=status(E), stats=make_stats(E))
    attrs.update(over)
    return E.obj(cls, tag='self', **attrs)


def callback_effects(ip, fn, args, kwargs):
    """hook 'symfn': what a send callback (user function, RetrySender, fragment lambda) may do - assumption A-cb:
    it may queue new messages (send/_send_type: outgoing_messages, seq_message, seq_fragment, stats.sent, pending_fragments)
    and may raise any Exception; it does not touch the ack/callback/retry tables nor disconnect."""
    from pyvc.heap import havoc_path
    self = ip.state.ghost.get('conn')
    if self is not None:
        roots = {'self': self}
        for p in ('self.outgoing_messages', 'self.seq_message', 'self.seq_fragment', 'self.stats.sent', 'self.pending_fragments'):
            havoc_path(ip, roots, p)
        sm = self.attrs['seq_message']
        ip.ctx.assume(z3.And(sm.t >= 0, sm.t <= S.M))
        sf = self.attrs['seq_fragment']
        ip.ctx.assume(z3.And(sf.t >= 0, sf.t <= S.M))
    if ip.ctx.choose(2) == 1:
        ip.ctx.raise_exc('Exception', 'raised by a send callback')
    return None


CALLBACK_FRAME = ['self.outgoing_messages', 'self.seq_message', 'self.seq_fragment', 'self.stats.sent', 'self.pending_fragments']
