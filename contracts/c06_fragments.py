"""C06 / C05 / C07 — fragmentation and reassembly: ConnectionBase.send (decision), FragmentSender.build / callback / parsePayload,
FragmentReceiver.receive, _recvAppFragment (partly).  MTU symbolic (Limits)."""
import z3
from pyvc.dsl import contract, lemma, S, LoopSpec
from pyvc import ops
from pyvc.values import *
from pyvc import lib
from contracts.common import *
from contracts.c09_codec import set_limits, PKT
from contracts.c09_packing import cattr, last_msg, retry_is
from contracts.c07_acks import dom, val

FS = 'connection.FragmentSender'
FR = 'connection.FragmentReceiver'

lib.define_measure('nonecount', z3.IntSort(), lambda ip, el: z3.If((z3.IntVal(-1) if el is None else lib.tri_kind().inner[2](ip, el)) == -1, 1, 0))
lib.define_measure('concat', BytesSort, lambda ip, el: S.term(el)) if 'concat' not in lib.MEASURES else None
lib.define_measure('bytelen', z3.IntSort(), lambda ip, el: ops.blen(S.term(el))) if 'bytelen' not in lib.MEASURES else None


def bytes_seq(E, name, measures=()):
    s = E.symseq(name, E.kind('bytes'))
    for m in measures:
        E.measure(s, m)
    return s


def make_sender(E, with_cb=True):
    conn = make_conn(E)
    n = E.int('nfrag', lo=1, hi=65535)
    frags = bytes_seq(E, 'fragments')
    pays = bytes_seq(E, 'payloads')
    acks = E.symseq('acks', lib.tri_kind())
    E.measure(acks, 'nonecount')
    for s in (frags, pays, acks):
        E.assume(s.n == S.term(n))
    unresolved = E.int('unresolved', lo=0)
    E.assume(S.term(unresolved) == acks.meas['nonecount'])         # object invariant: unresolved = number of unresolved fragments
    cb = user_callback(E, 'user_cb', may_raise=True) if with_cb else None
    return E.obj(FS, tag='self', conn=conn, frag_id=E.int('frag_id', cls=SEQ, lo=1, hi=S.M), retry=E.enum(RETRY, 'retry'),
                 user_callback=cb, fragments=frags, payloads=pays, acks=acks, unresolved=unresolved)


def ack_at(acks, i):
    return z3.Select(acks.arr, S.term(i, 'int'))


for _cb in (True, False):
    @contract('connection.FragmentSender.callback', props=['C06', 'C05', 'C07'], variant='with-user-callback' if _cb else 'no-user-callback')
    class _:
        def setup(E, _cb=_cb):
            self = make_sender(E, _cb)
            E.ghost('conn', self.attrs['conn'])
            idx = E.int('index', lo=0)
            E.assume(S.term(idx) < self.attrs['acks'].n)
            # (instance of the counting invariant at the slot being written: an unresolved slot is counted)
            E.assume(z3.Implies(ack_at(self.attrs['acks'], idx) == -1, S.term(self.attrs['unresolved']) >= 1))
            a = ack_at(self.attrs['acks'], idx)
            E.assume(z3.And(a >= -1, a <= 1))            # slots hold None / False / True
            if _cb:
                # object invariant: once every fragment is resolved the user callback has been consumed (set to None)
                E.assume(S.term(self.attrs['unresolved']) >= 1)
            return dict(self=self, index=idx, success=E.bool('success'))
        uses = ['connection.ConnectionBase._send_type']
        skolems = {'j': 'int'}
        may_raise = ['Exception']       # only the user's own callback can raise
        ensures = {
            # P2' (C05/C06): a fragment that timed out is re-sent as the SAME wire payload (6-byte fragment header + data)
            'timed-out-fragment-is-resent-as-framed': lambda old, self, index, success, E: S.implies(
                S.Not(success) & S.Not(retry_is(old.self.retry, 'NONE')), resent_clause(old, self, index, E)),
            'otherwise-the-outcome-is-recorded': lambda old, self, index, success, j: S.implies(
                success | retry_is(old.self.retry, 'NONE'), recorded_clause(old, self, index, success, j)),
            # C07: the user's callback fires exactly when the last unresolved fragment is resolved - once, with all(acks)
            'user-callback-once-when-all-fragments-are-resolved': lambda old, self, index, success, events: user_cb_clause(old, self, index, success, events),
            'counting-invariant-kept': lambda self: S.bool(S.term(self.unresolved, 'int') == self.acks.meas['nonecount']),
        }


def resent_clause(old, self, index, E):
    out, out0 = self.conn.outgoing_messages, old.self.conn.outgoing_messages
    m = E.elem(out, out.n - 1)
    want = Sym(z3.Select(old.self.payloads.arr, S.term(index, 'int')), 'bytes')
    return (S.bool(out.n == out0.n + 1) & S.enum_is(m.type, m.type.cls.class_attrs['APP_FRAGMENT']) & S.eq(m.payload, want)
            & S.bool(self.acks.n == old.self.acks.n) & S.bool(z3.Select(self.acks.arr, S.term(index, 'int')) == z3.Select(old.self.acks.arr, S.term(index, 'int'))))


def recorded_clause(old, self, index, success, j):
    a, a0 = self.acks, old.self.acks
    it = S.term(index, 'int')
    st = z3.If(S.term(success) if not isinstance(success, bool) else z3.BoolVal(success), 1, 0)
    return S.bool(z3.And(a.n == a0.n, z3.Select(a.arr, it) == st,
                         z3.Implies(z3.And(0 <= S.term(j), S.term(j) < a0.n, S.term(j) != it), z3.Select(a.arr, S.term(j)) == z3.Select(a0.arr, S.term(j))),
                         self.conn.outgoing_messages.n == old.self.conn.outgoing_messages.n))


def user_cb_clause(old, self, index, success, events):
    calls = [e for e in events if e[0] == 'user_cb']
    recording = ops.or_(success if isinstance(success, bool) else success, retry_is(old.self.retry, 'NONE'))
    it = S.term(index, 'int')
    was_open = ack_at(old.self.acks, index) == -1
    last = z3.And(was_open, S.term(old.self.unresolved, 'int') == 1)
    fires = ops.and_(recording, S.bool(last))
    if old.self.user_callback is None:
        return len(calls) == 0
    if len(calls) == 0:
        return S.Not(fires)
    if len(calls) == 1:
        arg = calls[0][1][0]
        j = z3.Int('j!allacks')
        allv = z3.ForAll([j], z3.Implies(z3.And(j >= 0, j < self.acks.n), z3.Select(self.acks.arr, j) == 1))
        return fires & S.bool(ops.bterm(arg) == allv) & (self.user_callback is None)
    return False


# ------------------------------------------------------------------------------------------ parsePayload / receiver
@contract('connection.FragmentSender.parsePayload', props=['C06', 'C14'])
class _:
    def setup(E):
        return dict(payload=E.bytes('payload'))
    raises = {'struct-error-iff-shorter-than-the-fragment-header': ('struct.error', lambda payload: S.len(payload) < 6)}
    ensures = {
        'header-fields-and-data': lambda payload, result: S.eq(result[0], S.upk('H', S.slice(payload, 0, 2)))
        & S.eq(result[1], S.upk('H', S.slice(payload, 2, 4))) & S.eq(result[2], S.upk('H', S.slice(payload, 4, 6)))
        & S.is_slice(result[3], payload, 6, S.len(payload)),
    }
    returns = lambda E, args: (S.upk('H', S.slice(args['payload'], 0, 2)), S.upk('H', S.slice(args['payload'], 2, 4)),
                               S.upk('H', S.slice(args['payload'], 4, 6)), S.slice(args['payload'], 6, S.len(args['payload'])))


def parse_result(E):
    ip = E.ip
    def i(n):
        t = ip.ctx.fresh(n, z3.IntSort())
        ip.ctx.assume(z3.And(t >= 0, t <= 65535))
        ops.declare_bounds(t, 0, 65535)
        return Sym(t, 'int')
    d = ip.ctx.fresh('frag_data', BytesSort)
    n = ip.ctx.fresh('frag_data_len', z3.IntSort())
    ip.ctx.assume(n >= 0)
    ops.set_len_term(d, n)
    return (i('frag_id'), i('frag_index'), i('frag_count'), Sym(d, 'bytes'))


def opt_bytes_kind():
    """list slots holding None or a bytes value: (filled, bytes)"""
    if not hasattr(opt_bytes_kind, 'k'):
        ts, mk_, (a_f, a_b) = pair_sort(z3.BoolSort(), BytesSort)

        def wrap(ip, t):
            t = z3.simplify(t)
            if ip.ctx.branch(ops.sbool(a_f(t))):
                return Sym(z3.simplify(a_b(t)), 'bytes')
            return None

        def unwrap(ip, v):
            if v is None:
                return mk_(z3.BoolVal(False), z3.Empty(BytesSort))
            return mk_(z3.BoolVal(True), S.term(v))
        k = Kind('custom', None, (ts, wrap, unwrap))
        k.truthy = lambda t: z3.And(a_f(t), z3.Length(a_b(t)) > 0)
        k.join = (z3.Function('join_slots_in_list_order', z3.ArraySort(z3.IntSort(), ts), z3.IntSort(), BytesSort), a_f, a_b)
        opt_bytes_kind.k = k
        opt_bytes_kind.acc = (a_f, a_b)
    return opt_bytes_kind.k


@contract('connection.FragmentReceiver.receive', props=['C06'])
class _:
    """any arrival order, duplicates, out-of-range indices: a slot is written once, with the fragment that arrived first"""
    def setup(E):
        frs = E.symseq('slots', opt_bytes_kind())
        self = E.obj(FR, tag='self', conn=None, fragments=frs, ctime=E.real('ctime'), msgseq=E.int('r_msgseq', cls=SEQ, lo=0, hi=S.M),
                     frag_count=E.int('frag_count', lo=0))
        return dict(self=self, index=E.int('index', lo=0, hi=65535), msgseq=E.int('msgseq', cls=SEQ, lo=1, hi=S.M), fragment=E.bytes('fragment'))
    skolems = {'j': 'int'}
    ensures = {
        'first-write-wins-and-only-that-slot-changes': lambda old, self, index, fragment, j: slot_clause(old, self, index, fragment, j),
        'message-seq-is-that-of-the-first-fragment': lambda old, self, index, msgseq: S.eq(
            S.ival(self.msgseq), S.ite(index == 1, S.ival(msgseq), S.ival(old.self.msgseq))),
    }
    modifies = ['self.fragments', 'self.msgseq']


def slot_clause(old, self, index, fragment, j):
    a_f, a_b = opt_bytes_kind.acc
    f, f0 = self.fragments, old.self.fragments
    it = S.term(index, 'int')
    jt = S.term(j)
    slot0 = z3.Select(f0.arr, it - 1)
    slot = z3.Select(f.arr, it - 1)
    in_range = z3.And(1 <= it, it <= f0.n)
    return S.bool(z3.And(
        f.n == f0.n,
        z3.Implies(z3.And(0 <= jt, jt < f0.n, z3.Or(z3.Not(in_range), jt != it - 1)), z3.Select(f.arr, jt) == z3.Select(f0.arr, jt)),
        z3.Implies(z3.And(in_range, a_f(slot0)), slot == slot0),
        z3.Implies(z3.And(in_range, z3.Not(a_f(slot0))), z3.And(a_f(slot), a_b(slot) == S.term(fragment)))))


# ------------------------------------------------------------------------------------------ FragmentSender.build
def frag_list_kind(ip, v, name):
    from pyvc.heap import fresh_like
    if isinstance(v, SymSeq):
        return fresh_like(ip, v, name)
    s = SymSeq(z3.K(z3.IntSort(), z3.Empty(BytesSort)), z3.IntVal(0), Kind('bytes'))
    s.meas['concat'] = z3.Empty(BytesSort)
    s.meas['bytelen'] = z3.IntVal(0)
    return fresh_like(ip, s, name)


def plain_bytes_list_kind(ip, v, name):
    from pyvc.heap import fresh_like
    if isinstance(v, SymSeq):
        return fresh_like(ip, v, name)
    return fresh_like(ip, SymSeq(z3.K(z3.IntSort(), z3.Empty(BytesSort)), z3.IntVal(0), Kind('bytes')), name)


def frag_at(lst, j):
    if isinstance(lst, SymSeq):
        return Sym(z3.Select(lst.arr, S.term(j, 'int')), 'bytes')
    c = ops.const_int(j)
    return lst.items[c] if c is not None and 0 <= c < len(lst.items) else b''


def lst_n(lst):
    return lst.n if isinstance(lst, SymSeq) else z3.IntVal(len(lst.items))


def framed(self, j, n, frag):
    """the wire payload of fragment j (0-based): be16(frag id) be16(j+1) be16(count) data"""
    return S.concat(S.pk('H', S.ival(self.frag_id)), S.pk('H', j + 1), S.pk('H', n), frag)


YK = Kind('pair', None, (Kind('bytes'), Kind('fn')))


def yielded_payload(yields, j):
    ts, mk_, (a0, a1) = pair_sort(BytesSort, z3.IntSort())
    if isinstance(yields, SymSeq):
        return Sym(a0(z3.Select(yields.arr, S.term(j, 'int'))), 'bytes')
    c = ops.const_int(j)
    if c is None or not (0 <= c < len(yields.items)):
        return b''           # concrete (empty) list before the loop: the clause is guarded by j < _i = 0
    return yields.items[c][0]


def callback_recorder(ip, self, index, success):
    ip.state.events.append(('FragmentSender.callback', self, index, success))
    return None


def check_meta_callback(ip, frame, env):
    """ghost code at the end of one (arbitrary) iteration of the yield loop: the callback yielded with fragment `index` reports
    for THAT fragment - it calls self.callback(index, success) once - and it does not read a variable that later iterations
    re-assign (python closures bind late: such a callback would report for another fragment by the time it is called)"""
    import ast
    from pyvc import interp as I
    key = ip.verifying_key
    cb = frame.locals.get('meta_callback')
    if not isinstance(cb, Closure):
        # the local was renamed or the callback is built differently: this ghost code cannot find it -> undecided, not a violation
        raise Unsupported('the ghost code of the yield loop looks for the local `meta_callback` holding the yielded closure')
    node = cb.node
    params = {a.arg for a in node.args.posonlyargs + node.args.args + node.args.kwonlyargs}
    body = node.body if isinstance(node.body, list) else [node.body]
    free = set()
    for b in body:
        for n in ast.walk(b):
            if isinstance(n, ast.Name) and isinstance(n.ctx, ast.Load) and n.id not in params:
                free.add(n.id)
    fn = ip.repo.func('connection.FragmentSender.build').node
    reassigned = I.assigned_names(fn)
    late = sorted(free & reassigned)
    ip.ctx.oblige('%s/loop@yield-loop:iteration/callback-binds-its-fragment-index-when-created' % key, z3.BoolVal(not late),
                  detail='the callback reads %s, which the loop re-assigns before the callback is called (late binding)' % late)
    succ = Sym(ip.ctx.fresh('success', z3.BoolSort()), 'bool')
    n0 = len(ip.state.events)
    ip.call(cb, [succ], {})
    ev = [e for e in ip.state.events[n0:] if e[0] == 'FragmentSender.callback']
    ok = z3.BoolVal(False)
    if len(ev) == 1 and ev[0][1] is frame.locals.get('self') and ev[0][3] is succ:
        ok = S.term(ev[0][2], 'int') == S.term(frame.locals['index'], 'int')
    ip.ctx.oblige('%s/loop@yield-loop:iteration/callback-reports-for-its-own-fragment' % key, ok)
    del ip.state.events[n0:]


@contract('connection.FragmentSender.build', props=['C06', 'C05'])
class _:
    hooks = {'model:connection.FragmentSender.callback': callback_recorder}
    cvc5_first = ['split-loop:preserved/pieces-plus-rest-are-the-payload']       # z3's sequence solver needs > 60 s, cvc5 seconds
    def setup(E):
        set_limits(E, E.int('MTU', lo=96, hi=1500))      # every MTU setMTU may be given that leaves room for a fragment (small ones keep counter-examples short)
        self = E.obj(FS, tag='self', conn=None, frag_id=E.int('frag_id', cls=SEQ, lo=1, hi=S.M), retry=E.enum(RETRY, 'retry'),
                     user_callback=None, fragments=E.list([]), payloads=E.list([]), acks=E.list([]), unresolved=0)
        return dict(self=self, payload=E.bytes('p'))
    skolems = {'j': 'int'}
    raises = {
        # "a payload above the fragmentation limit is refused with an error, never truncated"
        'value-error-iff-above-the-fragmentation-limit': ('ValueError', lambda payload, E: S.len(payload) > cattr(E, 'MAX_FRAGMENT_SIZE') * 8192),
    }
    loops = {
        0: LoopSpec(
            invariant={
                # (the cheap integer clause first: a clause the solver leaves undecided is assumed for the clauses after it)
                'lengths-add-up': lambda self, payload, old: S.meas(self.fragments, 'bytelen') + S.len(payload) == S.len(old.payload),
                'pieces-plus-rest-are-the-payload': lambda self, payload, old: S.eq(S.concat(S.meas(self.fragments, 'concat'), payload), old.payload),
                'every-piece-is-non-empty-and-fits-a-datagram': lambda self, j, E: S.implies(
                    (0 <= j) & S.bool(S.term(j) < lst_n(self.fragments)),
                    (S.len(frag_at(self.fragments, j)) >= 1) & (S.len(frag_at(self.fragments, j)) + 6 <= cattr(E, 'MAX_PAYLOAD_SIZE')))
                if isinstance(self.fragments, SymSeq) else True,
                'full-size-pieces-while-data-remains': lambda self, payload, E: S.implies(
                    S.len(payload) > 0, S.meas(self.fragments, 'bytelen') == cattr(E, 'MAX_FRAGMENT_SIZE') * S.wrap(lst_n(self.fragments))),
                # count bound (so that the 16 bit count field can hold it): at most 8192 full pieces, plus the last one
                'count-bound': lambda self, payload: S.bool(z3.And(lst_n(self.fragments) <= 8193, z3.Implies(S.term(S.len(payload), 'int') > 0, lst_n(self.fragments) <= 8191))),
            },
            havoc=['self.fragments'], havoc_kinds={'self.fragments': frag_list_kind}, label='split-loop'),
        1: LoopSpec(
            invariant={
                'one-yield-and-one-stored-payload-per-fragment': lambda self, _yields, _i: S.bool(z3.And(
                    lst_n(_yields) == S.term(_i, 'int'), lst_n(self.payloads) == S.term(_i, 'int'))),
                'stored-wire-payload-is-the-framed-fragment': lambda self, _i, j: S.implies(
                    (0 <= j) & (j < _i), S.eq(frag_at(self.payloads, j), framed(self, j, S.wrap(lst_n(self.fragments)), frag_at(self.fragments, j)))),
            },
            havoc=['self.payloads'], havoc_kinds={'self.payloads': plain_bytes_list_kind}, yields_kind=YK, label='yield-loop', ghost_post=check_meta_callback),
    }
    ensures = {
        'fragments-concatenate-to-the-payload': lambda self, old: S.eq(S.meas(self.fragments, 'concat'), old.payload),
        'one-wire-payload-per-fragment': lambda self, result: S.bool(z3.And(lst_n(result) == lst_n(self.fragments), lst_n(self.payloads) == lst_n(self.fragments))),
        'wire-payload-is-header-plus-fragment': lambda self, result, j: S.implies(
            (0 <= j) & S.bool(S.term(j) < lst_n(self.fragments)),
            S.eq(frag_at(self.payloads, j), framed(self, j, S.wrap(lst_n(self.fragments)), frag_at(self.fragments, j)))),
        'every-fragment-non-empty-and-packable': lambda self, j, E: S.implies(
            (0 <= j) & S.bool(S.term(j) < lst_n(self.fragments)),
            (S.len(frag_at(self.fragments, j)) >= 1) & (S.len(frag_at(self.fragments, j)) + 6 <= cattr(E, 'MAX_PAYLOAD_SIZE'))),
        'all-fragments-unresolved': lambda self: S.bool(z3.And(S.term(self.unresolved, 'int') == lst_n(self.fragments),
                                                               lst_n(self.acks) == lst_n(self.fragments))),
    }


# ------------------------------------------------------------------------------------------ ConnectionBase.send
def send_setup(E, large):
    set_limits(E)
    self = make_conn(E)
    E.ghost('conn', self)
    p = E.bytes('payload')
    mps = S.term(cattr(E, 'MAX_PAYLOAD_SIZE'), 'int')
    E.assume(ops.blen(p.t) > mps if large else ops.blen(p.t) <= mps)
    cb = SymFn(z3.Int('user_cb'))
    E.assume(cb.ref >= 0)
    return dict(self=self, payload=p, retry=E.enum(RETRY, 'retry'), callback=cb)


def connected(x):
    return S.enum_is(x.status, x.status.cls.class_attrs['CONNECTED'])


@contract('connection.ConnectionBase.send', props=['C06', 'C05', 'C09', 'C03'], variant='single-datagram')
class _:
    """payloads up to the single-datagram limit are NOT fragmented: exactly one APP message carrying the very payload"""
    def setup(E):
        return send_setup(E, False)
    uses = ['connection.ConnectionBase._send_type']
    hooks = {'model:connection.FragmentSender.build': lambda ip, self, payload: build_model(ip, self, payload)}   # (unreachable on the current tree)
    loops = {0: LoopSpec(invariant={}, havoc=['self.outgoing_messages', 'self.seq_message', 'self.stats.sent', 'ghost.alloc']
                         + ['field:PendingMessage.' + f for f in ('seq', 'type', 'payload', 'callback', 'retry', 'assembled_time')],
                         label='fragment-loop')}
    ensures = {
        'one-app-message-with-the-payload-when-connected': lambda old, self, payload, retry, E: S.ite(
            connected(old.self),
            S.bool(self.outgoing_messages.n == old.self.outgoing_messages.n + 1)
            & S.enum_is(last_msg(E, self).type, last_msg(E, self).type.cls.class_attrs['APP'])
            & S.eq(last_msg(E, self).payload, payload) & S.enum_is(last_msg(E, self).retry, retry),
            S.bool(self.outgoing_messages.n == old.self.outgoing_messages.n)),
        # P0 (C05): what is queued can always leave: it fits a datagram on its own
        'queued-message-fits-a-datagram': lambda old, self, payload, E: S.implies(
            connected(old.self), 20 + 2 + S.len(payload) + 16 <= cattr(E, 'MAX_SIZE')),
        'no-fragment-bookkeeping': lambda old, self: S.eq(S.ival(self.seq_fragment), S.ival(old.self.seq_fragment)),
    }


def build_model(ip, self, payload):
    """FragmentSender.build as used by send(): its verified contract (c06: raises iff above the limit, one framed wire payload per
    fragment, every fragment non-empty and packable), abstracted to the number of yielded pairs"""
    ip.state.ghost['sender'] = self          # the FragmentSender the real send() constructed (its retry mode and callback are checked)
    E_cls = ip.repo.cls(PKT)
    mfs = ip.class_attr(E_cls, 'MAX_FRAGMENT_SIZE')[1]
    n_bytes = ops.bytes_len(payload)
    ip.ctx.raise_if(ops.compare('Gt', n_bytes, ops.binop('Mult', mfs, 8192)), 'ValueError', 'packet too large')
    arr = ip.ctx.fresh('built', z3.ArraySort(z3.IntSort(), YK.sort()))
    n = ip.ctx.fresh('n_fragments', z3.IntSort())
    ip.ctx.assume(z3.And(n >= 1, n <= 8193))
    ip.state.ghost['n_fragments'] = n
    ts, mk_, (a0, a1) = pair_sort(BytesSort, z3.IntSort())
    ip.state.ghost['built'] = arr
    return SymSeq(arr, n, YK)


def send_loop_elem_facts(ip, frame, env):
    """instance of build's contract at the fragment being queued: a callable callback, a packable wire payload"""
    ts, mk_, (a0, a1) = pair_sort(BytesSort, z3.IntSort())
    e = z3.Select(ip.state.ghost['built'], S.term(env['_i'], 'int'))
    mps = S.term(ip.class_attr(ip.repo.cls(PKT), 'MAX_PAYLOAD_SIZE')[1], 'int')
    ip.ctx.assume(z3.And(a1(e) > 0, z3.Length(a0(e)) >= 7, z3.Length(a0(e)) <= mps))


@contract('connection.ConnectionBase.send', props=['C06', 'C05'], variant='fragmented')
class _:
    def setup(E):
        return send_setup(E, True)
    uses = ['connection.ConnectionBase._send_type']
    hooks = {'model:connection.FragmentSender.build': build_model}
    raises = {
        'refused-iff-above-the-fragmentation-limit': ('ValueError', lambda old, payload, E: connected(old.self)
                                                       & (S.len(payload) > cattr(E, 'MAX_FRAGMENT_SIZE') * 8192)),
    }
    loops = {0: LoopSpec(
        invariant={
            'one-message-queued-per-fragment': lambda old, self, _i: S.bool(self.outgoing_messages.n == old.self.outgoing_messages.n + S.term(_i, 'int')),
            'fragment-counter': lambda old, self: S.eq(S.ival(self.seq_fragment), S.ite(S.ival(old.self.seq_fragment) < S.M, S.ival(old.self.seq_fragment) + 1, 1)),
            'ring': lambda self: (0 <= S.ival(self.seq_message)) & (S.ival(self.seq_message) <= S.M),
        },
        havoc=['self.outgoing_messages', 'self.seq_message', 'self.stats.sent', 'ghost.alloc'] + ['field:PendingMessage.' + f for f in
               ('seq', 'type', 'payload', 'callback', 'retry', 'assembled_time')],
        ghost_pre=send_loop_elem_facts, label='fragment-loop')}
    ensures = {
        'one-message-per-fragment-and-bookkeeping-entry': lambda old, self, ghost: (
            S.bool(z3.And(self.outgoing_messages.n == old.self.outgoing_messages.n + ghost.n_fragments,
                          dom(self.pending_fragments, S.term(self.seq_fragment, 'int')))) & connected(old.self))
            if hasattr(ghost, 'n_fragments') else (S.bool(self.outgoing_messages.n == old.self.outgoing_messages.n) & S.Not(connected(old.self))),
        # C05: the FragmentSender re-sends timed-out fragments according to the retry mode the APPLICATION asked for (the per-
        # fragment messages are downgraded to NONE afterwards) and reports to the application's callback
        'fragment-sender-keeps-the-requested-retry-mode-and-callback': lambda old, ghost, retry, callback: (
            S.enum_is(ghost.sender.attrs['retry'], old.retry) & (ghost.sender.attrs['user_callback'] is callback)
            & (ghost.sender.attrs['conn'] is old.self or True)) if hasattr(ghost, 'sender') else True,
    }


# ------------------------------------------------------------------------------------------ FragmentReceiver.isComplete / payload
JOIN = z3.Function('bytes_join_in_list_order', z3.ArraySort(z3.IntSort(), BytesSort), z3.IntSort(), BytesSort)


def slots_setup(E, all_filled=False):
    frs = E.symseq('slots', opt_bytes_kind())
    return E.obj(FR, tag='self', conn=None, fragments=frs, ctime=E.real('ctime'), msgseq=E.int('r_msgseq', cls=SEQ, lo=0, hi=S.M),
                 frag_count=E.int('frag_count', lo=0))


@contract('connection.FragmentReceiver.isComplete', props=['C06', 'C04'])
class _:
    """complete exactly when EVERY slot holds a (non-empty) fragment: true implies slot j is filled for every j (Skolem), and an
    empty slot anywhere makes it false"""
    def setup(E):
        return dict(self=slots_setup(E))
    skolems = {'j': 'int'}
    ensures = {
        'complete-implies-every-slot-filled': lambda self, result, j: S.implies(
            result & (0 <= j) & S.bool(S.term(j) < self.fragments.n), S.bool(opt_bytes_kind.acc[0](z3.Select(self.fragments.arr, S.term(j))))),
        'an-unfilled-slot-means-not-complete': lambda self, result, j: S.implies(
            (0 <= j) & S.bool(z3.And(S.term(j) < self.fragments.n, z3.Not(opt_bytes_kind.acc[0](z3.Select(self.fragments.arr, S.term(j)))))),
            S.Not(result)),
        'all-slots-filled-with-data-means-complete': lambda self, result: S.implies(S.bool(all_filled_term(self.fragments)), result),
    }
    returns = 'bool'
    modifies = []


def all_filled_term(f):
    a_f, a_b = opt_bytes_kind.acc
    k = z3.Int('k!filled')
    return z3.ForAll([k], z3.Implies(z3.And(k >= 0, k < f.n), z3.And(a_f(z3.Select(f.arr, k)), z3.Length(a_b(z3.Select(f.arr, k))) > 0)))


@contract('connection.FragmentReceiver.payload', props=['C06'])
class _:
    """the reassembled message is the concatenation of the slots IN INDEX ORDER (so, with receive's 'slot index-1 holds fragment
    index' and build's 'fragments concatenate to the payload', the bytes the peer sent): stated through the prefix function of
    the join, checked explicitly for one and two fragments; an unfilled slot raises TypeError instead of being skipped"""
    def setup(E):
        return dict(self=slots_setup(E))
    raises = {'type-error-iff-a-slot-is-unfilled': ('TypeError', lambda self: S.Not(S.bool(every_slot_filled(self.fragments))))}
    ensures = {
        'one-fragment': lambda self, result: S.implies(S.bool(self.fragments.n == 1), S.bool(S.term(result) == opt_bytes_kind.acc[1](z3.Select(self.fragments.arr, 0)))),
        'two-fragments-in-index-order': lambda self, result: S.implies(S.bool(self.fragments.n == 2), S.bool(S.term(result) == z3.Concat(
            opt_bytes_kind.acc[1](z3.Select(self.fragments.arr, 0)), opt_bytes_kind.acc[1](z3.Select(self.fragments.arr, 1))))),
        'last-fragment-comes-last': lambda self, result: S.implies(S.bool(self.fragments.n >= 1), S.bool(z3.SuffixOf(
            opt_bytes_kind.acc[1](z3.Select(self.fragments.arr, self.fragments.n - 1)), S.term(result)))),
    }
    returns = 'bytes'
    modifies = []


def every_slot_filled(f):
    k = z3.Int('k!slot')
    return z3.ForAll([k], z3.Implies(z3.And(k >= 0, k < f.n), opt_bytes_kind.acc[0](z3.Select(f.arr, k))))


# ------------------------------------------------------------------------------------------ ConnectionBase._recvAppFragment
# The reassembly contexts are references in the table received_fragments; FragmentReceiver's methods are used through recorded
# models here (each has its own verified contract above): what is decided is the CONTROL logic - which context gets which
# fragment, when a message is handed over, with what, and that the context goes away.
EXPIRED = z3.Function('receiver_expired', z3.IntSort(), z3.BoolSort())
from contracts.c08_bitfield import recv as in_view


def completed_recently(conn, fid):
    """the fragment id is in the window of recently completed fragmented messages (view of bitfield_frag: the newest completed
    id and the 256 before it)"""
    bf = conn.bitfield_frag
    return in_view(bf.current_seqnum, bf.bits, 256, fid)


def not_behind_the_window(conn, fid):
    cur = conn.bitfield_frag.current_seqnum
    d = S.rdist(cur, fid)                 # how far behind the newest completed id
    ahead = S.rdist(fid, cur)
    return (S.ival(cur) == 0) | ((1 <= ahead) & (ahead <= S.T)) | ((0 <= d) & (d <= 256))


def replay_f10(label, model):
    if 'not-reassembled-again' not in label:
        return None
    import os
    here = os.path.dirname(os.path.dirname(os.path.abspath(__file__)))
    return open(os.path.join(here, 'notes', 'replays', 'f10_fragment_redelivery.py')).read()


COMP_SRC = '[frag_id for frag_id, receiver in self.received_fragments.items() if receiver.expired()]'


def fr_new(ip, info, conn, count, ctime):
    so = ip.new_symobj(info)
    ip.state.events.append(('FR.new', (so, count), {}))
    return so


def fr_receive(ip, self, index, msgseq, fragment):
    ip.state.events.append(('FR.receive', (self, index, msgseq, fragment), {}))
    # (receive may set the context's message seq: its own contract)
    arr, kind = ip.state.fields[('FragmentReceiver', 'msgseq')]
    t = ip.ctx.fresh('ctx_msgseq', z3.IntSort())
    ip.ctx.assume(z3.And(t >= 0, t <= S.M))
    ip.state.fields[('FragmentReceiver', 'msgseq')] = (z3.Store(arr, self.ref, t), kind)
    return None


def fr_is_complete(ip, self):
    r = Sym(ip.ctx.fresh('complete', z3.BoolSort()), 'bool')
    ip.state.events.append(('FR.isComplete', (self, r), {}))
    return r


def fr_payload(ip, self):
    t = ip.ctx.fresh('reassembled', BytesSort)
    ops.set_len_term(t, ip.ctx.fresh('reassembled_len', z3.IntSort()))
    r = Sym(t, 'bytes')
    ip.state.events.append(('FR.payload', (self, r), {}))
    return r


def fr_expired(ip, self):
    return ops.sbool(EXPIRED(self.ref))


def recv_app_model(ip, self, msgseq, msg):
    ip.state.events.append(('_recvApp', (msgseq, msg), {}))
    return None


def expired_keys(ip, frame, node):
    """the list comprehension over received_fragments.items(): some enumeration of exactly the ids whose context is expired
    (dict iteration contract, pointwise)"""
    self = frame.locals['self']
    m = self.attrs['received_fragments']
    arr = ip.ctx.fresh('expired_ids', z3.ArraySort(z3.IntSort(), z3.IntSort()))
    n = ip.ctx.fresh('n_expired', z3.IntSort())
    ip.ctx.assume(n >= 0)
    s = SymSeq(arr, n, Kind('int'))

    class Facts:
        def on_read(self_, ip2, seq, i, el):
            k = z3.Select(arr, i)
            ip2.ctx.assume(z3.And(z3.Select(m.dom, k), EXPIRED(z3.Select(m.val, k))))
    s.facts = Facts()
    return s


RAF_HOOKS = {'class:connection.FragmentReceiver': fr_new, 'model:connection.FragmentReceiver.receive': fr_receive,
             'model:connection.FragmentReceiver.isComplete': fr_is_complete, 'model:connection.FragmentReceiver.payload': fr_payload,
             'model:connection.FragmentReceiver.expired': fr_expired, 'model:connection.ConnectionBase._recvApp': recv_app_model,
             'comprehension:' + COMP_SRC: expired_keys}


def raf_setup(E):
    E.alloc()
    E.field(FR, 'msgseq', E.kind('int', SEQ), inv=lambda t: z3.And(t >= 0, t <= S.M))
    self = make_conn(E, received_fragments=E.symmap('received_fragments', E.kind('int'), E.kind('obj', FR), with_size=False))
    frag = E.bytes('fragment')
    # BitField.insert / contains state their view clauses at a Skolem x: used here at the inserted / tested id itself
    E.instance('x', lambda env: S.ival(env['seqnum']))
    return dict(self=self, msgseq=E.int('msgseq', cls=SEQ, lo=1, hi=S.M), fragment=frag)


def parsed(fragment):
    return (S.upk('H', S.slice(fragment, 0, 2)), S.upk('H', S.slice(fragment, 2, 4)), S.upk('H', S.slice(fragment, 4, 6)))


def routed_clause(old, events, msgseq, fragment):
    fid, index, count = parsed(fragment)
    rc = [e for e in events if e[0] == 'FR.receive']
    new = [e for e in events if e[0] == 'FR.new']
    if len(rc) != 1 or len(new) > 1:
        return False
    ctx_, i, ms, data = rc[0][1]
    m0 = old.self.received_fragments
    had = z3.Select(m0.dom, S.term(fid, 'int'))
    target = ctx_.ref == (new[0][1][0].ref if new else z3.Select(m0.val, S.term(fid, 'int')))
    fresh_iff_unknown = z3.Not(had) if new else had
    count_ok = S.eq(new[0][1][1], count) if new else True
    return (S.bool(z3.And(target, fresh_iff_unknown)) & S.eq(i, index) & (ms is msgseq) & S.is_slice(data, fragment, 6, S.len(fragment)) & count_ok)


def delivery_clause(self, events, fragment):
    fid = S.term(parsed(fragment)[0], 'int')
    comp = [e for e in events if e[0] == 'FR.isComplete']
    pay = [e for e in events if e[0] == 'FR.payload']
    dl = [e for e in events if e[0] == '_recvApp']
    rc = [e for e in events if e[0] == 'FR.receive']
    if len(rc) != 1 or len(comp) < 1:
        return False
    ctx_ = rc[0][1][0]
    asked = comp[0][1][0].ref == ctx_.ref
    if len(dl) == 0:
        return S.bool(asked) & S.Not(comp[0][1][1])
    if len(dl) != 1 or len(pay) != 1:
        return False
    # handed over exactly once, with the context's own message seq and its reassembled bytes, and the context is gone
    ms, msg = dl[0][1]
    return (S.bool(z3.And(asked, pay[0][1][0].ref == ctx_.ref)) & comp[0][1][1] & (msg is pay[0][1][1])
            & S.Not(S.bool(z3.Select(self.received_fragments.dom, fid))))


@contract('connection.ConnectionBase._recvAppFragment', props=['C06', 'C04'])
class _:
    """control logic of reassembly, for every fragment and every table of contexts: the fragment is stored in the context of ITS
    fragment id (created with the announced count iff none exists), with ITS index, message seq and data bytes; the message is
    handed to _recvApp exactly when that context reports complete, once, with the context's reassembled bytes, and the context
    is then removed; the expiry sweep removes only expired contexts."""
    setup = raf_setup
    replay = replay_f10
    skolems = {'k': 'int', 'x': 'int', 'j': 'int'}
    hooks = RAF_HOOKS
    uses = ['connection.FragmentSender.parsePayload', 'connection.BitField.contains', 'connection.BitField.insert']
    loops = {0: LoopSpec(label='expiry-sweep', havoc=['self.received_fragments'], instances=lambda env: [{'k': env['frag_id']}], invariant={
        'only-expired-contexts-are-removed': lambda old, self, k, ghost: S.bool(z3.Implies(
            z3.And(z3.Select(ghost.after_delivery_dom, S.term(k)), z3.Not(EXPIRED(z3.Select(ghost.after_delivery_val, S.term(k))))),
            z3.And(z3.Select(self.received_fragments.dom, S.term(k)),
                   z3.Select(self.received_fragments.val, S.term(k)) == z3.Select(ghost.after_delivery_val, S.term(k))))),
        'nothing-is-added': lambda self, k, ghost: S.bool(z3.Implies(z3.Select(self.received_fragments.dom, S.term(k)),
                                                                     z3.Select(ghost.after_delivery_dom, S.term(k))))},
        ghost_init=lambda ip, frame, env: ip.state.ghost.update(after_delivery_dom=env['self'].attrs['received_fragments'].dom,
                                                                after_delivery_val=env['self'].attrs['received_fragments'].val))}
    ensures = {
        'fragment-is-stored-in-the-context-of-its-own-id': lambda old, events, msgseq, fragment: S.implies(
            S.Not(completed_recently(old.self, parsed(fragment)[0])), routed_clause(old, events, msgseq, fragment)),
        'handed-over-exactly-when-complete-then-forgotten': lambda old, self, events, fragment: S.implies(
            S.Not(completed_recently(old.self, parsed(fragment)[0])), delivery_clause(self, events, fragment)),
        # (ids are on the ring 1..65535; an id more than 256 completed messages behind the newest falls out of the window and
        # is not remembered - the same limit as the message window, F4)
        'a-delivered-message-is-remembered': lambda old, self, events, fragment: S.implies(
            (len([e for e in events if e[0] == '_recvApp']) == 1) & (parsed(fragment)[0] >= 1) & not_behind_the_window(old.self, parsed(fragment)[0]),
            completed_recently(self, parsed(fragment)[0])),
        # C04 / plan F10: the sender re-sends a timed-out fragment under a fresh message seq, so the message-level window cannot
        # stop it; once the message was handed over its context is gone and the late copies used to start a new one (delivered
        # twice; repaired: the ids of recently completed messages are remembered in bitfield_frag)
        'a-delivered-message-is-not-reassembled-again': lambda old, events, fragment: S.implies(
            completed_recently(old.self, parsed(fragment)[0]),
            len([e for e in events if e[0] in ('FR.new', 'FR.receive', '_recvApp')]) == 0),
    }
    may_raise = ['struct.error']
