"""C17 — path_join_safe never returns a path outside the root.
Strings are z3 strings.  Assumed contracts on the library (validated against CPython on the property's segment alphabet in the
thorough tier, never counted as proved):
  replace("\\\\","/") : the result has no backslash and equals the argument when it had none
  c in set(s.split("/")) for a separator-free constant c  <=>  s matches (.* "/")? c ("/" .*)?
  os.path.join(a, b) (POSIX) = b if b starts with "/", else a+b if a is empty or ends with "/", else a+"/"+b
  os.path.abspath: (i) for a relative name f without "." / ".." components, abspath(join(r, f)) is abspath(r) or lies below it;
                   (ii) abspath(p) = p for an absolute p in normal form (only used to pin the value of counterexamples)
                   (iii) abspath(p) is absolute
The reasoning content is therefore: WHICH names reach os.path.join - only relative, dot-free ones."""
import os
import z3
from pyvc.dsl import contract, lemma, S, LoopSpec
from pyvc import ops
from pyvc.values import *
from pyvc.lib import used

Str = z3.StringSort()
ABSPATH = z3.Function('abspath', Str, Str)


def re_any():
    return z3.Star(z3.AllChar(z3.ReSort(Str)))


def has_component(s, c):
    """c is one of the '/'-separated components of s"""
    r = z3.Concat(z3.Option(z3.Concat(re_any(), z3.Re('/'))), z3.Re(c), z3.Option(z3.Concat(z3.Re('/'), re_any())))
    return z3.InRe(s, r)


class Parts:
    """set(s.split('/')) of a symbolic string"""
    def __init__(self, s):
        self.s = s

    def pv_set(self, ip):
        return self

    def pv_list(self, ip):
        return self

    def pv_getitem(self, ip, k):
        # any slice / selection of the components, in the unspecified order of a set: SOME sub-collection
        return SomeParts(self.s)

    def pv_contains(self, ip, item):
        if isinstance(item, str) and '/' not in item:
            return ops.sbool(has_component(self.s, item))
        raise ops.Unsupported('membership of a non-constant in the split parts')


class SomeParts(Parts):
    """an unspecified sub-collection of the components: membership implies being a component, not conversely"""
    def pv_contains(self, ip, item):
        if isinstance(item, str) and '/' not in item:
            b = ip.ctx.fresh('in_some_parts', z3.BoolSort())
            ip.ctx.assume(z3.Implies(b, has_component(self.s, item)))
            return ops.sbool(b)
        raise ops.Unsupported('membership of a non-constant in the split parts')


def split_hook(ip, s, sep, maxsplit):
    if isinstance(s, Sym) and sep == '/':
        used(ip, "c in set(s.split('/')): regular-expression membership of the component")
        return Parts(s.t)
    raise ops.Unsupported('split')


def re_split_hook(ip, fn, args, kwargs):
    """re.split(pattern, s) for a pattern that is one literal separator or a character class of literal separators"""
    if len(args) != 2 or kwargs or not isinstance(args[0], str) or not isinstance(args[1], Sym):
        raise ops.Unsupported('re.split beyond (literal separator class, string)')
    pat = args[0]
    body = pat[1:-1] if pat.startswith('[') and pat.endswith(']') and len(pat) > 2 else pat
    seps, i = set(), 0
    while i < len(body):
        ch = body[i]
        if ch == '\\':
            if i + 1 >= len(body):
                raise ops.Unsupported('re.split pattern %r' % pat)
            ch = body[i + 1]
            i += 1
        elif ch in '^-.*+?()|{}$' or (body is pat and len(body) > 1 and ch not in '\\'):
            raise ops.Unsupported('re.split pattern %r' % pat)
        seps.add(ch)
        i += 1
    if body is pat and len(seps) != 1:
        raise ops.Unsupported('re.split pattern %r' % pat)
    used(ip, 're.split(class of literal separators, s): the components between the separators (regular-expression membership)')
    if seps == {'/'}:
        return Parts(args[1].t)
    return PartsOf(args[1].t, sorted(seps))


class PartsOf(Parts):
    """components of s between ANY of several literal separators"""
    def __init__(self, s, seps):
        self.s = s
        self.seps = seps

    def pv_getitem(self, ip, k):
        raise ops.Unsupported('selection from multi-separator parts')

    def pv_contains(self, ip, item):
        if isinstance(item, str) and not any(c in item for c in self.seps):
            sep = z3.Union(*[z3.Re(c) for c in self.seps]) if len(self.seps) > 1 else z3.Re(self.seps[0])
            r = z3.Concat(z3.Option(z3.Concat(re_any(), sep)), z3.Re(item), z3.Option(z3.Concat(sep, re_any())))
            return ops.sbool(z3.InRe(self.s, r))
        raise ops.Unsupported('membership of a non-constant in the split parts')


def commonprefix_hook(ip, fn, args, kwargs):
    """os.path.commonprefix([a, b]): the longest common CHARACTER prefix (not a path-component prefix)"""
    if len(args) != 1 or not isinstance(args[0], PyList) or len(args[0].items) != 2:
        raise ops.Unsupported('os.path.commonprefix of anything but a list of two strings')
    a, b = [ops.term(x) for x in args[0].items]
    used(ip, 'os.path.commonprefix([a, b]): a common character prefix of both; equal to a exactly when a is a prefix of b')
    r = ip.ctx.fresh('commonprefix', Str)
    ip.ctx.assume(z3.And(z3.PrefixOf(r, a), z3.PrefixOf(r, b), (r == a) == z3.PrefixOf(a, b), (r == b) == z3.PrefixOf(b, a)))
    return Sym(r, 'str')


def replace_hook(ip, s, a, b):
    if isinstance(s, Sym) and a == '\\' and b == '/':
        used(ip, 'str.replace("\\\\","/"): no backslash in the result; identity when there was none')
        if ip.ctx.branch(ops.sbool(z3.Not(z3.Contains(s.t, z3.StringVal('\\'))))):
            ip.state.ghost.setdefault('replaced', []).append((s.t, s.t))
            return s                      # nothing to replace: the very same string
        r = ip.ctx.fresh('unbackslashed', Str)
        ip.ctx.assume(z3.Not(z3.Contains(r, z3.StringVal('\\'))))
        ip.state.ghost.setdefault('replaced', []).append((s.t, r))
        return Sym(r, 'str')
    raise ops.Unsupported('replace')


def join_spec(a, b):
    return z3.If(z3.PrefixOf(z3.StringVal('/'), b), b,
                 z3.If(z3.Or(a == z3.StringVal(''), z3.SuffixOf(z3.StringVal('/'), a)), z3.Concat(a, b), z3.Concat(a, z3.StringVal('/'), b)))


def under(R, p):
    """p is the directory R or lies beneath it"""
    return z3.Or(p == R, z3.PrefixOf(z3.If(z3.SuffixOf(z3.StringVal('/'), R), R, z3.Concat(R, z3.StringVal('/'))), p))


def dot_free(f):
    return z3.And(z3.Not(has_component(f, '.')), z3.Not(has_component(f, '..')))


def normal_absolute(p):
    """absolute, no '.'/'..' components, no empty components, no trailing slash (or the root itself)"""
    return z3.And(z3.PrefixOf(z3.StringVal('/'), p), dot_free(p), z3.Not(z3.Contains(p, z3.StringVal('//'))),
                  z3.Or(p == z3.StringVal('/'), z3.Not(z3.SuffixOf(z3.StringVal('/'), p))))


def join_hook(ip, fn, args, kwargs):
    a, b = args
    used(ip, 'os.path.join (POSIX): second argument wins when absolute, else joined with one separator')
    r = join_spec(ops.term(a), ops.term(b))
    ip.state.ghost['join'] = (ops.term(a), ops.term(b), r)
    return Sym(r, 'str')


def abspath_hook(ip, fn, args, kwargs):
    p = ops.term(args[0])
    used(ip, 'os.path.abspath: prefix preservation for relative dot-free names; identity on absolute normal forms')
    r = ABSPATH(p)
    j = ip.state.ghost.get('join')
    if j is not None and j[2].eq(p):
        a, b, _ = j
        # (i) prefix preservation
        ip.ctx.assume(z3.Implies(z3.And(z3.Not(z3.PrefixOf(z3.StringVal('/'), b)), dot_free(b)), under(ABSPATH(a), r)))
    # (ii) identity on normal forms; (iii) the result is always an absolute path
    ip.ctx.assume(z3.Implies(normal_absolute(p), r == p))
    ip.ctx.assume(z3.PrefixOf(z3.StringVal('/'), r))
    return Sym(r, 'str')


def abspath_of(x):
    """specification-side abspath: the uninterpreted function on symbolic strings, the real one on concrete strings (replays)"""
    if isinstance(x, str):
        return os.path.abspath(x)
    t = ops.term(x)
    t = z3.simplify(t)
    if z3.is_string_value(t):
        return os.path.abspath(t.as_string())
    return Sym(ABSPATH(t), 'str')


def under_v(R, p):
    if isinstance(R, str) and isinstance(p, str):
        return p == R or p.startswith(R if R.endswith('/') else R + '/')
    return ops.sbool(under(ops.term(R), ops.term(p)))


def root_after_replace(root_directory, ghost):
    if isinstance(root_directory, str):
        return root_directory.replace('\\', '/')
    for a, r in getattr(ghost, 'replaced', []):
        if a.eq(ops.term(root_directory)):
            return Sym(r, 'str')
    return root_directory


def replay_paths(label, model):
    """the counter-model's abspath is uninterpreted, so its strings need not fail natively: try the model's strings and the
    property's adversarial segment alphabet (both separators, dot segments, absolute names, siblings that share the root's
    characters) against the real function"""
    m = model or {}
    return '''
import sys, os, itertools
from mpgameserver.http_server import path_join_safe
roots = ["/srv/www/static", "/srv/www/static/", "/r"] + [%r]
segs = ["", ".", "..", "a", "b.txt", "..a", "a..", "..."]
names = set([%r])
for n in (1, 2, 3):
    for combo in itertools.product(segs, repeat=n):
        for sep in ("/", "\\\\"):
            names.add(sep.join(combo))
            names.add("/" + sep.join(combo))
bad = []
for root in roots:
    if not isinstance(root, str) or not root.startswith("/"): continue
    R = os.path.abspath(root)
    extra = [R + "-backup/secret.key", R + "2/x", R + ".old", "/" + R + "-backup/x", "/etc/passwd", "//etc/passwd"]
    for name in list(names) + extra:
        if not isinstance(name, str): continue
        try:
            p = path_join_safe(root, name)
        except ValueError:
            continue
        except Exception as e:
            bad.append("root %%r name %%r: %%r" %% (root, name, e)); continue
        if not (p == R or p.startswith(R.rstrip("/") + "/")):
            bad.append("root %%r name %%r -> %%r is outside the root" %% (root, name, p))
for b in bad[:8]: print(b)
print("%%d names escape the root" %% len(bad))
sys.exit(1 if bad else 0)
''' % (m.get('root_directory', '/r'), m.get('filename', 'a'))


@contract('http_server.path_join_safe', props=['C17'])
class _:
    replay = replay_paths

    def setup(E):
        root = E.str('root_directory')
        # the root comes from a trusted source: an absolute directory in normal form (so that abspath(root) = root)
        rt = ops.term(root)
        E.assume(normal_absolute(rt))
        E.assume(z3.Not(z3.Contains(rt, z3.StringVal('\\'))))
        E.assume(ABSPATH(rt) == rt)          # instance of (ii) at the root
        E.ghost('replaced', [])
        return dict(root_directory=root, filename=E.str('filename'))
    hooks = {'str.split': split_hook, 'str.replace': replace_hook, 'opaque:os.path.join': join_hook, 'opaque:os.path.abspath': abspath_hook,
             'opaque:re.split': re_split_hook, 'opaque:os.path.commonprefix': commonprefix_hook}
    may_raise = ['ValueError']
    ensures = {
        # from the statement: the result is the root directory or lies beneath it
        'result-inside-the-root': lambda root_directory, result, ghost: under_v(
            abspath_of(root_after_replace(root_directory, ghost)), result),
    }
    returns = 'str'
