"""C08 — sequence-number ring: SeqNum.__new__/__add__/__sub__/diff/newer_than/__lt__/__gt__.
Spec constants come from the property statement: ring 1..65535, half range 32767."""
from pyvc.dsl import contract, lemma, S, LoopSpec

SEQ = 'connection.SeqNum'


@contract('connection.SeqNum.__new__', props=['C08'])
class _:
    def setup(E):
        return dict(cls=E.classval(SEQ), value=E.int('value'))
    raises = {'value-error-iff-out-of-range': ('ValueError', lambda value: (value < 0) | (value > S.M))}
    ensures = {'value-kept': lambda result, value: S.ival(result) == value}
    returns = 'int'


@contract('connection.SeqNum.__new__', props=['C08'], variant='none')
class _:
    def setup(E):
        return dict(cls=E.classval(SEQ), value=None)
    ensures = {'none-is-zero': lambda result: S.ival(result) == 0}


@contract('connection.SeqNum.__add__', props=['C08'])
class _:
    """requires: derived from the call sites (`+= 1`, tests' -1): -M < k < M."""
    def setup(E):
        return dict(self=E.int('self', cls=SEQ, lo=0, hi=S.M), other=E.int('other'))
    requires = {'offset-less-than-ring': lambda other: (-S.M < other) & (other < S.M)}
    ensures = {
        'in-ring-never-zero': lambda result: (1 <= S.ival(result)) & (S.ival(result) <= S.M),
        'congruent': lambda self, other, result: S.congruent(S.ival(result), S.ival(self) + other),
        'advance-by-one': lambda self, other, result: S.implies(
            other == 1, S.ival(result) == S.ite(S.ival(self) < S.M, S.ival(self) + 1, 1)),
        'is-seqnum': lambda result: result.cls is not None and result.cls.name == 'SeqNum',
    }
    returns = 'int'


@contract('connection.SeqNum.__sub__', props=['C08'])
class _:
    def setup(E):
        return dict(self=E.int('self', cls=SEQ, lo=0, hi=S.M), other=E.int('other'))
    requires = {'offset-less-than-ring': lambda other: (-S.M < other) & (other < S.M)}
    ensures = {
        'in-ring-never-zero': lambda result: (1 <= S.ival(result)) & (S.ival(result) <= S.M),
        'congruent': lambda self, other, result: S.congruent(S.ival(result), S.ival(self) - other),
        'step-back-by-one': lambda self, other, result: S.implies(
            (other == 1) & (S.ival(self) >= 1), S.ival(result) == S.ite(S.ival(self) > 1, S.ival(self) - 1, S.M)),
    }
    returns = 'int'


@contract('connection.SeqNum.diff', props=['C08'])
class _:
    def setup(E):
        return dict(self=E.int('self', cls=SEQ, lo=0, hi=S.M), other=E.int('other', cls=SEQ, lo=0, hi=S.M))
    ensures = {
        'half-range': lambda result: (-S.T <= result) & (result <= S.T),
        'congruent': lambda self, other, result: S.congruent(result, S.ival(self) - S.ival(other)),
        # taken from the statement: right for any two numbers less than half the range apart, across the wrap
        'exact-within-half-range': lambda self, other, result, k: S.implies(
            (1 <= S.ival(other)) & (-S.T <= k) & (k <= S.T) & (S.ival(self) == S.radd(S.ival(other), k)), result == k),
        'plain-int': lambda result: result.cls is None if hasattr(result, 'cls') else True,
    }
    skolems = {'k': 'int'}
    returns = 'int'


@contract('connection.SeqNum.newer_than', props=['C08'])
class _:
    def setup(E):
        return dict(self=E.int('self', cls=SEQ, lo=1, hi=S.M), other=E.int('other', cls=SEQ, lo=1, hi=S.M))
    ensures = {
        'newer-iff-ahead-within-half-range': lambda self, other, result, k: S.implies(
            (-S.T <= k) & (k <= S.T) & (S.ival(self) == S.radd(S.ival(other), k)), S.iff(result, k > 0)),
    }
    skolems = {'k': 'int'}
    returns = 'bool'


@contract('connection.SeqNum.__lt__', props=['C08'])
class _:
    def setup(E):
        return dict(self=E.int('self', cls=SEQ, lo=1, hi=S.M), other=E.int('other', cls=SEQ, lo=1, hi=S.M))
    ensures = {
        'older-iff-behind-within-half-range': lambda self, other, result, k: S.implies(
            (-S.T <= k) & (k <= S.T) & (S.ival(other) == S.radd(S.ival(self), k)), S.iff(result, k > 0)),
    }
    skolems = {'k': 'int'}
    returns = 'bool'


@contract('connection.SeqNum.__lt__', props=['C08'], variant='not-seqnum')
class _:
    def setup(E):
        return dict(self=E.int('self', cls=SEQ, lo=1, hi=S.M), other=E.int('other'))
    raises = {'type-error-for-plain-int': ('TypeError', lambda: True)}


@contract('connection.SeqNum.__gt__', props=['C08'])
class _:
    def setup(E):
        return dict(self=E.int('self', cls=SEQ, lo=1, hi=S.M), other=E.int('other', cls=SEQ, lo=1, hi=S.M))
    ensures = {
        'newer-iff-ahead-within-half-range': lambda self, other, result, k: S.implies(
            (-S.T <= k) & (k <= S.T) & (S.ival(self) == S.radd(S.ival(other), k)), S.iff(result, k > 0)),
    }
    skolems = {'k': 'int'}
    returns = 'bool'
