"""C13 - Serializable classes and SerializableEnum members: the generic field loops of Serializable.serialize / deserialize,
the headers, SerializableEnum.serialize / deserialize and the object branches of serialize_value / deserialize_value.

Modular argument (induction on the nesting depth of the value): the NESTED calls of serialize_value / deserialize_value are
replaced by their contract as an inverse pair - serialize_value(stream, v) appends some encoding enc_k of at least two bytes
(the type id) and deserialize_value, started exactly where an enc_k starts, returns that v and stops exactly at its end (this is
what the leaf and container round trips of c13_serializer prove for the leaves and, one level up, what the contracts below
prove for objects and enum members).  Started anywhere else the nested decoder returns an ARBITRARY value or raises.  The REAL
outer serialize_value, serialize_header, serialize, the REAL deserialize_value dispatcher (type id, registry, constructor) and
the REAL deserialize are executed; the field values are symbolic (an int, an opaque string, an enum member, a nested object).
Classes: contracts/shapes/shapes_bin.py (0, 1, 2 and 4 fields, none of the methods overridden)."""
import z3
from pyvc.dsl import contract, S
from pyvc import ops
from pyvc.values import *
from pyvc.ctx import PyExc, PathEnd
from pyvc.lib import used
from contracts.c13_serializer import new_stream, ostr, STR_HOOKS, advance_stream
from contracts.c15_json import same

MOD = 'shapes_bin'
CLASSES = ('Suit', 'F0', 'F1', 'F2', 'F4', 'FN', 'FD')


def chunks_of(ip):
    if not hasattr(ip, '_chunks'):
        ip._chunks = []
    return ip._chunks


def ser_model(ip, stream, value, _field=None, **kwargs):
    """nested serialize_value under its contract: appends an encoding of `value` (>= the two type-id bytes) at the end"""
    used(ip, 'nested serialize_value / deserialize_value as an inverse pair (induction on nesting depth; leaves: the round-trip contracts of c13_serializer)')
    ch = chunks_of(ip)
    t = ip.ctx.fresh('enc%d' % len(ch), BytesSort)
    n = ip.ctx.fresh('enc%d_len' % len(ch), z3.IntSort())
    ip.ctx.assume(n >= 2)
    ops.set_len_term(t, n)
    start = stream.pos
    stream.m_write(ip, Sym(t, 'bytes'))
    ch.append((start, n, value))
    return None


def des_model(ip, stream, **kwargs):
    """nested deserialize_value under its contract: exactly at the start of a recorded encoding it returns that value and
    stops at its end; anywhere else: an arbitrary value or an exception"""
    used(ip, 'nested serialize_value / deserialize_value as an inverse pair (induction on nesting depth; leaves: the round-trip contracts of c13_serializer)')
    for start, n, value in chunks_of(ip):
        if ip.ctx.branch(ops.compare('Eq', stream.pos, start, ip.ctx)):
            stream.pos = ops.binop('Add', start, Sym(n, 'int'), ip.ctx)
            return value
    if ip.ctx.choose(2) == 1:
        advance_stream(ip, stream, 0)
        ip.ctx.raise_exc('Exception', 'nested deserialize_value started where no encoding starts')
    advance_stream(ip, stream, 0)
    return Obj(None, {}, 'garbage')


HOOKS = dict(STR_HOOKS)
HOOKS['model:serializable.serialize_value'] = ser_model
HOOKS['model:serializable.deserialize_value'] = des_model


def new(E, cname, **fields):
    ip = E.ip
    o = ip.call(ClassVal(ip.repo.cls(MOD + '.' + cname)), [], {})
    for k, v in fields.items():
        ip.setattr(o, k, v, None)
    return o


def make(E, shape):
    if shape == 'Suit':
        return E.enum(MOD + '.Suit', 'm')
    if shape == 'F0':
        return new(E, 'F0')
    if shape == 'F1':
        return new(E, 'F1', a=E.int('a'))
    if shape == 'F2':
        return new(E, 'F2', a=E.int('a'), b=ostr(E, 'b'))
    if shape == 'F4':
        return new(E, 'F4', a=E.int('a'), b=ostr(E, 'b'), c=E.enum(MOD + '.Suit', 'c'),
                   d=new(E, 'F2', a=E.int('da'), b=ostr(E, 'db')))
    if shape == 'FN':
        return new(E, 'FN', e=None, n=None)
    if shape == 'FD':
        return new(E, 'FD', a=E.int('a'), b=ostr(E, 'b'))
    raise ValueError(shape)


def registry_for(E):
    """a registry holding the shape classes under their (symbolic, pairwise distinct, >= 128) type ids - what the metaclass
    builds (its model is trusted: class_postprocess)"""
    d = PyDict()
    ids = []
    for c in CLASSES:
        info = E.cls(MOD + '.' + c)
        info.ensure_evaluated()
        tid = info.class_attrs['type_id']
        E.assume(z3.And(S.term(tid) >= 128, S.term(tid) <= 65535))
        for o in ids:
            E.assume(S.term(tid) != S.term(o))
        ids.append(tid)
        d.keys.append(tid)
        d.vals.append(ClassVal(info))
    return d


def fields_of(x):
    if 'value' in x.attrs and x.cls.is_enum():
        return None
    return list(x.cls.class_attrs['_fields'])


def header_of(E, x):
    return E.pack('>H', x.cls.class_attrs['type_id'])


def layout(x, stream, chunks, ghost):
    """the bytes written: the 2-byte type id, then - through the nested writer - the field count and every field in the
    order of _fields (an enum member: its value), each exactly once, back to back, nothing else"""
    fs = fields_of(x)
    want = [x.attrs['value']] if fs is None else [len(fs)] + [x.attrs[f] for f in fs]
    if len(chunks) != len(want):
        return False
    g = True
    pos = ops.binop('Add', ghost.start, 2)
    for (start, n, value), w in zip(chunks, want):
        g = ops.and_(g, ops.compare('Eq', start, pos))
        g = ops.and_(g, True if value is w else (same(value, w) if not isinstance(w, int) else ops.equal(value, w)))
        pos = ops.binop('Add', pos, Sym(n, 'int'))
    g = ops.and_(g, ops.compare('Eq', stream.pos, pos))
    g = ops.and_(g, ops.compare('Eq', ops.bytes_len(stream.buf), pos))
    return g


def replay_objects(label, model):
    """native replay: the same classes defined natively, every enum member, field values from the counter-model plus
    boundary values; the real serialize_value / deserialize_value are run back to back with trailing bytes"""
    ints = sorted({v for k, v in (model or {}).items() if isinstance(v, int) and not isinstance(v, bool)} | {0, 1, -1, 127, 128, -129, 2 ** 40})
    return '''
import sys, io
from typing import List
from mpgameserver.serializable import Serializable, SerializableEnum, serialize_value, deserialize_value
class Suit(SerializableEnum):
    LOW = -3
    CLUBS = 0
    HEARTS = 1
    SPADES = 7
class F0(Serializable):
    pass
class F1(Serializable):
    a: int = 0
class F2(Serializable):
    a: int = 0
    b: str = ""
class F4(Serializable):
    a: int = 0
    b: str = ""
    c: Suit = Suit.HEARTS
    d: F2 = None
class FN(Serializable):
    e: List[int] = None
    n: int = 5
INTS = %r
STRS = ["", "x", "\\u00e9\\u4e16"]
def eq(x, y):
    if type(x) is not type(y): return False
    if isinstance(x, SerializableEnum): return x.value == y.value
    if isinstance(x, Serializable): return all(eq(getattr(x, f), getattr(y, f)) for f in x._fields)
    return x == y
values = [F0(), FN(e=None, n=None), FN(e=[1], n=0)] + [Suit(v) for v in (-3, 0, 1, 7)]
for a in INTS:
    values.append(F1(a=a))
    for b in STRS:
        values.append(F2(a=a, b=b))
        for c in (Suit.LOW, Suit.CLUBS, Suit.SPADES):
            values.append(F4(a=a, b=b, c=c, d=F2(a=-a, b=b + "y")))
bad = []
for v in values:
    try:
        s = io.BytesIO(); serialize_value(s, v); enc = s.getvalue()
        r = io.BytesIO(enc + b"\\x00\\x01tail"); w = deserialize_value(r)
        if not eq(v, w): bad.append("%%r decoded as %%r" %% (v, w))
        elif r.tell() != len(enc): bad.append("%%r: %%d bytes written, %%d consumed" %% (v, len(enc), r.tell()))
    except Exception as e:
        bad.append("%%r: %%r" %% (v, e))
m = Suit(0); m.value = 5
try:
    s = io.BytesIO(); serialize_value(s, m); bad.append("a member object with the illegal value 5 was written: %%r" %% s.getvalue())
except ValueError:
    pass
for b in bad[:6]: print(b)
print("%%d of %%d objects / members do not survive the binary round trip" %% (len(bad), len(values) + 1))
sys.exit(1 if bad else 0)
''' % (ints,)


def expose_chunks(ip, env):
    env['chunks'] = chunks_of(ip)


for _shape in CLASSES:
    @contract('serializable.serialize_value', props=['C13'], variant='object-' + _shape)
    class _:
        """the writer accepts every instance (every member) and writes header, count and fields in order"""
        def setup(E, _shape=_shape):
            ip = E.ip
            s = new_stream(E, E.bytes('before'))
            s.pos = ops.bytes_len(s.buf)
            x = make(E, _shape)
            registry_for(E)                 # (type ids in 128..65535, pairwise distinct)
            E.ghost('start', s.pos)
            E.ghost('header', header_of(E, x))
            E.ghost('before', s.buf)
            return dict(stream=s, value=x)
        hooks = HOOKS
        finish = expose_chunks
        replay = replay_objects
        may_raise = []
        ensures = {
            # (format-agnostic on purpose: C13 asks for the round trip and for self-delimiting encodings, not for one wire layout -
            # a layout change made consistently in writer and reader must not raise an alarm; the layout helper `layout` above is
            # kept for debugging only)
            'something-is-written-at-the-end-of-the-stream': lambda stream, ghost: ops.and_(
                ops.compare('Gt', stream.pos, ghost.start), ops.compare('Eq', ops.bytes_len(stream.buf), stream.pos)),
        }

    @contract('serializable.deserialize_value', props=['C13'], variant='roundtrip-object-' + _shape)
    class _:
        """the REAL writer runs while the pre-state is built, the REAL reader is verified on its output followed by arbitrary
        trailing bytes"""
        def setup(E, _shape=_shape):
            ip = E.ip
            s = new_stream(E)
            x = make(E, _shape)
            fn = ip.repo.func('serializable.serialize_value')
            try:
                ip.call_function(fn, [s, x], {}, force_body=True)
            except PyExc:
                raise PathEnd()         # (the writer never refuses: serialize_value@object-* above)
            E.ghost('enc_len', S.term(ops.bytes_len(s.buf), 'int'))
            E.ghost('value', x)
            rest = E.bytes('rest')
            r = new_stream(E, ops.bytes_concat([s.buf, rest]))
            return {'stream': r, '__kwargs__': {'registry': registry_for(E)}}
        hooks = HOOKS
        replay = replay_objects
        ensures = {
            'decodes-to-an-equal-value': lambda result, ghost: same(ghost.value, result),
            'is-a-new-instance-of-the-same-class': lambda result, ghost: isinstance(result, Obj) and result.cls is ghost.value.cls,
            'consumes-exactly-the-encoding': lambda stream, ghost: S.bool(S.term(stream.pos, 'int') == ghost.enc_len),
        }


@contract('serializable.SerializableEnum.serialize', props=['C13'], variant='illegal-value')
class _:
    """a member object whose value is not a value of the enum is refused, never written"""
    def setup(E):
        info = E.cls(MOD + '.Suit')
        info.ensure_evaluated()
        v = E.int('v')
        for _n, val in info.enum_members:
            E.assume(S.term(v) != val)
        return dict(self=Obj(info, {'value': v}, tag='m'), stream=new_stream(E))
    hooks = HOOKS
    replay = replay_objects
    raises = {'value-error': ('ValueError', lambda: True)}
    ensures_exc = {'nothing-written': lambda stream: ops.compare('Eq', ops.bytes_len(stream.buf), 0)}


# ------------------------------------------------------------------------------------------ the public pair dumpb / loadb
def des_outer_real(ip, stream, **kwargs):
    """the outermost deserialize_value (called by loadb) is executed for real; the calls nested in it use the contract"""
    if getattr(ip, '_des_depth', 0) == 0:
        ip._des_depth = 1
        try:
            return ip.call_function(ip.repo.func('serializable.deserialize_value'), [stream], kwargs, force_body=True)
        finally:
            ip._des_depth = 0
    return des_model(ip, stream, **kwargs)


HOOKS_B = dict(HOOKS)
HOOKS_B['model:serializable.deserialize_value'] = des_outer_real

for _shape in ('F0', 'F2', 'F4', 'FN'):
    @contract('serializable.Serializable.loadb', props=['C13'], variant='dumpb-roundtrip-' + _shape)
    class _:
        """loadb(x.dumpb()) reproduces x: the REAL dumpb runs while the pre-state is built, the REAL loadb (and the REAL outer
        deserialize_value, constructor and deserialize) are verified on its output"""
        def setup(E, _shape=_shape):
            ip = E.ip
            x = make(E, _shape)
            reg = registry_for(E)
            E.set_class_attr('serializable.SerializableType', 'registry', reg)
            try:
                data = ip.call(ip.getattr(x, 'dumpb'), [], {})
            except PyExc:
                raise PathEnd()
            E.ghost('value', x)
            return {'stream': data}
        hooks = HOOKS_B
        replay = replay_objects
        ensures = {
            'reproduces-the-object-field-for-field': lambda result, ghost: same(ghost.value, result),
        }


# ------------------------------------------------------------------------------------------ C14: a peer announcing fewer fields
def supported_value(ip, v):
    t = ops.pytype(v)
    if t in ('bool', 'int', 'real', 'str', 'bytes', 'none', 'list', 'dict', 'set'):
        return True
    return isinstance(v, Obj) and v.cls is not None and v.cls.name in CLASSES


def fields_supported(ip, result):
    """every field of the decoded object (instance attribute, else the class attribute Python would find) holds a value of a
    supported or registered type - in particular never the serializable.Default sentinel"""
    if not (isinstance(result, Obj) and result.cls is not None and result.cls.name in CLASSES):
        return False
    for f in result.cls.class_attrs['_fields']:
        if f in result.attrs:
            v = result.attrs[f]
        else:
            found, v = ip.class_attr(result.cls, f)
            if not found:
                return False
        if isinstance(v, Obj) and v.tag == 'garbage':
            continue        # whatever the nested decoder returned: its own contract (deserialize_value@hostile-bytes)
        if not supported_value(ip, v):
            return False
    return True


def replay_short(label, model):
    return '''
import sys, io, struct
from mpgameserver.serializable import Serializable, Default, serialize_value, deserialize_value
class FD(Serializable):
    a: int = Default
    b: str = "dflt"
bad = []
for k in (0, 1, 2):
    s = io.BytesIO(); s.write(struct.pack(">H", FD.type_id)); serialize_value(s, k)
    for v in (7, "x")[:k]: serialize_value(s, v)
    try:
        o = deserialize_value(io.BytesIO(s.getvalue()))
    except Exception as e:
        continue
    for f in o._fields:
        v = getattr(o, f)
        if not isinstance(v, (bool, int, float, str, bytes, type(None), list, dict, set, Serializable)):
            bad.append("field count %d: field %s holds %r" % (k, f, v))
for b in bad: print(b)
sys.exit(1 if bad else 0)
'''


for _k in (0, 1, 2):
    @contract('serializable.deserialize_value', props=['C14'], variant='short-field-count-%d' % _k)
    class _:
        """hostile but well-formed bytes: the type id of a registered class, then a field count SMALLER than (or equal to) the
        number of fields the class has, then that many values: the result is composed of supported and registered types only"""
        def setup(E, _k=_k):
            ip = E.ip
            reg = registry_for(E)
            info = E.cls(MOD + '.FD')
            s = new_stream(E)
            s.m_write(ip, E.pack('>H', info.class_attrs['type_id']))
            ser_model(ip, s, _k)
            for i in range(_k):
                ser_model(ip, s, E.int('w%d' % i))
            r = new_stream(E, ops.bytes_concat([s.buf, E.bytes('rest')]))
            return {'stream': r, '__kwargs__': {'registry': reg}}
        hooks = HOOKS
        replay = replay_short
        may_raise = ['Exception']
        finish = lambda ip, env: env.__setitem__('ip', ip)
        ensures = {
            'every-field-holds-a-supported-value': lambda ip, result: fields_supported(ip, result),
        }


# ------------------------------------------------------------------------------------------ containers, one level, longer
# The container writers / readers (serialize_seq/map/set, deserialize_seq/map/set) executed for real with the ELEMENT encodings
# under the inverse-pair contract: lengths up to 8, mixed element types (the c13_serializer variants execute the real leaf codecs
# too, for lengths 0..2).  The length dimension stays bounded; element values are unbounded.
def mixed_elements(E, n, tag):
    out = []
    for i in range(n):
        k = i % 5
        if k == 0:
            out.append(E.int('%s_i%d' % (tag, i)))
        elif k == 1:
            out.append(ostr(E, '%s_s%d' % (tag, i)))
        elif k == 2:
            out.append(None)
        elif k == 3:
            out.append(new(E, 'F2', a=E.int('%s_a%d' % (tag, i)), b=ostr(E, '%s_b%d' % (tag, i))))
        else:
            out.append(E.enum(MOD + '.Suit', '%s_m%d' % (tag, i)))
    return out


def distinct_ints(E, n, tag):
    xs = [E.int('%s%d' % (tag, i)) for i in range(n)]
    for i in range(n):
        for j in range(i):
            E.assume(S.term(xs[i]) != S.term(xs[j]))
    return xs


def container_value(E, kind, n):
    if kind == 'list':
        return PyList(mixed_elements(E, n, 'e'))
    if kind == 'tuple':
        return tuple(mixed_elements(E, n, 'e'))
    if kind == 'set':
        return PySet(distinct_ints(E, n, 'e'))
    d = PyDict()
    d.keys = distinct_ints(E, n, 'k')
    d.vals = mixed_elements(E, n, 'v')
    return d


def same_container(v, r):
    if isinstance(v, tuple):            # tuples come back as lists
        v = PyList(list(v))
    return same(v, r)


def replay_containers(label, model):
    return '''
import sys, io
from mpgameserver.serializable import Serializable, SerializableEnum, serialize_value, deserialize_value
class Suit(SerializableEnum):
    LOW = -3
    CLUBS = 0
    SPADES = 7
class F2(Serializable):
    a: int = 0
    b: str = ""
def eq(x, y):
    if isinstance(x, tuple): x = list(x)
    if type(x) is not type(y): return False
    if isinstance(x, SerializableEnum): return x.value == y.value
    if isinstance(x, Serializable): return all(eq(getattr(x, f), getattr(y, f)) for f in x._fields)
    if isinstance(x, list): return len(x) == len(y) and all(eq(a, b) for a, b in zip(x, y))
    if isinstance(x, dict): return len(x) == len(y) and all(k in y and eq(v, y[k]) for k, v in x.items())
    return x == y
def elems(n): return [[i * 1000 - 7, "s%d" % i, None, F2(a=-i, b="b%d" % i), Suit.SPADES][i % 5] for i in range(n)]
values = []
for n in range(0, 12):
    values += [elems(n), tuple(elems(n)), set(range(-3, n - 3)), {k - 2: v for k, v in enumerate(elems(n))}]
bad = []
for v in values:
    try:
        s = io.BytesIO(); serialize_value(s, v); enc = s.getvalue()
        r = io.BytesIO(enc + b"tail"); w = deserialize_value(r)
        if not eq(v, w): bad.append("%r decoded as %r" % (v, w))
        elif r.tell() != len(enc): bad.append("%r: %d bytes written, %d consumed" % (v, len(enc), r.tell()))
    except Exception as e:
        bad.append("%r: %r" % (v, e))
for b in bad[:6]: print(b[:300])
print("%d of %d containers do not survive the round trip" % (len(bad), len(values)))
sys.exit(1 if bad else 0)
'''


for _kind in ('list', 'tuple', 'set', 'dict'):
    for _n in (0, 1, 2, 3, 5, 8):
        @contract('serializable.deserialize_value', props=['C13'], variant='roundtrip-%s-of-%d-elements' % (_kind, _n))
        class _:
            def setup(E, _kind=_kind, _n=_n):
                ip = E.ip
                s = new_stream(E)
                x = container_value(E, _kind, _n)
                try:
                    ip.call_function(ip.repo.func('serializable.serialize_value'), [s, x], {}, force_body=True)
                except PyExc:
                    raise PathEnd()
                E.ghost('enc_len', S.term(ops.bytes_len(s.buf), 'int'))
                E.ghost('value', x)
                r = new_stream(E, ops.bytes_concat([s.buf, E.bytes('rest')]))
                return {'stream': r, '__kwargs__': {'registry': registry_for(E)}}
            hooks = HOOKS
            replay = replay_containers
            ensures = {
                'decodes-to-an-equal-value': lambda result, ghost: same_container(ghost.value, result),
                'consumes-exactly-the-encoding': lambda stream, ghost: S.bool(S.term(stream.pos, 'int') == ghost.enc_len),
            }

        @contract('serializable.serialize_value', props=['C13'], variant='accepts-%s-of-%d-elements' % (_kind, _n))
        class _:
            """the writer does not refuse a container below the length limit (so the round trip above is not vacuous)"""
            def setup(E, _kind=_kind, _n=_n):
                return dict(stream=new_stream(E), value=container_value(E, _kind, _n))
            hooks = HOOKS
            replay = replay_containers
            may_raise = []
            finish = expose_chunks
            ensures = {'something-is-written': lambda stream: ops.compare('Gt', ops.bytes_len(stream.buf), 0)}
