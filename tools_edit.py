#!/usr/bin/env python3
"""CRLF-preserving single replacement in a /repo file: tools_edit.py <file> <old> <new>  (old/new with \\n line ends; python-escaped)"""
import sys
def edit(path, old, new):
    raw = open(path, 'rb').read().decode('utf-8')
    crlf = '\r\n' in raw
    txt = raw.replace('\r\n', '\n')
    assert txt.count(old) == 1, 'old text occurs %d times in %s' % (txt.count(old), path)
    txt = txt.replace(old, new)
    if crlf:
        txt = txt.replace('\n', '\r\n')
    open(path, 'wb').write(txt.encode('utf-8'))
if __name__ == '__main__':
    edit(sys.argv[1], sys.argv[2].encode().decode('unicode_escape'), sys.argv[3].encode().decode('unicode_escape'))
