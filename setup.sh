#!/bin/sh
# offline setup: nothing to build; byte-compile check + engine self-test
cd "$(dirname "$0")" || exit 1
export PYTHONPATH="$(pwd)" PYTHONDONTWRITEBYTECODE=1
python3-vt -c "import pyvc.runner, pyvc.verify, z3; print('pyvc ok, z3', z3.get_version_string())" || exit 1
# differential self-test of the engine's concrete semantics against CPython (informational: a difference is printed, the
# checks themselves decide their own exit codes)
python3-vt tools_crosscheck.py 1000 2>&1 | tail -3 || true
exit 0
