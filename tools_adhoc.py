#!/usr/bin/env python3
"""ad-hoc mutation probe: copy /repo/mpgameserver to a scratch dir under /var/tmp, replace <old> by <new> in <file> (CRLF kept),
run ./check <args...> against the copy, remove the copy.   usage: tools_adhoc.py <file> <old> <new> -- <check args>"""
import os, shutil, subprocess, sys, tempfile
HERE = os.path.dirname(os.path.abspath(__file__))
sys.path.insert(0, HERE)
from tools_edit import edit
def main():
    i = sys.argv.index('--')
    f, old, new = sys.argv[1:4]
    args = sys.argv[i + 1:]
    scratch = tempfile.mkdtemp(prefix='pyvc_adhoc_', dir='/var/tmp')
    try:
        dst = os.path.join(scratch, 'repo')
        shutil.copytree('/repo/mpgameserver', os.path.join(dst, 'mpgameserver'))
        edit(os.path.join(dst, 'mpgameserver', f), old.encode().decode('unicode_escape'), new.encode().decode('unicode_escape'))
        env = dict(os.environ, PYVC_REPO=dst, PYVC_NO_EVIDENCE='1')
        return subprocess.run([os.path.join(HERE, 'check')] + args, env=env).returncode
    finally:
        shutil.rmtree(scratch, ignore_errors=True)
sys.exit(main())
